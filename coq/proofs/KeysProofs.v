(** C11 - proofs about model/Keys.v *)
From IndModel Require Import Base Keys Pos.
From IndGen Require Import Constants.
From Coq Require Import String List NArith Bool Lia ZifyBool ZifyNat ZifyN.
Import ListNotations.
Open Scope N_scope.
Ltac Zify.zify_post_hook ::= Z.div_mod_to_equations.
Arguments N.add : simpl never.
Arguments N.sub : simpl never.
Arguments N.mul : simpl never.
Arguments N.div : simpl never.
Arguments N.modulo : simpl never.

(** ------------------------------------------------------------------ finite key sets *)
Definition mem (k : string) (l : list string) : bool := existsb (String.eqb k) l.

Lemma mem_In : forall k l, mem k l = true <-> In k l.
Proof.
  intros k l. unfold mem. rewrite existsb_exists. split.
  - intros [x [Hin Heq]]. apply String.eqb_eq in Heq. subst x. exact Hin.
  - intros Hin. exists k. split; [exact Hin | apply String.eqb_refl].
Qed.


(** the hand-written chain [key_id] recognises exactly the string literals of the match arms
    of format_state, as regenerated from src/style.rs into FORMAT_KEYS *)
Lemma key_id_some_in : forall k b, key_id k = Some b -> In k FORMAT_KEYS.
Proof.
  intros k b. unfold key_id.
  repeat match goal with
         | |- context [String.eqb k ?s] =>
             destruct (String.eqb_spec k s) as [-> | _];
             [ intros _; apply mem_In; vm_compute; reflexivity | ]
         end.
  discriminate.
Qed.

Lemma key_id_all_implemented :
  forallb (fun k => is_some (key_id k)) FORMAT_KEYS = true.
Proof. vm_compute. reflexivity. Qed.

Lemma key_id_implemented : forall k, key_id k <> None <-> In k FORMAT_KEYS.
Proof.
  intros k. split.
  - destruct (key_id k) as [b |] eqn:E; [intros _; eapply key_id_some_in; eauto | congruence].
  - intros Hin. pose proof key_id_all_implemented as H.
    rewrite forallb_forall in H. specialize (H k Hin).
    destruct (key_id k); [discriminate | discriminate H].
Qed.

(** key_id is injective on names: two different arms are never reached by the same key, and
    every arm is reached by exactly the name of that arm *)
Lemma key_id_distinct : NoDup FORMAT_KEYS.
Proof.
  unfold FORMAT_KEYS.
  repeat (constructor; [ rewrite <- mem_In; vm_compute; discriminate | ]).
  constructor.
Qed.

Lemma doc_table_keys : map fst doc_table = DOCUMENTED_KEYS.
Proof. reflexivity. Qed.

Lemma documented_subset :
  forallb (fun k => mem k FORMAT_KEYS) DOCUMENTED_KEYS = true
  /\ forallb (fun k => mem k DOCUMENTED_KEYS) FORMAT_KEYS = true.
Proof. split; vm_compute; reflexivity. Qed.

Lemma documented_iff_implemented : forall k, In k DOCUMENTED_KEYS <-> In k FORMAT_KEYS.
Proof.
  intros k. destruct documented_subset as [H1 H2].
  rewrite forallb_forall in H1, H2. split; intros Hin.
  - apply mem_In. apply H1. exact Hin.
  - apply mem_In. apply H2. exact Hin.
Qed.

Lemma documented_nodup : NoDup DOCUMENTED_KEYS.
Proof.
  unfold DOCUMENTED_KEYS.
  repeat (constructor; [ rewrite <- mem_In; vm_compute; discriminate | ]).
  constructor.
Qed.

(** ------------------------------------------------------------------ the table *)
Lemma nth_last : forall (A : Type) (l : list A) (d : A), nth (List.length l - 1) l d = last l d.
Proof.
  intros A l d. induction l as [| x r IH]; [reflexivity |].
  destruct r as [| y r']; [reflexivity |].
  cbn [List.length] in *. rewrite Nat.sub_succ, Nat.sub_0_r in *.
  change (last (x :: y :: r') d) with (last (y :: r') d). rewrite <- IH. reflexivity.
Qed.

Ltac eval_key :=
  repeat match goal with
         | |- context [key_id ?k] =>
             let x := eval vm_compute in (key_id k) in change (key_id k) with x
         | |- context [lookup ?k doc_table] =>
             let x := eval vm_compute in (lookup k doc_table) in change (lookup k doc_table) with x
         end.

Open Scope string_scope.

(** For every documented key and EVERY snapshot (every position/length pair, tick count,
    message, clock reading) the code's arm computes getter o formatter as documented. *)
Lemma table_correct : forall (F : formatters) (ticks : list text) (tab : N) (s : snapshot) (k : string)
                             (w : option N),
  In k DOCUMENTED_KEYS ->
  (k = "per_sec" -> w = None) ->
  key_value F ticks tab s k w = documented F ticks tab s k w.
Proof.
  intros F ticks tab s k w Hin Hq. unfold DOCUMENTED_KEYS in Hin. cbn [In] in Hin.
  unfold key_value, documented.
  repeat (destruct Hin as [<- | Hin];
          [ eval_key;
            cbv [builtin_value doc_value get_u64 get_dur fmt_u64 current_tick_str
                 get_tick_str get_final_tick_str];
            try (rewrite (Hq eq_refl)); try rewrite nth_last; try reflexivity | ]).
  contradiction.
Qed.

(** the one undocumented behaviour of the dispatch: a width on per_sec is also the precision *)
Lemma per_sec_width : forall F ticks tab s w,
  key_value F ticks tab s "per_sec" (Some w)
  = ((f_hfloat F (Some w) (o_per_sec (s_obs s)) ++ per_s)%list, None).
Proof. intros. reflexivity. Qed.

Lemma unknown_key_empty : forall F ticks tab s k w,
  ~ In k FORMAT_KEYS -> key_value F ticks tab s k w = ([], None).
Proof.
  intros F ticks tab s k w Hn. unfold key_value.
  destruct (key_id k) as [b |] eqn:E; [| reflexivity].
  exfalso. apply Hn. eapply key_id_some_in; eauto.
Qed.

(** ------------------------------------------------------------------ missing length *)
(* [with_s_len], like the rest of the vocabulary of the statements (is_some, part_text, part_narrow,
   single_line, unsplit, op_draws, apply_event, step_events, bar_events, on_trackers, spins, fin_kind,
   to_pops, proj, doc_part, doc_text, line_alone, line_ok, doc_part_ml, doc_line), is defined in
   model/Keys.v; the sections below abbreviate their section arguments *)

Lemma missing_len_all_keys : forall F ticks tab s k w,
  s_len s = None ->
  key_value F ticks tab s k w = key_value F ticks tab (with_s_len s (Some (s_pos s))) k w.
Proof.
  intros F ticks tab s k w Hl. unfold key_value. destruct (key_id k) as [b |]; [| reflexivity].
  destruct b; cbv [builtin_value with_s_len s_len s_pos s_obs current_tick_str s_finished s_tick
                   s_message s_prefix]; destruct s; cbn in Hl; subst; reflexivity.
Qed.

Lemma missing_len_values : forall F ticks tab s w,
  s_len s = None ->
  key_value F ticks tab s "len" w = (dec_text (s_pos s), None)
  /\ key_value F ticks tab s "human_len" w = (f_count F (s_pos s), None)
  /\ key_value F ticks tab s "total_bytes" w = (f_hbytes F (s_pos s), None)
  /\ key_value F ticks tab s "decimal_total_bytes" w = (f_dbytes F (s_pos s), None)
  /\ key_value F ticks tab s "binary_total_bytes" w = (f_bbytes F (s_pos s), None).
Proof.
  intros F ticks tab s w Hl. unfold key_value. eval_key. cbv [builtin_value]. rewrite Hl.
  repeat split; reflexivity.
Qed.

(** ------------------------------------------------------------------ spinner *)
(** the tick string the code selects (style.rs:176-191), before the TabRewriter *)
Lemma current_tick_str_spec : forall ticks s,
  current_tick_str ticks s =
    (if s_finished s then last ticks []
     else nth (N.to_nat (s_tick s mod (N.of_nat (List.length ticks) - 1))) ticks []).
Proof.
  intros ticks s. cbv [current_tick_str get_tick_str get_final_tick_str].
  rewrite nth_last. reflexivity.
Qed.

(** what the TabRewriter does to a text: nothing if it has no TAB; afterwards no TAB is left *)
Lemma expand_tabs_no_tab : forall w t, ~ In 9 t -> expand_tabs w t = t.
Proof.
  intros w t. unfold expand_tabs. induction t as [| c r IH]; intros Hn; [reflexivity |].
  cbn [flat_map]. destruct (N.eqb_spec c 9) as [-> | Hc].
  - exfalso. apply Hn. left. reflexivity.
  - cbn [app]. f_equal. apply IH. intros Hin. apply Hn. right. exact Hin.
Qed.

Lemma spaces_no_tab : forall n, ~ In 9 (spaces n).
Proof.
  intros n. unfold spaces. induction n as [| n IH] using N.peano_ind.
  - cbn. tauto.
  - rewrite N.iter_succ. intros [H | H]; [discriminate H | exact (IH H)].
Qed.

Lemma expand_tabs_tab_free : forall w t, ~ In 9 (expand_tabs w t).
Proof.
  intros w t. unfold expand_tabs. induction t as [| c r IH]; [cbn; tauto |].
  cbn [flat_map]. intros Hin. apply in_app_or in Hin. destruct Hin as [Hin | Hin]; [| exact (IH Hin)].
  destruct (N.eqb_spec c 9) as [-> | Hc].
  - exact (spaces_no_tab w Hin).
  - destruct Hin as [H | []]. apply Hc. exact H.
Qed.

Lemma spinner_value : forall F ticks tab s w,
  (2 <= List.length ticks)%nat ->
  let n := N.of_nat (List.length ticks) in
  fst (key_value F ticks tab s "spinner" w) =
    expand_tabs tab
      (if s_finished s then last ticks []
       else nth (N.to_nat (s_tick s mod (n - 1))) ticks [])
  /\ (s_tick s mod (n - 1) < n - 1).
Proof.
  intros F ticks tab s w Hn n. unfold key_value. eval_key.
  cbv [builtin_value fst]. rewrite current_tick_str_spec.
  split; [reflexivity |].
  apply N.mod_lt. subst n. lia.
Qed.

(** a tick string without TAB is shown verbatim; with TABs, none is left in the frame *)
Lemma spinner_no_tab : forall F ticks tab s w,
  let t := if s_finished s then last ticks []
           else nth (N.to_nat (s_tick s mod (N.of_nat (List.length ticks) - 1))) ticks [] in
  (~ In 9 t -> fst (key_value F ticks tab s "spinner" w) = t)
  /\ ~ In 9 (fst (key_value F ticks tab s "spinner" w)).
Proof.
  intros F ticks tab s w t. unfold key_value. eval_key.
  cbv [builtin_value fst]. rewrite current_tick_str_spec. fold t. split.
  - intros Hn. apply expand_tabs_no_tab. exact Hn.
  - apply expand_tabs_tab_free.
Qed.

(** before the finish the final tick string (index n-1) is never selected, and the cycle has
    period n-1 *)
Lemma spinner_period : forall F ticks tab s s' w,
  (2 <= List.length ticks)%nat ->
  s_finished s = false -> s_finished s' = false ->
  s_tick s' = s_tick s + (N.of_nat (List.length ticks) - 1) ->
  fst (key_value F ticks tab s' "spinner" w) = fst (key_value F ticks tab s "spinner" w).
Proof.
  intros F ticks tab s s' w Hn Hf Hf' Ht. unfold key_value. eval_key.
  cbv [builtin_value current_tick_str get_tick_str fst]. rewrite Hf, Hf', Ht.
  set (m := N.of_nat (List.length ticks) - 1).
  assert (Hm : m <> 0) by (subst m; lia).
  replace (s_tick s + m) with (s_tick s + 1 * m) by lia.
  rewrite N.mod_add by exact Hm. reflexivity.
Qed.
Close Scope string_scope.

(** ------------------------------------------------------------------ custom keys, lines *)
Section Custom.
  Context {T : Type}.
  Variable TO : tracker_ops T.
  Variable F : formatters.

  (** a custom key shadows a built-in key of the same name; what it writes is computed from the
      state of the draw (view_of s) and passed through the tab rewriter *)
  Lemma custom_write : forall (sty : style T) s k w tr,
    lookup k (customs sty) = Some tr ->
    render_key TO F sty s k w =
      (let buf := expand_tabs (sty_tab sty) (t_write TO tr (view_of s)) in
       match w with Some w => pad_left buf w | None => buf end, None).
  Proof. intros sty s k w tr H. unfold render_key, key_text. rewrite H. reflexivity. Qed.

  Lemma builtin_render : forall (sty : style T) s k w,
    lookup k (customs sty) = None ->
    render_key TO F sty s k w =
      (let buf := fst (key_value F (tick_strings sty) (sty_tab sty) s k w) in
       match w with Some w => pad_left buf w | None => buf end,
       snd (key_value F (tick_strings sty) (sty_tab sty) s k w)).
  Proof.
    intros sty s k w H. unfold render_key, key_text. rewrite H.
    destruct (key_value F (tick_strings sty) (sty_tab sty) s k w). reflexivity.
  Qed.

  Notation part_text := (part_text TO F).
  Notation part_narrow := (part_narrow TO F).

  Definition merge_wide (wd' wd : option wide) : option wide :=
    match wd' with Some x => Some x | None => wd end.

  Lemma render_parts_narrow : forall sty s ps cur wd,
    Forall (part_narrow sty s) ps ->
    render_parts TO F sty s ps cur wd = (cur ++ concat (map (part_text sty s) ps), wd).
  Proof.
    intros sty s ps. induction ps as [| p r IH]; intros cur wd Hn.
    - cbn. rewrite app_nil_r. reflexivity.
    - inversion Hn as [| ? ? Hp Hr]; subst. destruct p as [l | k w |].
      + cbn [render_parts map concat part_text]. rewrite IH by exact Hr.
        rewrite app_assoc. reflexivity.
      + cbn [render_parts map concat part_text]. cbn [part_narrow] in Hp.
        destruct (render_key TO F sty s k w) as [out wd'] eqn:E. cbn [snd] in Hp. subst wd'.
        cbn [fst]. rewrite IH by exact Hr. rewrite app_assoc. reflexivity.
      + destruct Hp.
  Qed.

  Lemma render_parts_concat : forall sty s ps cur,
    Forall (part_narrow sty s) ps ->
    render_parts TO F sty s ps cur None = (cur ++ concat (map (part_text sty s) ps), None).
  Proof. intros sty s ps cur Hn. apply render_parts_narrow. exact Hn. Qed.

  (** narrow parts in front of the rest of a line *)
  Lemma render_parts_app_narrow : forall sty s pre rest cur wd,
    Forall (part_narrow sty s) pre ->
    render_parts TO F sty s (pre ++ rest) cur wd
    = render_parts TO F sty s rest (cur ++ concat (map (part_text sty s) pre)) wd.
  Proof.
    intros sty s pre. induction pre as [| p r IH]; intros rest cur wd Hn.
    - cbn. rewrite app_nil_r. reflexivity.
    - inversion Hn as [| ? ? Hp Hr]; subst. destruct p as [l | k w |].
      + cbn [app render_parts map concat part_text]. rewrite IH by exact Hr.
        rewrite app_assoc. reflexivity.
      + cbn [app render_parts map concat part_text]. cbn [part_narrow] in Hp.
        destruct (render_key TO F sty s k w) as [out wd'] eqn:E. cbn [snd] in Hp. subst wd'.
        cbn [fst]. rewrite IH by exact Hr. rewrite app_assoc. reflexivity.
      + destruct Hp.
  Qed.

  (** the wide element a line starts with only matters if the line does not set its own: the text
      of the line does not depend on it *)
  Lemma render_parts_wide_in : forall sty s ps cur wd,
    render_parts TO F sty s ps cur wd
    = (fst (render_parts TO F sty s ps cur None),
       merge_wide (snd (render_parts TO F sty s ps cur None)) wd).
  Proof.
    intros sty s ps. induction ps as [| p r IH]; intros cur wd.
    - reflexivity.
    - destruct p as [l | k w |].
      + cbn [render_parts]. apply IH.
      + cbn [render_parts]. destruct (render_key TO F sty s k w) as [out wd'].
        rewrite IH. rewrite (IH _ (match wd' with Some x => Some x | None => None end)).
        cbn [fst snd]. f_equal.
        destruct (snd (render_parts TO F sty s r (cur ++ out) None)); destruct wd'; reflexivity.
      + reflexivity.
  Qed.

  (** ---------------------------------------------------------------- the scratch buffer *)
  Lemma m_placeholder_render_key : forall (sty : style T) s k w cur buf wd,
    m_placeholder TO F sty s k w cur buf wd
    = (cur ++ fst (render_key TO F sty s k w), fst (key_text TO F sty s k w),
       merge_wide (snd (render_key TO F sty s k w)) wd).
  Proof.
    intros sty s k w cur buf wd. unfold m_placeholder, render_key.
    destruct (key_text TO F sty s k w) as [v wd']. reflexivity.
  Qed.

  Lemma m_push_line_lines : forall wd cur buf s tw,
    fst (m_push_line F wd cur buf s tw) = push_line F wd cur s tw.
  Proof. intros [[|] |] cur buf s tw; reflexivity. Qed.

  (** whatever the scratch buffer holds when a part is reached - in particular the padded message
      that WideElement::Message::expand leaves in it at the end of a wide_msg line - never
      reaches the output: format_state is the loop over (cur, wide) alone *)
  Lemma m_format_no_buf : forall (sty : style T) s tw ps cur buf wd,
    m_format TO F sty s tw ps cur buf wd = format_parts TO F sty s tw ps cur wd.
  Proof.
    intros sty s tw ps. induction ps as [| p r IH]; intros cur buf wd.
    - cbn [m_format format_parts]. destruct cur; [reflexivity | apply m_push_line_lines].
    - destruct p as [l | k w |].
      + cbn [m_format format_parts]. apply IH.
      + cbn [m_format format_parts]. rewrite m_placeholder_render_key.
        destruct (render_key TO F sty s k w) as [out wd']. cbn [fst snd]. apply IH.
      + cbn [m_format format_parts].
        pose proof (m_push_line_lines wd cur buf s tw) as H.
        destruct (m_push_line F wd cur buf s tw) as [ls buf']. cbn [fst] in H. rewrite H, IH.
        reflexivity.
  Qed.

  Lemma m_format_buf_irrelevant : forall (sty : style T) s tw ps cur buf buf' wd,
    m_format TO F sty s tw ps cur buf wd = m_format TO F sty s tw ps cur buf' wd.
  Proof. intros. rewrite !m_format_no_buf. reflexivity. Qed.

  Lemma format_state_parts : forall (sty : style T) s tw,
    format_state TO F sty s tw = format_parts TO F sty s tw (template sty) [] None.
  Proof. intros. apply m_format_no_buf. Qed.

  (** ---------------------------------------------------------------- lines *)
  Definition is_newline (p : part) : bool := match p with PNewLine => true | _ => false end.

  Lemma split_lines_nonnil : forall ps, split_lines ps <> [].
  Proof.
    induction ps as [| p r IH]; [discriminate |].
    destruct p; cbn [split_lines]; try discriminate; destruct (split_lines r); discriminate.
  Qed.

  Lemma split_lines_cons : forall p r,
    p <> PNewLine ->
    split_lines (p :: r) = (p :: hd [] (split_lines r)) :: tl (split_lines r).
  Proof.
    intros p r Hp. pose proof (split_lines_nonnil r) as Hn.
    destruct p; try congruence; cbn [split_lines]; destruct (split_lines r); try congruence;
      reflexivity.
  Qed.

  (** no template line contains a NewLine part *)
  Lemma split_lines_single : forall ps, Forall single_line (split_lines ps).
  Proof.
    induction ps as [| p r IH].
    - constructor; constructor.
    - destruct (is_newline p) eqn:E.
      + destruct p; try discriminate. cbn [split_lines]. constructor; [constructor | exact IH].
      + assert (Hp : p <> PNewLine) by (intros ->; discriminate).
        rewrite split_lines_cons by exact Hp. pose proof (split_lines_nonnil r) as Hn.
        destruct (split_lines r) as [| l ls]; [congruence |].
        inversion IH as [| ? ? Hl Hls]; subst. cbn [hd tl].
        constructor; [constructor; assumption | exact Hls].
  Qed.

  (** a template without NewLine parts is its own single line *)
  Lemma split_lines_of_single : forall ps, single_line ps -> split_lines ps = [ps].
  Proof.
    induction ps as [| p r IH]; intros H; [reflexivity |].
    inversion H as [| ? ? Hp Hr]; subst. rewrite split_lines_cons by exact Hp.
    rewrite IH by exact Hr. reflexivity.
  Qed.

  (** joining the lines again (with NewLine parts between them) gives the template back *)
  Lemma unsplit_split : forall ps, unsplit (split_lines ps) = ps.
  Proof.
    induction ps as [| p r IH]; [reflexivity |].
    destruct (is_newline p) eqn:E.
    - destruct p; try discriminate. cbn [split_lines]. pose proof (split_lines_nonnil r) as Hn.
      cbn [unsplit]. destruct (split_lines r) eqn:Er; [congruence |]. cbn [app]. rewrite IH.
      reflexivity.
    - assert (Hp : p <> PNewLine) by (intros ->; discriminate).
      rewrite split_lines_cons by exact Hp. pose proof (split_lines_nonnil r) as Hn.
      destruct (split_lines r) as [| l ls]; [congruence |]. cbn [hd tl].
      destruct ls as [| l2 ls]; cbn [unsplit] in *; rewrite <- IH; reflexivity.
  Qed.

  Lemma template_lines : forall ps,
    Forall single_line (split_lines ps) /\ unsplit (split_lines ps) = ps.
  Proof. intros ps. split; [apply split_lines_single | apply unsplit_split]. Qed.

  Lemma format_segs_step : forall (sty : style T) s tw seg rest cur wd,
    format_segs TO F sty s tw (seg :: rest) cur wd
    = match rest with
      | [] => match fst (render_parts TO F sty s seg cur wd) with
              | [] => []
              | c => push_line F (snd (render_parts TO F sty s seg cur wd)) c s tw
              end
      | _ => push_line F (snd (render_parts TO F sty s seg cur wd))
                       (fst (render_parts TO F sty s seg cur wd)) s tw
             ++ format_segs TO F sty s tw rest [] (snd (render_parts TO F sty s seg cur wd))
      end.
  Proof.
    intros. cbn [format_segs]. destruct (render_parts TO F sty s seg cur wd) as [c w].
    cbn [fst snd]. destruct rest; [destruct c |]; reflexivity.
  Qed.

  (** the loop of format_state, line by line *)
  Lemma format_parts_segs : forall (sty : style T) s tw ps cur wd,
    format_parts TO F sty s tw ps cur wd = format_segs TO F sty s tw (split_lines ps) cur wd.
  Proof.
    intros sty s tw ps. induction ps as [| p r IH]; intros cur wd.
    - cbn [format_parts split_lines format_segs render_parts]. destruct cur; reflexivity.
    - pose proof (split_lines_nonnil r) as Hn. destruct p as [l | k w |].
      + cbn [format_parts]. rewrite IH. rewrite split_lines_cons by discriminate.
        destruct (split_lines r) as [| seg rest]; [congruence |]. cbn [hd tl].
        rewrite !format_segs_step. cbn [render_parts]. reflexivity.
      + cbn [format_parts]. rewrite split_lines_cons by discriminate.
        destruct (render_key TO F sty s k w) as [out wd'] eqn:E. rewrite IH.
        destruct (split_lines r) as [| seg rest]; [congruence |]. cbn [hd tl].
        rewrite !format_segs_step. cbn [render_parts]. rewrite E. reflexivity.
      + cbn [format_parts split_lines]. rewrite IH.
        destruct (split_lines r) as [| seg rest]; [congruence |].
        rewrite (format_segs_step sty s tw [] (seg :: rest)). cbn [render_parts fst snd].
        reflexivity.
  Qed.

  Lemma format_state_segs : forall (sty : style T) s tw,
    format_state TO F sty s tw = format_segs TO F sty s tw (split_lines (template sty)) [] None.
  Proof. intros. rewrite format_state_parts. apply format_parts_segs. Qed.

  (** on a template without NewLine parts the general format_state is the single-line one *)
  Lemma format_state_single_line : forall (sty : style T) s tw,
    single_line (template sty) ->
    format_state TO F sty s tw = format_state_single TO F sty s tw.
  Proof.
    intros sty s tw H. rewrite format_state_segs, (split_lines_of_single _ H).
    unfold format_state_single. cbn [format_segs].
    destruct (render_parts TO F sty s (template sty) [] None) as [c w]. reflexivity.
  Qed.

  Lemma narrow_single_line : forall sty s ps, Forall (part_narrow sty s) ps -> single_line ps.
  Proof.
    intros sty s ps H. unfold single_line. eapply Forall_impl; [| exact H].
    intros p Hp ->. exact Hp.
  Qed.

  (** without a wide element the line is the concatenation of the parts, split at newlines; an
      empty line is not drawn *)
  Lemma format_state_concat : forall sty s tw,
    Forall (part_narrow sty s) (template sty) ->
    format_state TO F sty s tw =
      match concat (map (part_text sty s) (template sty)) with
      | [] => []
      | line => split_nl line []
      end.
  Proof.
    intros sty s tw Hn. rewrite format_state_single_line by (eapply narrow_single_line; exact Hn).
    unfold format_state_single. rewrite render_parts_concat by exact Hn.
    cbn [app]. destruct (concat (map (part_text sty s) (template sty))); reflexivity.
  Qed.
End Custom.

Lemma split_nl_none : forall t cur, ~ In 10 t -> split_nl t cur = [rev cur ++ t].
Proof.
  induction t as [| c r IH]; intros cur Hn.
  - cbn. rewrite app_nil_r. reflexivity.
  - cbn [split_nl]. destruct (N.eqb_spec c 10) as [-> | Hc].
    + exfalso. apply Hn. left. reflexivity.
    + rewrite IH by (intros H; apply Hn; right; exact H).
      cbn [rev]. rewrite <- app_assoc. reflexivity.
Qed.

(** ------------------------------------------------------------------ histories *)
Section History.
  Context {T : Type}.
  Variable TO : tracker_ops T.
  Variable F : formatters.
  Variable tw : N.

  Notation bstep := (bstep TO F tw).
  Notation brun := (brun TO F tw).
  Notation draw := (draw TO F tw).

  (** Whenever a call draws, the frame is the rendering of the state the call leaves behind -
      the state every getter returns right after the call - at the instant of the call. *)
  Lemma frame_is_post_state : forall (b : bstate T) o e lines,
    snd (bstep b (o, e)) = Some lines -> lines = draw (fst (bstep b (o, e))) e.
  Proof.
    intros b o e lines. destruct o; cbn [bstep Keys.bstep];
      unfold pos_update, bar_tick, finish, update_estimate_and_draw;
      try destruct (e_allowed e); cbn [fst snd]; intros H; inversion H; reflexivity.
  Qed.

  (** which calls draw at all *)
  Lemma draws_iff : forall (b : bstate T) o e,
    is_some (snd (bstep b (o, e))) = op_draws o (e_allowed e).
  Proof.
    intros b o e. destruct o; cbn [bstep Keys.bstep op_draws];
      unfold pos_update, bar_tick, finish, update_estimate_and_draw;
      try destruct (e_allowed e); reflexivity.
  Qed.

  (** the discrete state without the trackers *)
  Definition core (b : bstate T) : N * option N * N * status * text * text * N :=
    (b_pos b, b_len b, b_tick b, b_status b, b_message b, b_prefix b, b_tab b).

  Notation apply_event := (apply_event TO).
  Notation step_events := (step_events TO F tw).
  Notation bar_events := (bar_events TO F tw).
  Notation on_trackers := (@on_trackers T).
  Notation proj := (@proj T).

  Lemma on_trackers_id : forall l, on_trackers (fun t => t) l = l.
  Proof.
    induction l as [| [k t] r IH]; [reflexivity |].
    unfold on_trackers in *. cbn [map fst snd]. rewrite IH. reflexivity.
  Qed.

  Lemma on_trackers_comp : forall f g l, on_trackers g (on_trackers f l) = on_trackers (fun t => g (f t)) l.
  Proof. intros f g l. unfold on_trackers. rewrite map_map. reflexivity. Qed.

  Lemma step_trackers : forall (b : bstate T) oe,
    customs (b_style (fst (bstep b oe)))
    = on_trackers (fun t => fold_left apply_event (step_events b oe) t) (customs (b_style b))
    /\ tick_strings (b_style (fst (bstep b oe))) = tick_strings (b_style b)
    /\ template (b_style (fst (bstep b oe))) = template (b_style b).
  Proof.
    intros b [o e]. unfold step_events. cbn [fst snd].
    destruct o; cbn [op_event];
      try (destruct (e_allowed e) eqn:Ea);
      cbn [bstep Keys.bstep]; unfold pos_update, bar_tick, finish, update_estimate_and_draw;
      try rewrite Ea; cbn [fst snd fold_left apply_event];
      try (destruct f); try (destruct p); try (destruct l);
      cbn [map_trackers b_style customs tick_strings template with_tick with_pos with_len
           with_status with_message with_prefix with_tab bview b_pos b_len b_status];
      try (destruct (b_len b));
      cbn [map_trackers b_style customs tick_strings template with_tick with_pos with_len
           with_status with_message with_prefix with_tab bview b_pos b_len b_status];
      (split; [ try reflexivity; try (symmetry; apply on_trackers_id) | split; reflexivity ]).
  Qed.

  (** Every tracker has received exactly the tick / reset events of the bar, in order, each with
      the state of that moment, and nothing else - for every history. *)
  Lemma trackers_follow_bar : forall ops (b : bstate T),
    customs (b_style (fst (brun b ops)))
    = on_trackers (fun t => fold_left apply_event (bar_events b ops) t) (customs (b_style b)).
  Proof.
    induction ops as [| oe r IH]; intros b.
    - cbn. symmetry. apply on_trackers_id.
    - cbn [brun Keys.brun bar_events].
      destruct (bstep b oe) as [b1 fr] eqn:E1.
      destruct (Keys.brun TO F tw b1 r) as [b2 frs] eqn:E2. cbn [fst].
      specialize (IH b1). rewrite E2 in IH. cbn [fst] in IH. rewrite IH.
      pose proof (step_trackers b oe) as [Hs _]. rewrite E1 in Hs. cbn [fst] in Hs. rewrite Hs.
      rewrite on_trackers_comp. unfold on_trackers. apply map_ext. intros [k t]. cbn [fst snd].
      rewrite fold_left_app. reflexivity.
  Qed.

  (** the spinner counter: one step per tick() / update() / admitted position update,
      saturating at u64::MAX *)

  Lemma step_tick : forall (b : bstate T) o e,
    b_tick (fst (bstep b (o, e)))
    = if op_spins o (e_allowed e) then sat_add64 (b_tick b) 1 else b_tick b.
  Proof.
    intros b o e. destruct o; cbn [bstep Keys.bstep op_spins];
      unfold pos_update, bar_tick, finish, update_estimate_and_draw;
      try destruct (e_allowed e); try destruct f; try destruct p; try destruct l;
      cbn [fst b_tick b_len with_tick with_pos with_len with_status with_message with_prefix
           with_tab map_trackers];
      try destruct (b_len b); reflexivity.
  Qed.

  Lemma tick_count : forall ops (b : bstate T),
    b_tick b <= U64MAX ->
    b_tick (fst (brun b ops)) = N.min U64MAX (b_tick b + spins ops).
  Proof.
    induction ops as [| [o e] r IH]; intros b Hb.
    - cbn. lia.
    - cbn [brun Keys.brun spins].
      destruct (bstep b (o, e)) as [b1 fr] eqn:E1.
      destruct (Keys.brun TO F tw b1 r) as [b2 frs] eqn:E2. cbn [fst].
      pose proof (step_tick b o e) as Hs. rewrite E1 in Hs. cbn [fst] in Hs.
      specialize (IH b1). rewrite E2 in IH. cbn [fst] in IH.
      assert (Hb1 : b_tick b1 <= U64MAX).
      { rewrite Hs. destruct (op_spins o (e_allowed e)); unfold sat_add64; lia. }
      rewrite IH by exact Hb1. rewrite Hs.
      destruct (op_spins o (e_allowed e)); unfold sat_add64; lia.
  Qed.

  (** position, length and finished flag are those of the C07 model (Pos.v) run on the
      projected history: the closed forms proved there describe what the keys show *)
  Lemma step_proj : forall (b : bstate T) oe,
    proj (fst (bstep b oe)) = prun (proj b) (to_pops oe).
  Proof.
    intros b [o e]. destruct b as [p0 l0 t0 st0 m0 pr0 tab0 sty0]. unfold to_pops, proj. cbn [fst].
    destruct o; cbn [bstep Keys.bstep];
      unfold pos_update, bar_tick, finish, update_estimate_and_draw;
      try destruct (e_allowed e); try destruct f; try destruct p; try destruct l;
      cbn [fst map_trackers with_tick with_pos with_len with_status with_message with_prefix
           with_tab b_pos b_len b_status is_finished prun fold_left pstep pos len finished
           fin_kind finish_sets_pos app option_map];
      try reflexivity;
      destruct l0;
      cbn [fst map_trackers with_tick with_pos with_len with_status with_message with_prefix
           with_tab b_pos b_len b_status is_finished prun fold_left pstep pos len finished
           fin_kind finish_sets_pos app option_map];
      try reflexivity; destruct st0; reflexivity.
  Qed.

  Lemma run_proj : forall ops (b : bstate T),
    proj (fst (brun b ops)) = prun (proj b) (flat_map to_pops ops).
  Proof.
    induction ops as [| oe r IH]; intros b.
    - reflexivity.
    - cbn [brun Keys.brun flat_map].
      destruct (bstep b oe) as [b1 fr] eqn:E1.
      destruct (Keys.brun TO F tw b1 r) as [b2 frs] eqn:E2. cbn [fst].
      specialize (IH b1). rewrite E2 in IH. cbn [fst] in IH. rewrite IH.
      pose proof (step_proj b oe) as Hs. rewrite E1 in Hs. cbn [fst] in Hs. rewrite Hs.
      unfold prun. rewrite fold_left_app. reflexivity.
  Qed.

  (** frames of a whole history: the i-th call's frame is the rendering of the state after the
      first i+1 calls *)
  Lemma run_frames : forall ops (b : bstate T) i o e lines,
    nth_error ops i = Some (o, e) ->
    nth_error (snd (brun b ops)) i = Some (Some lines) ->
    lines = draw (fst (brun b (firstn (S i) ops))) e.
  Proof.
    induction ops as [| oe r IH]; intros b i o e lines Hop Hfr.
    - destruct i; discriminate.
    - cbn [brun Keys.brun] in Hfr.
      destruct (bstep b oe) as [b1 fr] eqn:E1.
      destruct (Keys.brun TO F tw b1 r) as [b2 frs] eqn:E2. cbn [snd] in Hfr.
      destruct i as [| i].
      + cbn in Hop, Hfr. inversion Hop; subst oe. inversion Hfr; subst fr.
        cbn [firstn brun Keys.brun]. rewrite E1. cbn [fst].
        pose proof (frame_is_post_state b o e lines) as H. rewrite E1 in H. cbn [fst snd] in H.
        apply H. reflexivity.
      + cbn [nth_error] in Hop, Hfr.
        change (firstn (S (S i)) (oe :: r)) with (oe :: firstn (S i) r).
        cbn [brun Keys.brun]. rewrite E1.
        destruct (Keys.brun TO F tw b1 (firstn (S i) r)) as [b3 frs3] eqn:E3. cbn [fst].
        specialize (IH b1 i o e lines Hop). rewrite E2 in IH. cbn [snd] in IH.
        rewrite E3 in IH. cbn [fst] in IH. apply IH. exact Hfr.
  Qed.
End History.

(** [x as u64] is a u64 *)
Lemma f64_to_u64_range : forall bits, f64_to_u64 bits <= U64MAX.
Proof.
  intros bits. unfold f64_to_u64.
  repeat match goal with |- context [if ?c then _ else _] => destruct c end;
    unfold U64MAX; try lia.
Qed.

(** ------------------------------------------------------------------ frames = documented table *)
Open Scope string_scope.
Lemma narrow_keys : forall F ticks tab s k w,
  In k DOCUMENTED_KEYS -> k <> "wide_bar" -> k <> "wide_msg" ->
  snd (key_value F ticks tab s k w) = None.
Proof.
  intros F ticks tab s k w Hin Hb Hm. unfold DOCUMENTED_KEYS in Hin. cbn [In] in Hin.
  unfold key_value.
  repeat (destruct Hin as [<- | Hin];
          [ try (exfalso; apply Hb; reflexivity); try (exfalso; apply Hm; reflexivity);
            eval_key; reflexivity | ]).
  contradiction.
Qed.

Section Frames.
  Context {T : Type}.
  Variable TO : tracker_ops T.
  Variable F : formatters.
  Variable tw : N.

  Notation doc_part := (@doc_part T).
  Notation doc_part_ml := (@doc_part_ml T).
  Notation doc_text := (doc_text F).
  Notation line_alone := (line_alone TO F tw).
  Notation line_ok := (line_ok TO F).
  Notation doc_line := (doc_line F).

  Lemma doc_parts_text : forall sty s ps,
    Forall (doc_part sty) ps ->
    map (part_text TO F sty s) ps = map (doc_text sty s) ps
    /\ Forall (part_narrow TO F sty s) ps.
  Proof.
    intros sty s ps H. induction H as [| p r Hp Hr [IH1 IH2]]; [split; constructor |].
    split.
    - cbn [map]. rewrite IH1. f_equal. destruct p as [l | k w |]; [reflexivity | | destruct Hp].
      destruct Hp as (Hc & Hin & Hb & Hm & Hq). cbn [part_text doc_text].
      rewrite builtin_render by exact Hc. cbn [fst].
      rewrite table_correct by assumption. reflexivity.
    - constructor; [| exact IH2]. destruct p as [l | k w |]; [exact I | | destruct Hp].
      destruct Hp as (Hc & Hin & Hb & Hm & Hq). cbn [part_narrow].
      rewrite builtin_render by exact Hc. cbn [snd]. apply narrow_keys; assumption.
  Qed.

  (** Every frame drawn by any call of any history shows, for every documented placeholder of
      the template, the documented getter o formatter of the state the call leaves behind,
      read at the instant of the call. *)
  Lemma frame_documented : forall (b : bstate T) o e lines,
    snd (bstep TO F tw b (o, e)) = Some lines ->
    let b' := fst (bstep TO F tw b (o, e)) in
    b_status b' <> DoneHidden ->
    Forall (doc_part (b_style b')) (template (b_style b')) ->
    lines = match concat (map (doc_text (b_style b') (snapshot_of b' (e_obs e)))
                              (template (b_style b'))) with
            | [] => []
            | line => split_nl line []
            end.
  Proof.
    intros b o e lines Hd b' Hs Hp.
    rewrite (frame_is_post_state TO F tw b o e lines Hd). fold b'.
    unfold draw. destruct (b_status b') eqn:Es; try congruence;
      (destruct (doc_parts_text (b_style b') (snapshot_of b' (e_obs e)) _ Hp) as [H1 H2];
       rewrite format_state_concat by exact H2; rewrite H1; reflexivity).
  Qed.

  (** after finish_and_clear nothing is rendered *)
  Lemma hidden_draws_nothing : forall (b : bstate T) e,
    b_status b = DoneHidden -> draw TO F tw b e = [].
  Proof. intros b e H. unfold draw. rewrite H. reflexivity. Qed.

  (** the two wide keys alone in a template *)
  Lemma wide_msg_alone : forall (sty : style T) s,
    lookup "wide_msg" (customs sty) = None ->
    template sty = [PKey "wide_msg" None] ->
    format_state TO F sty s tw = split_nl (trim_end (pad_left_trunc (s_message s) tw)) [].
  Proof.
    intros sty s Hc Ht.
    rewrite format_state_single_line by (rewrite Ht; repeat constructor; discriminate).
    unfold format_state_single. rewrite Ht. cbn [render_parts].
    rewrite builtin_render by exact Hc. unfold key_value. eval_key.
    cbn [builtin_value fst snd app expand_wide rev replace0 flat_map N.eqb text_width fold_right
         char_width].
    rewrite app_nil_r, N.sub_0_r. reflexivity.
  Qed.

  Lemma wide_bar_alone : forall (sty : style T) s,
    lookup "wide_bar" (customs sty) = None ->
    template sty = [PKey "wide_bar" None] ->
    format_state TO F sty s tw = split_nl (f_bar F (o_fraction (s_obs s)) tw) [].
  Proof.
    intros sty s Hc Ht.
    rewrite format_state_single_line by (rewrite Ht; repeat constructor; discriminate).
    unfold format_state_single. rewrite Ht. cbn [render_parts].
    rewrite builtin_render by exact Hc. unfold key_value. eval_key.
    cbn [builtin_value fst snd app expand_wide rev replace0 flat_map N.eqb text_width fold_right
         char_width].
    rewrite app_nil_r, N.sub_0_r. reflexivity.
  Qed.

  (** ---------------------------------------------------------------- multi-line templates *)
  Local Open Scope list_scope.
  Lemma replace0_no_nul : forall (by_ t : text), ~ In 0 t -> replace0 by_ t = t.
  Proof.
    intros by_ t. unfold replace0. induction t as [| c r IH]; intros Hn; [reflexivity |].
    cbn [flat_map]. destruct (N.eqb_spec c 0) as [-> | Hc].
    - exfalso. apply Hn. left. reflexivity.
    - rewrite IH by (intros H; apply Hn; right; exact H). reflexivity.
  Qed.

  Lemma replace0_app : forall (by_ a b : text),
    replace0 by_ (a ++ b) = (replace0 by_ a ++ replace0 by_ b)%list.
  Proof. intros. unfold replace0. apply flat_map_app. Qed.

  (** the marker of the wide element between two texts without NUL *)
  Lemma replace0_marker : forall (by_ a b : text),
    ~ In 0 a -> ~ In 0 b -> replace0 by_ (a ++ 0 :: b) = (a ++ by_ ++ b)%list.
  Proof.
    intros by_ a b Ha Hb. rewrite replace0_app. rewrite (replace0_no_nul by_ a Ha).
    change (0 :: b) with ([0] ++ b)%list. rewrite replace0_app, (replace0_no_nul by_ b Hb).
    unfold replace0. cbn [flat_map N.eqb]. rewrite app_nil_r. reflexivity.
  Qed.

  (** a wide element carried over from an earlier line does nothing to a text without NUL *)
  Lemma expand_wide_no_nul : forall w cur s, ~ In 0 cur -> expand_wide F w cur s tw = cur.
  Proof.
    intros [|] cur s Hn; unfold expand_wide; cbv zeta; apply replace0_no_nul; exact Hn.
  Qed.

  Lemma split_nl_nonnil : forall t cur, split_nl t cur <> [].
  Proof.
    induction t as [| c r IH]; intros cur; cbn [split_nl]; [discriminate |].
    destruct (N.eqb c 10); [discriminate | apply IH].
  Qed.

  Lemma push_line_nil : forall w s, push_line F w [] s tw = [[]].
  Proof. intros [[|] |] s; reflexivity. Qed.

  Lemma push_line_nonnil : forall w c s, push_line F w c s tw <> [].
  Proof. intros. unfold push_line. apply split_nl_nonnil. Qed.

  Lemma render_parts_with_template : forall (sty : style T) ps' s ps cur wd,
    render_parts TO F (with_template sty ps') s ps cur wd = render_parts TO F sty s ps cur wd.
  Proof.
    intros sty ps' s ps. induction ps as [| p r IH]; intros cur wd; [reflexivity |].
    destruct p as [l | k w |]; cbn [render_parts]; [apply IH | | reflexivity].
    change (render_key TO F (with_template sty ps') s k w) with (render_key TO F sty s k w).
    destruct (render_key TO F sty s k w) as [out wd']. apply IH.
  Qed.

  (** one template line rendered as a (single-line) template of its own *)

  Lemma line_alone_eq : forall (sty : style T) s seg,
    single_line seg ->
    line_alone sty s seg
    = match fst (render_parts TO F sty s seg [] None) with
      | [] => []
      | c => push_line F (snd (render_parts TO F sty s seg [] None)) c s tw
      end.
  Proof.
    intros sty s seg Hs. unfold line_alone.
    rewrite format_state_single_line by exact Hs.
    unfold format_state_single. cbn [with_template template]. rewrite render_parts_with_template.
    destruct (render_parts TO F sty s seg [] None) as [c w]. cbn [fst snd].
    destruct c; reflexivity.
  Qed.

  (** the only way a line can see an earlier line: the wide element is never reset, and
      WideElement::expand replaces EVERY NUL of the line.  A line that has no wide key of its own
      is [line_ok] when its text contains no NUL (then the carried element finds nothing to
      replace); a line with a wide key of its own is always [line_ok]. *)

  Lemma push_line_carried : forall sty s seg wd,
    line_ok sty s seg ->
    push_line F (merge_wide (snd (render_parts TO F sty s seg [] None)) wd)
              (fst (render_parts TO F sty s seg [] None)) s tw
    = push_line F (snd (render_parts TO F sty s seg [] None))
                (fst (render_parts TO F sty s seg [] None)) s tw.
  Proof.
    intros sty s seg wd Hok. unfold line_ok in Hok.
    destruct (snd (render_parts TO F sty s seg [] None)) as [w0 |]; [reflexivity |].
    cbn [merge_wide]. destruct wd as [w |]; [| reflexivity].
    unfold push_line. rewrite expand_wide_no_nul by (apply Hok; reflexivity). reflexivity.
  Qed.

  Lemma format_segs_lines : forall (sty : style T) s segs wd,
    Forall single_line segs ->
    Forall (line_ok sty s) segs ->
    format_segs TO F sty s tw segs [] wd = join_lines (map (line_alone sty s) segs).
  Proof.
    intros sty s segs. induction segs as [| seg rest IH]; intros wd Hs Hok; [reflexivity |].
    inversion Hs as [| ? ? Hs1 Hsr]; subst. inversion Hok as [| ? ? Hok1 Hokr]; subst.
    rewrite format_segs_step. rewrite render_parts_wide_in. cbn [fst snd].
    pose proof (push_line_carried sty s seg wd Hok1) as Hc.
    cbn [map join_lines]. rewrite (line_alone_eq sty s seg Hs1).
    destruct rest as [| seg2 rest].
    - cbn [map]. destruct (fst (render_parts TO F sty s seg [] None)) as [| c0 cr] eqn:E;
        [reflexivity | exact Hc].
    - rewrite Hc. rewrite IH by assumption. cbn [map].
      destruct (fst (render_parts TO F sty s seg [] None)) as [| c0 cr].
      + rewrite push_line_nil. reflexivity.
      + pose proof (push_line_nonnil (snd (render_parts TO F sty s seg [] None)) (c0 :: cr) s) as Hn.
        destruct (push_line F (snd (render_parts TO F sty s seg [] None)) (c0 :: cr) s tw);
          [congruence | reflexivity].
  Qed.

  (** THE multi-line theorem: the frame of any template is the frame-wise concatenation of its
      lines, each rendered as a single-line template of its own from the same snapshot (an empty
      line that is followed by a NewLine is one empty row, the text after the last NewLine no row
      if it is empty).  Nothing flows from one line into the next. *)
  Lemma format_state_lines : forall (sty : style T) s,
    Forall (line_ok sty s) (split_lines (template sty)) ->
    format_state TO F sty s tw
    = join_lines (map (line_alone sty s) (split_lines (template sty))).
  Proof.
    intros sty s Hok. rewrite format_state_segs.
    apply format_segs_lines; [apply split_lines_single | exact Hok].
  Qed.

  (** lines made of narrow parts only: no hypothesis on NUL is needed (no wide element at all) *)
  Lemma format_segs_narrow : forall (sty : style T) s segs,
    Forall (Forall (part_narrow TO F sty s)) segs ->
    format_segs TO F sty s tw segs [] None
    = join_lines (map (fun seg => match concat (map (part_text TO F sty s) seg) with
                                  | [] => []
                                  | line => split_nl line []
                                  end) segs).
  Proof.
    intros sty s segs. induction segs as [| seg rest IH]; intros Hn; [reflexivity |].
    inversion Hn as [| ? ? Hn1 Hnr]; subst.
    rewrite format_segs_step. rewrite render_parts_concat by exact Hn1. cbn [fst snd app].
    cbn [map join_lines]. destruct rest as [| seg2 rest].
    - cbn [map]. destruct (concat (map (part_text TO F sty s) seg)); reflexivity.
    - rewrite IH by exact Hnr. cbn [map].
      destruct (concat (map (part_text TO F sty s) seg)) as [| c0 cr] eqn:E.
      + reflexivity.
      + unfold push_line. pose proof (split_nl_nonnil (c0 :: cr) []) as Hnn.
        destruct (split_nl (c0 :: cr) []); [congruence | reflexivity].
  Qed.

  Lemma split_lines_Forall : forall (P : part -> Prop) ps,
    Forall (fun p => p = PNewLine \/ P p) ps -> Forall (Forall P) (split_lines ps).
  Proof.
    intros P ps. induction ps as [| p r IH]; intros H.
    - constructor; constructor.
    - inversion H as [| ? ? Hp Hr]; subst. specialize (IH Hr).
      destruct (is_newline p) eqn:E.
      + destruct p; try discriminate. cbn [split_lines]. constructor; [constructor | exact IH].
      + assert (Hne : p <> PNewLine) by (intros ->; discriminate).
        destruct Hp as [-> | Hp]; [congruence |].
        rewrite split_lines_cons by exact Hne. pose proof (split_lines_nonnil r) as Hn.
        destruct (split_lines r) as [| l ls]; [congruence |].
        inversion IH as [| ? ? Hl Hls]; subst. cbn [hd tl].
        constructor; [constructor; assumption | exact Hls].
  Qed.

  (** a part of a multi-line template whose value the documentation defines *)

  (** THE property for multi-line templates of literals and documented, non-wide, non-shadowed
      keys: every template line of every frame shows the documented values of the state the call
      leaves behind, all lines from that one state and the clock readings of that one call *)
  Lemma frame_documented_lines : forall (b : bstate T) o e lines,
    snd (bstep TO F tw b (o, e)) = Some lines ->
    let b' := fst (bstep TO F tw b (o, e)) in
    b_status b' <> DoneHidden ->
    Forall (doc_part_ml (b_style b')) (template (b_style b')) ->
    lines = join_lines (map (doc_line (b_style b') (snapshot_of b' (e_obs e)))
                            (split_lines (template (b_style b')))).
  Proof.
    intros b o e lines Hd b' Hs Hp.
    rewrite (frame_is_post_state TO F tw b o e lines Hd). fold b'.
    assert (Hsegs : Forall (Forall (doc_part (b_style b'))) (split_lines (template (b_style b')))).
    { apply split_lines_Forall. eapply Forall_impl; [| exact Hp].
      intros p Hq. destruct p; [right; exact Hq | right; exact Hq | left; reflexivity]. }
    assert (Hgoal : format_state TO F (b_style b') (snapshot_of b' (e_obs e)) tw
                    = join_lines (map (doc_line (b_style b') (snapshot_of b' (e_obs e)))
                                      (split_lines (template (b_style b'))))).
    { rewrite format_state_segs. rewrite format_segs_narrow.
      - f_equal. apply map_ext_in. intros seg Hin. rewrite Forall_forall in Hsegs.
        destruct (doc_parts_text (b_style b') (snapshot_of b' (e_obs e)) seg (Hsegs seg Hin))
          as [H1 _].
        unfold doc_line. rewrite H1. reflexivity.
      - eapply Forall_impl; [| exact Hsegs]. intros seg Hseg.
        apply (doc_parts_text (b_style b') (snapshot_of b' (e_obs e)) seg Hseg). }
    unfold draw. destruct (b_status b') eqn:Es; try congruence; exact Hgoal.
  Qed.

  (** ---------------------------------------------------------------- a wide key inside a line *)
  Lemma wide_trim : forall (X Y : text) (a b : text),
    ~ In 0 b ->
    match rev (a ++ 0 :: b) with 0 :: _ => X | _ => Y end = match b with [] => X | _ => Y end.
  Proof.
    intros X Y a b Hb. rewrite rev_app_distr. destruct b as [| c b'].
    - reflexivity.
    - change (rev (0 :: c :: b')) with (rev (c :: b') ++ [0])%list.
      destruct (rev (c :: b')) as [| x l] eqn:E.
      + apply (f_equal (@List.length N)) in E. rewrite rev_length in E. discriminate E.
      + assert (Hx : In x (c :: b')) by (apply in_rev; rewrite E; left; reflexivity).
        cbn [app]. destruct x as [| px]; [exfalso; apply Hb; exact Hx | reflexivity].
  Qed.

  Lemma wide_line_parts : forall (sty : style T) s pre post k wdk cur0,
    render_key TO F sty s k None = ([0], Some wdk) ->
    Forall (part_narrow TO F sty s) pre ->
    Forall (part_narrow TO F sty s) post ->
    render_parts TO F sty s (pre ++ PKey k None :: post) cur0 None
    = (cur0 ++ concat (map (part_text TO F sty s) pre) ++ 0 :: concat (map (part_text TO F sty s) post),
       Some wdk).
  Proof.
    intros sty s pre post k wdk cur0 Hk Hpre Hpost.
    rewrite render_parts_app_narrow by exact Hpre. cbn [render_parts]. rewrite Hk.
    rewrite render_parts_narrow by exact Hpost. rewrite <- !app_assoc. reflexivity.
  Qed.

  Lemma wide_key_single_line : forall (sty : style T) s pre post k,
    Forall (part_narrow TO F sty s) pre ->
    Forall (part_narrow TO F sty s) post ->
    single_line (pre ++ PKey k None :: post).
  Proof.
    intros sty s pre post k Hpre Hpost. unfold single_line. apply Forall_app. split.
    - eapply narrow_single_line; exact Hpre.
    - constructor; [discriminate | eapply narrow_single_line; exact Hpost].
  Qed.

  (** {wide_msg} anywhere in a line: the message, truncated or padded to exactly the columns the
      rest of the line leaves free, sits where the placeholder is; trailing blanks are trimmed
      when nothing follows it *)
  Lemma wide_msg_line : forall (sty : style T) s pre post,
    lookup "wide_msg" (customs sty) = None ->
    template sty = (pre ++ PKey "wide_msg" None :: post)%list ->
    Forall (part_narrow TO F sty s) pre ->
    Forall (part_narrow TO F sty s) post ->
    let a := concat (map (part_text TO F sty s) pre) in
    let b := concat (map (part_text TO F sty s) post) in
    ~ In 0 a -> ~ In 0 b ->
    let m := pad_left_trunc (s_message s) (tw - text_width (a ++ b)) in
    format_state TO F sty s tw
    = split_nl (a ++ (match b with [] => trim_end m | _ => m end) ++ b) [].
  Proof.
    intros sty s pre post Hc Ht Hpre Hpost a b Ha Hb m.
    rewrite format_state_single_line
      by (rewrite Ht; eapply wide_key_single_line; eassumption).
    unfold format_state_single. rewrite Ht.
    rewrite (wide_line_parts sty s pre post "wide_msg" WMsg []);
      [| rewrite builtin_render by exact Hc; reflexivity | exact Hpre | exact Hpost ].
    cbn [app]. fold a b.
    assert (Hne : (a ++ 0 :: b)%list <> []) by (destruct a; discriminate).
    destruct (a ++ 0 :: b)%list as [| c0 cr] eqn:E; [congruence |]. rewrite <- E. clear Hne.
    unfold expand_wide. cbv zeta.
    rewrite (replace0_marker [] a b Ha Hb). cbn [app].
    rewrite wide_trim by exact Hb. rewrite replace0_marker by assumption. reflexivity.
  Qed.

  (** {wide_bar} anywhere in a line: a bar of exactly the columns the rest of the line leaves free *)
  Lemma wide_bar_line : forall (sty : style T) s pre post,
    lookup "wide_bar" (customs sty) = None ->
    template sty = (pre ++ PKey "wide_bar" None :: post)%list ->
    Forall (part_narrow TO F sty s) pre ->
    Forall (part_narrow TO F sty s) post ->
    let a := concat (map (part_text TO F sty s) pre) in
    let b := concat (map (part_text TO F sty s) post) in
    ~ In 0 a -> ~ In 0 b ->
    format_state TO F sty s tw
    = split_nl (a ++ f_bar F (o_fraction (s_obs s)) (tw - text_width (a ++ b)) ++ b) [].
  Proof.
    intros sty s pre post Hc Ht Hpre Hpost a b Ha Hb.
    rewrite format_state_single_line
      by (rewrite Ht; eapply wide_key_single_line; eassumption).
    unfold format_state_single. rewrite Ht.
    rewrite (wide_line_parts sty s pre post "wide_bar" WBar []);
      [| rewrite builtin_render by exact Hc; reflexivity | exact Hpre | exact Hpost ].
    cbn [app]. fold a b.
    assert (Hne : (a ++ 0 :: b)%list <> []) by (destruct a; discriminate).
    destruct (a ++ 0 :: b)%list as [| c0 cr] eqn:E; [congruence |]. rewrite <- E. clear Hne.
    unfold expand_wide. cbv zeta.
    rewrite (replace0_marker [] a b Ha Hb). cbn [app].
    rewrite replace0_marker by assumption. reflexivity.
  Qed.
End Frames.
Close Scope string_scope.

(** ------------------------------------------------------------------ the one cross-line effect *)
(** [wide] is never reset by format_state and WideElement::expand replaces every NUL of the line
    it is applied to: after a {wide_msg} line, a NUL inside the TEXT of a later line (here: in the
    prefix) is replaced by the padded message.  This is why [format_state_lines] asks for
    [line_ok]; the harness replays this witness on the implementation (corpus:nul-carry). *)
Open Scope string_scope.
Definition carry_style : style htracker :=
  {| tick_strings := [[97]; [98]]; sty_tab := 8; customs := [];
     template := [PKey "wide_msg" None; PNewLine; PKey "prefix" None] |}.
Definition carry_snapshot : snapshot :=
  {| s_pos := 0; s_len := None; s_tick := 0; s_finished := false;
     s_message := [109]; s_prefix := [97; 0; 98];
     s_obs := {| o_fraction := 0; o_elapsed := 0; o_eta := 0; o_duration := 0; o_per_sec := 0 |} |}.
Close Scope string_scope.

Lemma wide_carry_witness :
  format_state htracker_ops (table_formatters []) carry_style carry_snapshot 8
  = [[109]; [97; 109; 32; 32; 32; 32; 32; 98]]
  /\ join_lines (map (line_alone htracker_ops (table_formatters []) 8 carry_style carry_snapshot)
                     (split_lines (template carry_style)))
     = [[109]; [97; 0; 98]].
Proof. split; vm_compute; reflexivity. Qed.

Lemma wide_carry_exists :
  exists (sty : style htracker) (s : snapshot) (tw : N),
    format_state htracker_ops (table_formatters []) sty s tw
    <> join_lines (map (line_alone htracker_ops (table_formatters []) tw sty s)
                       (split_lines (template sty))).
Proof.
  exists carry_style, carry_snapshot, 8. destruct wide_carry_witness as [H1 H2].
  rewrite H1, H2. discriminate.
Qed.
