(** C11 - proofs about model/Keys.v *)
From IndModel Require Import Base Keys Pos.
From IndGen Require Import Constants.
From Coq Require Import String List NArith Bool Lia ZifyBool ZifyNat ZifyN.
Import ListNotations.
Open Scope N_scope.
Ltac Zify.zify_post_hook ::= Z.div_mod_to_equations.
Arguments N.add : simpl never.
Arguments N.sub : simpl never.
Arguments N.mul : simpl never.
Arguments N.div : simpl never.
Arguments N.modulo : simpl never.

(** ------------------------------------------------------------------ finite key sets *)
Definition mem (k : string) (l : list string) : bool := existsb (String.eqb k) l.

Lemma mem_In : forall k l, mem k l = true <-> In k l.
Proof.
  intros k l. unfold mem. rewrite existsb_exists. split.
  - intros [x [Hin Heq]]. apply String.eqb_eq in Heq. subst x. exact Hin.
  - intros Hin. exists k. split; [exact Hin | apply String.eqb_refl].
Qed.

Definition is_some {A} (o : option A) : bool := match o with Some _ => true | None => false end.

(** the hand-written chain [key_id] recognises exactly the string literals of the match arms
    of format_state, as regenerated from src/style.rs into FORMAT_KEYS *)
Lemma key_id_some_in : forall k b, key_id k = Some b -> In k FORMAT_KEYS.
Proof.
  intros k b. unfold key_id.
  repeat match goal with
         | |- context [String.eqb k ?s] =>
             destruct (String.eqb_spec k s) as [-> | _];
             [ intros _; apply mem_In; vm_compute; reflexivity | ]
         end.
  discriminate.
Qed.

Lemma key_id_all_implemented :
  forallb (fun k => is_some (key_id k)) FORMAT_KEYS = true.
Proof. vm_compute. reflexivity. Qed.

Lemma key_id_implemented : forall k, key_id k <> None <-> In k FORMAT_KEYS.
Proof.
  intros k. split.
  - destruct (key_id k) as [b |] eqn:E; [intros _; eapply key_id_some_in; eauto | congruence].
  - intros Hin. pose proof key_id_all_implemented as H.
    rewrite forallb_forall in H. specialize (H k Hin).
    destruct (key_id k); [discriminate | discriminate H].
Qed.

(** key_id is injective on names: two different arms are never reached by the same key, and
    every arm is reached by exactly the name of that arm *)
Lemma key_id_distinct : NoDup FORMAT_KEYS.
Proof.
  unfold FORMAT_KEYS.
  repeat (constructor; [ rewrite <- mem_In; vm_compute; discriminate | ]).
  constructor.
Qed.

Lemma doc_table_keys : map fst doc_table = DOCUMENTED_KEYS.
Proof. reflexivity. Qed.

Lemma documented_subset :
  forallb (fun k => mem k FORMAT_KEYS) DOCUMENTED_KEYS = true
  /\ forallb (fun k => mem k DOCUMENTED_KEYS) FORMAT_KEYS = true.
Proof. split; vm_compute; reflexivity. Qed.

Lemma documented_iff_implemented : forall k, In k DOCUMENTED_KEYS <-> In k FORMAT_KEYS.
Proof.
  intros k. destruct documented_subset as [H1 H2].
  rewrite forallb_forall in H1, H2. split; intros Hin.
  - apply mem_In. apply H1. exact Hin.
  - apply mem_In. apply H2. exact Hin.
Qed.

Lemma documented_nodup : NoDup DOCUMENTED_KEYS.
Proof.
  unfold DOCUMENTED_KEYS.
  repeat (constructor; [ rewrite <- mem_In; vm_compute; discriminate | ]).
  constructor.
Qed.

(** ------------------------------------------------------------------ the table *)
Lemma nth_last : forall (A : Type) (l : list A) (d : A), nth (List.length l - 1) l d = last l d.
Proof.
  intros A l d. induction l as [| x r IH]; [reflexivity |].
  destruct r as [| y r']; [reflexivity |].
  cbn [List.length] in *. rewrite Nat.sub_succ, Nat.sub_0_r in *.
  change (last (x :: y :: r') d) with (last (y :: r') d). rewrite <- IH. reflexivity.
Qed.

Ltac eval_key :=
  repeat match goal with
         | |- context [key_id ?k] =>
             let x := eval vm_compute in (key_id k) in change (key_id k) with x
         | |- context [lookup ?k doc_table] =>
             let x := eval vm_compute in (lookup k doc_table) in change (lookup k doc_table) with x
         end.

Open Scope string_scope.

(** For every documented key and EVERY snapshot (every position/length pair, tick count,
    message, clock reading) the code's arm computes getter o formatter as documented. *)
Lemma table_correct : forall (F : formatters) (ticks : list text) (s : snapshot) (k : string)
                             (w : option N),
  In k DOCUMENTED_KEYS ->
  (k = "per_sec" -> w = None) ->
  key_value F ticks s k w = documented F ticks s k w.
Proof.
  intros F ticks s k w Hin Hq. unfold DOCUMENTED_KEYS in Hin. cbn [In] in Hin.
  unfold key_value, documented.
  repeat (destruct Hin as [<- | Hin];
          [ eval_key;
            cbv [builtin_value doc_value get_u64 get_dur fmt_u64 current_tick_str
                 get_tick_str get_final_tick_str];
            try (rewrite (Hq eq_refl)); try rewrite nth_last; try reflexivity | ]).
  contradiction.
Qed.

(** the one undocumented behaviour of the dispatch: a width on per_sec is also the precision *)
Lemma per_sec_width : forall F ticks s w,
  key_value F ticks s "per_sec" (Some w)
  = ((f_hfloat F (Some w) (o_per_sec (s_obs s)) ++ per_s)%list, None).
Proof. intros. reflexivity. Qed.

Lemma unknown_key_empty : forall F ticks s k w,
  ~ In k FORMAT_KEYS -> key_value F ticks s k w = ([], None).
Proof.
  intros F ticks s k w Hn. unfold key_value.
  destruct (key_id k) as [b |] eqn:E; [| reflexivity].
  exfalso. apply Hn. eapply key_id_some_in; eauto.
Qed.

(** ------------------------------------------------------------------ missing length *)
Definition with_s_len (s : snapshot) (l : option N) : snapshot :=
  {| s_pos := s_pos s; s_len := l; s_tick := s_tick s; s_finished := s_finished s;
     s_message := s_message s; s_prefix := s_prefix s; s_obs := s_obs s |}.

Lemma missing_len_all_keys : forall F ticks s k w,
  s_len s = None ->
  key_value F ticks s k w = key_value F ticks (with_s_len s (Some (s_pos s))) k w.
Proof.
  intros F ticks s k w Hl. unfold key_value. destruct (key_id k) as [b |]; [| reflexivity].
  destruct b; cbv [builtin_value with_s_len s_len s_pos s_obs current_tick_str s_finished s_tick
                   s_message s_prefix]; destruct s; cbn in Hl; subst; reflexivity.
Qed.

Lemma missing_len_values : forall F ticks s w,
  s_len s = None ->
  key_value F ticks s "len" w = (dec_text (s_pos s), None)
  /\ key_value F ticks s "human_len" w = (f_count F (s_pos s), None)
  /\ key_value F ticks s "total_bytes" w = (f_hbytes F (s_pos s), None)
  /\ key_value F ticks s "decimal_total_bytes" w = (f_dbytes F (s_pos s), None)
  /\ key_value F ticks s "binary_total_bytes" w = (f_bbytes F (s_pos s), None).
Proof.
  intros F ticks s w Hl. unfold key_value. eval_key. cbv [builtin_value]. rewrite Hl.
  repeat split; reflexivity.
Qed.

(** ------------------------------------------------------------------ spinner *)
Lemma spinner_value : forall F ticks s w,
  (2 <= List.length ticks)%nat ->
  let n := N.of_nat (List.length ticks) in
  fst (key_value F ticks s "spinner" w) =
    (if s_finished s then last ticks []
     else nth (N.to_nat (s_tick s mod (n - 1))) ticks [])
  /\ (s_tick s mod (n - 1) < n - 1).
Proof.
  intros F ticks s w Hn n. unfold key_value. eval_key.
  cbv [builtin_value current_tick_str get_tick_str get_final_tick_str fst].
  rewrite nth_last. split; [reflexivity |].
  apply N.mod_lt. subst n. lia.
Qed.

(** before the finish the final tick string (index n-1) is never selected, and the cycle has
    period n-1 *)
Lemma spinner_period : forall F ticks s s' w,
  (2 <= List.length ticks)%nat ->
  s_finished s = false -> s_finished s' = false ->
  s_tick s' = s_tick s + (N.of_nat (List.length ticks) - 1) ->
  fst (key_value F ticks s' "spinner" w) = fst (key_value F ticks s "spinner" w).
Proof.
  intros F ticks s s' w Hn Hf Hf' Ht. unfold key_value. eval_key.
  cbv [builtin_value current_tick_str get_tick_str fst]. rewrite Hf, Hf', Ht.
  set (m := N.of_nat (List.length ticks) - 1).
  assert (Hm : m <> 0) by (subst m; lia).
  replace (s_tick s + m) with (s_tick s + 1 * m) by lia.
  rewrite N.mod_add by exact Hm. reflexivity.
Qed.
Close Scope string_scope.

(** ------------------------------------------------------------------ custom keys, lines *)
Section Custom.
  Context {T : Type}.
  Variable TO : tracker_ops T.
  Variable F : formatters.

  (** a custom key shadows a built-in key of the same name; what it writes is computed from the
      state of the draw (view_of s) and passed through the tab rewriter *)
  Lemma custom_write : forall (sty : style T) s k w tr,
    lookup k (customs sty) = Some tr ->
    render_key TO F sty s k w =
      (let buf := expand_tabs (sty_tab sty) (t_write TO tr (view_of s)) in
       match w with Some w => pad_left buf w | None => buf end, None).
  Proof. intros sty s k w tr H. unfold render_key. rewrite H. reflexivity. Qed.

  Lemma builtin_render : forall (sty : style T) s k w,
    lookup k (customs sty) = None ->
    render_key TO F sty s k w =
      (let buf := fst (key_value F (tick_strings sty) s k w) in
       match w with Some w => pad_left buf w | None => buf end,
       snd (key_value F (tick_strings sty) s k w)).
  Proof.
    intros sty s k w H. unfold render_key. rewrite H.
    destruct (key_value F (tick_strings sty) s k w). reflexivity.
  Qed.

  Definition part_text (sty : style T) (s : snapshot) (p : part) : text :=
    match p with
    | PLit l => l
    | PKey k w => fst (render_key TO F sty s k w)
    end.
  Definition part_narrow (sty : style T) (s : snapshot) (p : part) : Prop :=
    match p with
    | PLit _ => True
    | PKey k w => snd (render_key TO F sty s k w) = None
    end.

  Lemma render_parts_concat : forall sty s ps cur,
    Forall (part_narrow sty s) ps ->
    render_parts TO F sty s ps cur None = (cur ++ concat (map (part_text sty s) ps), None).
  Proof.
    intros sty s ps. induction ps as [| p r IH]; intros cur Hn.
    - cbn. rewrite app_nil_r. reflexivity.
    - inversion Hn as [| ? ? Hp Hr]; subst. destruct p as [l | k w].
      + cbn [render_parts map concat part_text]. rewrite IH by exact Hr.
        rewrite app_assoc. reflexivity.
      + cbn [render_parts map concat part_text]. cbn [part_narrow] in Hp.
        destruct (render_key TO F sty s k w) as [out wd'] eqn:E. cbn [snd] in Hp. subst wd'.
        cbn [fst]. rewrite IH by exact Hr. rewrite app_assoc. reflexivity.
  Qed.

  (** without a wide element the line is the concatenation of the parts, split at newlines; an
      empty line is not drawn *)
  Lemma format_state_concat : forall sty s tw,
    Forall (part_narrow sty s) (template sty) ->
    format_state TO F sty s tw =
      match concat (map (part_text sty s) (template sty)) with
      | [] => []
      | line => split_nl line []
      end.
  Proof.
    intros sty s tw Hn. unfold format_state. rewrite render_parts_concat by exact Hn.
    cbn [app]. destruct (concat (map (part_text sty s) (template sty))); reflexivity.
  Qed.
End Custom.

Lemma split_nl_none : forall t cur, ~ In 10 t -> split_nl t cur = [rev cur ++ t].
Proof.
  induction t as [| c r IH]; intros cur Hn.
  - cbn. rewrite app_nil_r. reflexivity.
  - cbn [split_nl]. destruct (N.eqb_spec c 10) as [-> | Hc].
    + exfalso. apply Hn. left. reflexivity.
    + rewrite IH by (intros H; apply Hn; right; exact H).
      cbn [rev]. rewrite <- app_assoc. reflexivity.
Qed.

(** ------------------------------------------------------------------ histories *)
Section History.
  Context {T : Type}.
  Variable TO : tracker_ops T.
  Variable F : formatters.
  Variable tw : N.

  Notation bstep := (bstep TO F tw).
  Notation brun := (brun TO F tw).
  Notation draw := (draw TO F tw).

  (** Whenever a call draws, the frame is the rendering of the state the call leaves behind -
      the state every getter returns right after the call - at the instant of the call. *)
  Lemma frame_is_post_state : forall (b : bstate T) o e lines,
    snd (bstep b (o, e)) = Some lines -> lines = draw (fst (bstep b (o, e))) e.
  Proof.
    intros b o e lines. destruct o; cbn [bstep Keys.bstep];
      unfold pos_update, bar_tick, finish, update_estimate_and_draw;
      try destruct (e_allowed e); cbn [fst snd]; intros H; inversion H; reflexivity.
  Qed.

  (** which calls draw at all *)
  Definition op_draws (o : bop) (allowed : bool) : bool :=
    match o with
    | OInc _ | ODec _ | OSetPos _ => allowed
    | OResetEta | OResetElapsed => false
    | _ => true
    end.
  Lemma draws_iff : forall (b : bstate T) o e,
    is_some (snd (bstep b (o, e))) = op_draws o (e_allowed e).
  Proof.
    intros b o e. destruct o; cbn [bstep Keys.bstep op_draws];
      unfold pos_update, bar_tick, finish, update_estimate_and_draw;
      try destruct (e_allowed e); reflexivity.
  Qed.

  (** the discrete state without the trackers *)
  Definition core (b : bstate T) : N * option N * N * status * text * text * N :=
    (b_pos b, b_len b, b_tick b, b_status b, b_message b, b_prefix b, b_tab b).

  Definition apply_event (t : T) (ev : bar_event * view * N) : T :=
    match ev with
    | (BTick, v, now) => t_tick TO t v now
    | (BReset, v, now) => t_reset TO t v now
    | (BNone, _, _) => t
    end.

  (** the tick / reset events of the bar: the class of the call ([op_event], written from the
      documentation) with the state right after the call's own update and the call's instant *)
  Definition step_events (b : bstate T) (oe : bop * env) : list (bar_event * view * N) :=
    match op_event (fst oe) (e_allowed (snd oe)) with
    | BNone => []
    | ev => [(ev, bview (fst (bstep b oe)), e_now (snd oe))]
    end.

  Fixpoint bar_events (b : bstate T) (ops : list (bop * env)) : list (bar_event * view * N) :=
    match ops with
    | [] => []
    | oe :: r => step_events b oe ++ bar_events (fst (bstep b oe)) r
    end.

  Definition on_trackers (f : T -> T) (l : list (string * T)) : list (string * T) :=
    map (fun kt => (fst kt, f (snd kt))) l.

  Lemma on_trackers_id : forall l, on_trackers (fun t => t) l = l.
  Proof.
    induction l as [| [k t] r IH]; [reflexivity |].
    unfold on_trackers in *. cbn [map fst snd]. rewrite IH. reflexivity.
  Qed.

  Lemma on_trackers_comp : forall f g l, on_trackers g (on_trackers f l) = on_trackers (fun t => g (f t)) l.
  Proof. intros f g l. unfold on_trackers. rewrite map_map. reflexivity. Qed.

  Lemma step_trackers : forall (b : bstate T) oe,
    customs (b_style (fst (bstep b oe)))
    = on_trackers (fun t => fold_left apply_event (step_events b oe) t) (customs (b_style b))
    /\ tick_strings (b_style (fst (bstep b oe))) = tick_strings (b_style b)
    /\ template (b_style (fst (bstep b oe))) = template (b_style b).
  Proof.
    intros b [o e]. unfold step_events. cbn [fst snd].
    destruct o; cbn [op_event];
      try (destruct (e_allowed e) eqn:Ea);
      cbn [bstep Keys.bstep]; unfold pos_update, bar_tick, finish, update_estimate_and_draw;
      try rewrite Ea; cbn [fst snd fold_left apply_event];
      try (destruct f); try (destruct p); try (destruct l);
      cbn [map_trackers b_style customs tick_strings template with_tick with_pos with_len
           with_status with_message with_prefix with_tab bview b_pos b_len b_status];
      try (destruct (b_len b));
      cbn [map_trackers b_style customs tick_strings template with_tick with_pos with_len
           with_status with_message with_prefix with_tab bview b_pos b_len b_status];
      (split; [ try reflexivity; try (symmetry; apply on_trackers_id) | split; reflexivity ]).
  Qed.

  (** Every tracker has received exactly the tick / reset events of the bar, in order, each with
      the state of that moment, and nothing else - for every history. *)
  Lemma trackers_follow_bar : forall ops (b : bstate T),
    customs (b_style (fst (brun b ops)))
    = on_trackers (fun t => fold_left apply_event (bar_events b ops) t) (customs (b_style b)).
  Proof.
    induction ops as [| oe r IH]; intros b.
    - cbn. symmetry. apply on_trackers_id.
    - cbn [brun Keys.brun bar_events].
      destruct (bstep b oe) as [b1 fr] eqn:E1.
      destruct (Keys.brun TO F tw b1 r) as [b2 frs] eqn:E2. cbn [fst].
      specialize (IH b1). rewrite E2 in IH. cbn [fst] in IH. rewrite IH.
      pose proof (step_trackers b oe) as [Hs _]. rewrite E1 in Hs. cbn [fst] in Hs. rewrite Hs.
      rewrite on_trackers_comp. unfold on_trackers. apply map_ext. intros [k t]. cbn [fst snd].
      rewrite fold_left_app. reflexivity.
  Qed.

  (** the spinner counter: one step per tick() / update() / admitted position update,
      saturating at u64::MAX *)
  Fixpoint spins (ops : list (bop * env)) : N :=
    match ops with
    | [] => 0
    | (o, e) :: r => (if op_spins o (e_allowed e) then 1 else 0) + spins r
    end.

  Lemma step_tick : forall (b : bstate T) o e,
    b_tick (fst (bstep b (o, e)))
    = if op_spins o (e_allowed e) then sat_add64 (b_tick b) 1 else b_tick b.
  Proof.
    intros b o e. destruct o; cbn [bstep Keys.bstep op_spins];
      unfold pos_update, bar_tick, finish, update_estimate_and_draw;
      try destruct (e_allowed e); try destruct f; try destruct p; try destruct l;
      cbn [fst b_tick b_len with_tick with_pos with_len with_status with_message with_prefix
           with_tab map_trackers];
      try destruct (b_len b); reflexivity.
  Qed.

  Lemma tick_count : forall ops (b : bstate T),
    b_tick b <= U64MAX ->
    b_tick (fst (brun b ops)) = N.min U64MAX (b_tick b + spins ops).
  Proof.
    induction ops as [| [o e] r IH]; intros b Hb.
    - cbn. lia.
    - cbn [brun Keys.brun spins].
      destruct (bstep b (o, e)) as [b1 fr] eqn:E1.
      destruct (Keys.brun TO F tw b1 r) as [b2 frs] eqn:E2. cbn [fst].
      pose proof (step_tick b o e) as Hs. rewrite E1 in Hs. cbn [fst] in Hs.
      specialize (IH b1). rewrite E2 in IH. cbn [fst] in IH.
      assert (Hb1 : b_tick b1 <= U64MAX).
      { rewrite Hs. destruct (op_spins o (e_allowed e)); unfold sat_add64; lia. }
      rewrite IH by exact Hb1. rewrite Hs.
      destruct (op_spins o (e_allowed e)); unfold sat_add64; lia.
  Qed.

  (** position, length and finished flag are those of the C07 model (Pos.v) run on the
      projected history: the closed forms proved there describe what the keys show *)
  Definition fin_kind (f : fin) : finish_kind :=
    match f with
    | FinAndLeave => AndLeave
    | FinWithMessage _ => WithMessage
    | FinAndClear => AndClear
    | FinAbandon => Abandon
    | FinAbandonWithMessage _ => AbandonWithMessage
    end.
  Definition to_pops (oe : bop * env) : list pop :=
    match fst oe with
    | OTick | OSetMessage _ | OSetPrefix _ | OForceDraw | OSetTabWidth _ => []
    | OInc d => [Inc d]
    | ODec d => [Dec d]
    | OSetPos p => [SetPos p]
    | OSetLen l => [SetLen l]
    | OIncLen d => [IncLen d]
    | ODecLen d => [DecLen d]
    | OUnsetLen => [UnsetLen]
    | OFinish f => [Finish (fin_kind f)]
    | OResetAll => [ResetAll]
    | OResetEta => [ResetEta]
    | OResetElapsed => [ResetElapsed]
    | OUpdate p l =>
        (match p with Some p => [SetPos p] | None => [] end)
        ++ (match l with Some l => [SetLen l] | None => [] end)
    end.
  Definition proj (b : bstate T) : pstate :=
    {| pos := b_pos b; len := b_len b; finished := is_finished (b_status b) |}.

  Lemma step_proj : forall (b : bstate T) oe,
    proj (fst (bstep b oe)) = prun (proj b) (to_pops oe).
  Proof.
    intros b [o e]. destruct b as [p0 l0 t0 st0 m0 pr0 tab0 sty0]. unfold to_pops, proj. cbn [fst].
    destruct o; cbn [bstep Keys.bstep];
      unfold pos_update, bar_tick, finish, update_estimate_and_draw;
      try destruct (e_allowed e); try destruct f; try destruct p; try destruct l;
      cbn [fst map_trackers with_tick with_pos with_len with_status with_message with_prefix
           with_tab b_pos b_len b_status is_finished prun fold_left pstep pos len finished
           fin_kind finish_sets_pos app option_map];
      try reflexivity;
      destruct l0;
      cbn [fst map_trackers with_tick with_pos with_len with_status with_message with_prefix
           with_tab b_pos b_len b_status is_finished prun fold_left pstep pos len finished
           fin_kind finish_sets_pos app option_map];
      try reflexivity; destruct st0; reflexivity.
  Qed.

  Lemma run_proj : forall ops (b : bstate T),
    proj (fst (brun b ops)) = prun (proj b) (flat_map to_pops ops).
  Proof.
    induction ops as [| oe r IH]; intros b.
    - reflexivity.
    - cbn [brun Keys.brun flat_map].
      destruct (bstep b oe) as [b1 fr] eqn:E1.
      destruct (Keys.brun TO F tw b1 r) as [b2 frs] eqn:E2. cbn [fst].
      specialize (IH b1). rewrite E2 in IH. cbn [fst] in IH. rewrite IH.
      pose proof (step_proj b oe) as Hs. rewrite E1 in Hs. cbn [fst] in Hs. rewrite Hs.
      unfold prun. rewrite fold_left_app. reflexivity.
  Qed.

  (** frames of a whole history: the i-th call's frame is the rendering of the state after the
      first i+1 calls *)
  Lemma run_frames : forall ops (b : bstate T) i o e lines,
    nth_error ops i = Some (o, e) ->
    nth_error (snd (brun b ops)) i = Some (Some lines) ->
    lines = draw (fst (brun b (firstn (S i) ops))) e.
  Proof.
    induction ops as [| oe r IH]; intros b i o e lines Hop Hfr.
    - destruct i; discriminate.
    - cbn [brun Keys.brun] in Hfr.
      destruct (bstep b oe) as [b1 fr] eqn:E1.
      destruct (Keys.brun TO F tw b1 r) as [b2 frs] eqn:E2. cbn [snd] in Hfr.
      destruct i as [| i].
      + cbn in Hop, Hfr. inversion Hop; subst oe. inversion Hfr; subst fr.
        cbn [firstn brun Keys.brun]. rewrite E1. cbn [fst].
        pose proof (frame_is_post_state b o e lines) as H. rewrite E1 in H. cbn [fst snd] in H.
        apply H. reflexivity.
      + cbn [nth_error] in Hop, Hfr.
        change (firstn (S (S i)) (oe :: r)) with (oe :: firstn (S i) r).
        cbn [brun Keys.brun]. rewrite E1.
        destruct (Keys.brun TO F tw b1 (firstn (S i) r)) as [b3 frs3] eqn:E3. cbn [fst].
        specialize (IH b1 i o e lines Hop). rewrite E2 in IH. cbn [snd] in IH.
        rewrite E3 in IH. cbn [fst] in IH. apply IH. exact Hfr.
  Qed.
End History.

(** [x as u64] is a u64 *)
Lemma f64_to_u64_range : forall bits, f64_to_u64 bits <= U64MAX.
Proof.
  intros bits. unfold f64_to_u64.
  repeat match goal with |- context [if ?c then _ else _] => destruct c end;
    unfold U64MAX; try lia.
Qed.

(** ------------------------------------------------------------------ frames = documented table *)
Open Scope string_scope.
Lemma narrow_keys : forall F ticks s k w,
  In k DOCUMENTED_KEYS -> k <> "wide_bar" -> k <> "wide_msg" ->
  snd (key_value F ticks s k w) = None.
Proof.
  intros F ticks s k w Hin Hb Hm. unfold DOCUMENTED_KEYS in Hin. cbn [In] in Hin.
  unfold key_value.
  repeat (destruct Hin as [<- | Hin];
          [ try (exfalso; apply Hb; reflexivity); try (exfalso; apply Hm; reflexivity);
            eval_key; reflexivity | ]).
  contradiction.
Qed.

Section Frames.
  Context {T : Type}.
  Variable TO : tracker_ops T.
  Variable F : formatters.
  Variable tw : N.

  (** a part whose value the documentation defines: literal text, or a documented, non-wide,
      non-shadowed key (per_sec without a width) *)
  Definition doc_part (sty : style T) (p : part) : Prop :=
    match p with
    | PLit _ => True
    | PKey k w =>
        lookup k (customs sty) = None /\ In k DOCUMENTED_KEYS
        /\ k <> "wide_bar" /\ k <> "wide_msg" /\ (k = "per_sec" -> w = None)
    end.
  Definition doc_text (sty : style T) (s : snapshot) (p : part) : text :=
    match p with
    | PLit l => l
    | PKey k w =>
        let v := fst (documented F (tick_strings sty) s k w) in
        match w with Some w => pad_left v w | None => v end
    end.

  Lemma doc_parts_text : forall sty s ps,
    Forall (doc_part sty) ps ->
    map (part_text TO F sty s) ps = map (doc_text sty s) ps
    /\ Forall (part_narrow TO F sty s) ps.
  Proof.
    intros sty s ps H. induction H as [| p r Hp Hr [IH1 IH2]]; [split; constructor |].
    split.
    - cbn [map]. rewrite IH1. f_equal. destruct p as [l | k w]; [reflexivity |].
      destruct Hp as (Hc & Hin & Hb & Hm & Hq). cbn [part_text doc_text].
      rewrite builtin_render by exact Hc. cbn [fst].
      rewrite table_correct by assumption. reflexivity.
    - constructor; [| exact IH2]. destruct p as [l | k w]; [exact I |].
      destruct Hp as (Hc & Hin & Hb & Hm & Hq). cbn [part_narrow].
      rewrite builtin_render by exact Hc. cbn [snd]. apply narrow_keys; assumption.
  Qed.

  (** Every frame drawn by any call of any history shows, for every documented placeholder of
      the template, the documented getter o formatter of the state the call leaves behind,
      read at the instant of the call. *)
  Lemma frame_documented : forall (b : bstate T) o e lines,
    snd (bstep TO F tw b (o, e)) = Some lines ->
    let b' := fst (bstep TO F tw b (o, e)) in
    b_status b' <> DoneHidden ->
    Forall (doc_part (b_style b')) (template (b_style b')) ->
    lines = match concat (map (doc_text (b_style b') (snapshot_of b' (e_obs e)))
                              (template (b_style b'))) with
            | [] => []
            | line => split_nl line []
            end.
  Proof.
    intros b o e lines Hd b' Hs Hp.
    rewrite (frame_is_post_state TO F tw b o e lines Hd). fold b'.
    unfold draw. destruct (b_status b') eqn:Es; try congruence;
      (destruct (doc_parts_text (b_style b') (snapshot_of b' (e_obs e)) _ Hp) as [H1 H2];
       rewrite format_state_concat by exact H2; rewrite H1; reflexivity).
  Qed.

  (** after finish_and_clear nothing is rendered *)
  Lemma hidden_draws_nothing : forall (b : bstate T) e,
    b_status b = DoneHidden -> draw TO F tw b e = [].
  Proof. intros b e H. unfold draw. rewrite H. reflexivity. Qed.

  (** the two wide keys alone in a template *)
  Lemma wide_msg_alone : forall (sty : style T) s,
    lookup "wide_msg" (customs sty) = None ->
    template sty = [PKey "wide_msg" None] ->
    format_state TO F sty s tw = split_nl (trim_end (pad_left_trunc (s_message s) tw)) [].
  Proof.
    intros sty s Hc Ht. unfold format_state. rewrite Ht. cbn [render_parts].
    rewrite builtin_render by exact Hc. unfold key_value. eval_key.
    cbn [builtin_value fst snd app expand_wide rev replace0 flat_map N.eqb text_width fold_right
         char_width].
    rewrite app_nil_r, N.sub_0_r. reflexivity.
  Qed.

  Lemma wide_bar_alone : forall (sty : style T) s,
    lookup "wide_bar" (customs sty) = None ->
    template sty = [PKey "wide_bar" None] ->
    format_state TO F sty s tw = split_nl (f_bar F (o_fraction (s_obs s)) tw) [].
  Proof.
    intros sty s Hc Ht. unfold format_state. rewrite Ht. cbn [render_parts].
    rewrite builtin_render by exact Hc. unfold key_value. eval_key.
    cbn [builtin_value fst snd app expand_wide rev replace0 flat_map N.eqb text_width fold_right
         char_width].
    rewrite app_nil_r, N.sub_0_r. reflexivity.
  Qed.
End Frames.
Close Scope string_scope.
