(** Proofs about model/Padded.v (C12). *)
From IndModel Require Import Base Padded.
From Coq Require Import NArith ZArith Lia List Bool.
From Coq Require Import ZifyBool ZifyNat ZifyN.
Ltac Zify.zify_post_hook ::= Z.div_mod_to_equations.
Arguments N.add : simpl never.
Arguments N.sub : simpl never.
Arguments N.mul : simpl never.
Arguments N.div : simpl never.
Arguments N.modulo : simpl never.
Open Scope N_scope.

(** ** bytes, columns *)
Lemma nbytes_bounds c : 1 <= nbytes c <= 4.
Proof. unfold nbytes. destruct (c <? 128), (c <? 2048), (c <? 65536); lia. Qed.

Lemma chb_pos c : 1 <= chb c.
Proof. unfold chb. pose proof (nbytes_bounds (cp c)). lia. Qed.

Lemma cols_app a b : cols (a ++ b) = cols a + cols b.
Proof. induction a as [|c a IH]; cbn [cols app]; [lia | rewrite IH; lia]. Qed.

Lemma blen_app a b : blen (a ++ b) = blen a + blen b.
Proof. induction a as [|c a IH]; cbn [blen app]; [lia | rewrite IH; lia]. Qed.

Lemma spaces_succ n : spaces (N.succ n) = sp :: spaces n.
Proof. unfold spaces. rewrite N.iter_succ. reflexivity. Qed.

Lemma cols_spaces n : cols (spaces n) = n.
Proof.
  induction n as [|n IH] using N.peano_ind; [reflexivity|].
  rewrite spaces_succ. cbn [cols sp cw]. rewrite IH. lia.
Qed.

Lemma length_spaces n : length (spaces n) = N.to_nat n.
Proof.
  induction n as [|n IH] using N.peano_ind; [reflexivity|].
  rewrite spaces_succ. cbn [length]. rewrite IH. lia.
Qed.

Lemma spaces_all n : Forall (fun c => c = sp) (spaces n).
Proof.
  induction n as [|n IH] using N.peano_ind; [constructor|].
  rewrite spaces_succ. constructor; [reflexivity | exact IH].
Qed.

Lemma cols_le_blen s : Forall ch_ok s -> cols s <= blen s.
Proof.
  induction 1 as [|c s Hc _ IH]; cbn [cols blen]; [lia|]. unfold ch_ok in Hc. lia.
Qed.

(** ** the three regimes of [padded] *)
Lemma padded_fits_eq s w a tr : cols s <= w ->
  padded s w a tr = Ok (spaces (fst (pad_split a (w - cols s))) ++ s ++ spaces (snd (pad_split a (w - cols s)))).
Proof.
  intros Hfit. unfold padded.
  replace (cols s - w) with 0 by lia. cbn [N.ltb N.compare andb].
  destruct (pad_split a (w - cols s)) as [l r]. reflexivity.
Qed.

Lemma pad_split_sum a d : fst (pad_split a d) + snd (pad_split a d) = d.
Proof. destruct a; cbn [pad_split fst snd]; lia. Qed.

Theorem fits s w a tr : cols s <= w ->
  exists l r,
    padded s w a tr = Ok (spaces l ++ s ++ spaces r)
    /\ cols (spaces l ++ s ++ spaces r) = w
    /\ l + r = w - cols s
    /\ match a with
       | ALeft => l = 0
       | ARight => r = 0
       | ACenter => l = (w - cols s) / 2 /\ (r = l \/ r = l + 1)
       end.
Proof.
  intros Hfit.
  exists (fst (pad_split a (w - cols s))), (snd (pad_split a (w - cols s))).
  split; [apply padded_fits_eq; exact Hfit|].
  pose proof (pad_split_sum a (w - cols s)) as Hsum.
  split; [rewrite !cols_app, !cols_spaces; lia|].
  split; [exact Hsum|].
  destruct a; cbn [pad_split fst snd] in *; [reflexivity | | reflexivity].
  split; [reflexivity | lia].
Qed.

Theorem no_trunc s w a : w < cols s -> padded s w a false = Ok s.
Proof.
  intros Hw. unfold padded.
  assert (H : (0 <? cols s - w) = true) by (apply N.ltb_lt; lia).
  rewrite H. reflexivity.
Qed.

(** ** str::get *)
Lemma drop_bytes_0 s : drop_bytes s 0 = Some s.
Proof. destruct s; reflexivity. Qed.
Lemma take_bytes_0 s : take_bytes s 0 = Some [].
Proof. destruct s; reflexivity. Qed.

Lemma drop_bytes_spec s : forall n r, drop_bytes s n = Some r ->
  exists a, s = a ++ r /\ blen a = n.
Proof.
  induction s as [|c s IH]; intros n r H.
  - cbn [drop_bytes] in H. destruct (n =? 0) eqn:E; [|discriminate].
    apply N.eqb_eq in E. inversion H; subst. exists []. split; reflexivity.
  - cbn [drop_bytes] in H. destruct (n =? 0) eqn:E.
    + apply N.eqb_eq in E. inversion H; subst. exists []. split; reflexivity.
    + destruct (n <? chb c) eqn:E2; [discriminate|].
      apply N.ltb_ge in E2. destruct (IH _ _ H) as [a [Ha Hl]].
      exists (c :: a). split; [cbn [app]; rewrite Ha; reflexivity|]. cbn [blen]. lia.
Qed.

Lemma take_bytes_spec s : forall n t, take_bytes s n = Some t ->
  exists b, s = t ++ b /\ blen t = n.
Proof.
  induction s as [|c s IH]; intros n t H.
  - cbn [take_bytes] in H. destruct (n =? 0) eqn:E; [|discriminate].
    apply N.eqb_eq in E. inversion H; subst. exists []. split; reflexivity.
  - cbn [take_bytes] in H. destruct (n =? 0) eqn:E.
    + apply N.eqb_eq in E. inversion H; subst. exists (c :: s). split; reflexivity.
    + destruct (n <? chb c) eqn:E2; [discriminate|].
      apply N.ltb_ge in E2.
      destruct (take_bytes s (n - chb c)) as [t'|] eqn:E3; [|discriminate].
      inversion H; subst. destruct (IH _ _ E3) as [b [Hb Hl]].
      exists b. split; [cbn [app]; rewrite Hb; reflexivity|]. cbn [blen]. lia.
Qed.

Lemma str_get_spec s st en t : str_get s st en = Some t ->
  exists a b, s = a ++ t ++ b /\ blen a = st /\ blen t = en - st /\ st <= en.
Proof.
  unfold str_get. destruct (en <? st) eqn:E; [discriminate|]. apply N.ltb_ge in E.
  destruct (drop_bytes s st) as [r|] eqn:Ed; [|discriminate]. intros Ht.
  destruct (drop_bytes_spec _ _ _ Ed) as [a [Ha Hla]].
  destruct (take_bytes_spec _ _ _ Ht) as [b [Hb Hlt]].
  exists a, b. subst r. repeat split; assumption.
Qed.

(** ** content made of 1-byte / 1-column characters *)
Lemma ascii1b_spec c : ascii1b c = true <-> ascii1 c.
Proof. unfold ascii1b, ascii1. rewrite andb_true_iff, !N.eqb_eq. tauto. Qed.

Lemma ascii_len s : Forall ascii1 s ->
  blen s = N.of_nat (length s) /\ cols s = N.of_nat (length s).
Proof.
  induction 1 as [|c s [Hb Hw] _ [IHb IHc]]; cbn [blen cols length]; [split; reflexivity|].
  split; lia.
Qed.

Lemma ascii_drop s : Forall ascii1 s -> forall n, n <= N.of_nat (length s) ->
  drop_bytes s n = Some (skipn (N.to_nat n) s).
Proof.
  induction 1 as [|c s [Hb Hw] Hs IH]; intros n Hn.
  - cbn [length] in Hn. assert (n = 0) by lia. subst. reflexivity.
  - cbn [drop_bytes]. destruct (n =? 0) eqn:E.
    + apply N.eqb_eq in E. subst. reflexivity.
    + apply N.eqb_neq in E. rewrite Hb.
      assert (E2 : (n <? 1) = false) by (apply N.ltb_ge; lia). rewrite E2.
      cbn [length] in Hn. rewrite IH by lia.
      replace (N.to_nat n) with (S (N.to_nat (n - 1))) by lia. reflexivity.
Qed.

Lemma ascii_take s : Forall ascii1 s -> forall n, n <= N.of_nat (length s) ->
  take_bytes s n = Some (firstn (N.to_nat n) s).
Proof.
  induction 1 as [|c s [Hb Hw] Hs IH]; intros n Hn.
  - cbn [length] in Hn. assert (n = 0) by lia. subst. reflexivity.
  - cbn [take_bytes]. destruct (n =? 0) eqn:E.
    + apply N.eqb_eq in E. subst. reflexivity.
    + apply N.eqb_neq in E. rewrite Hb.
      assert (E2 : (n <? 1) = false) by (apply N.ltb_ge; lia). rewrite E2.
      cbn [length] in Hn. rewrite IH by lia.
      replace (N.to_nat n) with (S (N.to_nat (n - 1))) by lia. reflexivity.
Qed.

Lemma Forall_firstn {A} (P : A -> Prop) n l : Forall P l -> Forall P (firstn n l).
Proof.
  intros H. revert n. induction H as [|x l Hx _ IH]; intros [|n]; cbn [firstn]; constructor; auto.
Qed.
Lemma Forall_skipn {A} (P : A -> Prop) n l : Forall P l -> Forall P (skipn n l).
Proof.
  intros H. revert n. induction H as [|x l Hx Hl IH]; intros [|n]; cbn [skipn]; auto.
Qed.

(** [trunc_spec] (the cells the property asks for), [e_acute], [cjk]: statement vocabulary, defined
    in model/Padded.v *)

Theorem trunc_ascii s w a : Forall ascii1 s -> w < cols s ->
  padded s w a true = Ok (trunc_spec s w a)
  /\ cols (trunc_spec s w a) = w
  /\ length (trunc_spec s w a) = N.to_nat w.
Proof.
  intros Hs Hw. destruct (ascii_len s Hs) as [Hb Hc].
  assert (Hout : Forall ascii1 (trunc_spec s w a)).
  { unfold trunc_spec. destruct a; auto using Forall_firstn, Forall_skipn. }
  assert (Hlen : length (trunc_spec s w a) = N.to_nat w).
  { unfold trunc_spec. destruct a.
    - rewrite firstn_length. lia.
    - rewrite firstn_length, skipn_length. lia.
    - rewrite skipn_length. lia. }
  split; [| split; [destruct (ascii_len _ Hout) as [_ Hc']; rewrite Hc', Hlen; lia | exact Hlen]].
  unfold padded.
  assert (H : (0 <? cols s - w) = true) by (apply N.ltb_lt; lia).
  rewrite H. cbn [negb andb]. unfold trunc_range, trunc_spec. rewrite Hb.
  set (n := N.of_nat (length s)) in *. set (e := cols s - w).
  assert (He : e = n - w) by (unfold e; lia).
  destruct a.
  - (* left *)
    assert (E : (n <? e) = false) by (apply N.ltb_ge; lia). rewrite E.
    unfold str_get. assert (E0 : (n - e <? 0) = false) by (apply N.ltb_ge; lia). rewrite E0.
    rewrite drop_bytes_0. rewrite ascii_take by (try assumption; lia).
    replace (n - e - 0) with w by lia. reflexivity.
  - (* center *)
    assert (E : (n <? e - e / 2) = false) by (apply N.ltb_ge; lia). rewrite E.
    unfold str_get.
    assert (E0 : (n - (e - e / 2) <? e / 2) = false) by (apply N.ltb_ge; lia). rewrite E0.
    rewrite ascii_drop by (try assumption; lia).
    rewrite ascii_take; [| apply Forall_skipn; assumption | rewrite skipn_length; lia].
    replace (n - (e - e / 2) - e / 2) with w by lia. reflexivity.
  - (* right *)
    unfold str_get. assert (E0 : (n <? e) = false) by (apply N.ltb_ge; lia). rewrite E0.
    rewrite ascii_drop by (try assumption; lia).
    rewrite ascii_take; [| apply Forall_skipn; assumption | rewrite skipn_length; lia].
    rewrite firstn_all2 by (rewrite skipn_length; lia). reflexivity.
Qed.

(** ** no underflow, and what truncation does to arbitrary content: it keeps
    [blen s - excess] BYTES (or everything), not columns *)
Lemma trunc_range_ok a len e : e <= len ->
  exists st en, trunc_range a len e = Some (st, en) /\ st <= en /\ en <= len /\ en - st = len - e.
Proof.
  intros H. unfold trunc_range. destruct a.
  - assert (E : (len <? e) = false) by (apply N.ltb_ge; lia). rewrite E.
    exists 0, (len - e). repeat split; lia.
  - assert (E : (len <? e - e / 2) = false) by (apply N.ltb_ge; lia). rewrite E.
    exists (e / 2), (len - (e - e / 2)). repeat split; lia.
  - exists e, len. repeat split; lia.
Qed.

Theorem no_panic s w a tr : Forall ch_ok s -> exists o, padded s w a tr = Ok o.
Proof.
  intros Hs. pose proof (cols_le_blen s Hs) as Hle. unfold padded.
  destruct ((0 <? cols s - w) && negb tr); [eexists; reflexivity|].
  destruct (0 <? cols s - w); [| destruct (pad_split a (w - cols s)); eexists; reflexivity].
  destruct (trunc_range_ok a (blen s) (cols s - w)) as [st [en [E _]]]; [lia|].
  rewrite E. eexists; reflexivity.
Qed.

Theorem trunc_bytes s w a : Forall ch_ok s -> w < cols s ->
  exists o, padded s w a true = Ok o /\
    (o = s \/ exists pre post, s = pre ++ o ++ post /\ blen o = blen s - (cols s - w)).
Proof.
  intros Hs Hw. pose proof (cols_le_blen s Hs) as Hle. unfold padded.
  assert (H : (0 <? cols s - w) = true) by (apply N.ltb_lt; lia).
  rewrite H. cbn [negb andb].
  destruct (trunc_range_ok a (blen s) (cols s - w)) as [st [en [E [H1 [H2 H3]]]]]; [lia|].
  rewrite E. destruct (str_get s st en) as [t|] eqn:G.
  - exists t. split; [reflexivity|]. right.
    destruct (str_get_spec _ _ _ _ G) as [p [q [Hs' [_ [Hl _]]]]]. exists p, q. split; [exact Hs'| lia].
  - exists s. split; [reflexivity | left; reflexivity].
Qed.

(** the truncation clause, for content in general, is false *)

Theorem trunc_general_refuted :
  exists s w a o, Forall ch_ok s /\ w < cols s /\ padded s w a true = Ok o /\ cols o <> w.
Proof.
  exists (repeat e_acute 9), 5, ALeft, (repeat e_acute 7).
  split; [repeat constructor; unfold ch_ok; cbn; lia|].
  split; [vm_compute; reflexivity|].
  split; [vm_compute; reflexivity|]. vm_compute. discriminate.
Qed.

Theorem trunc_wide_refuted :
  let s := [cjk 26085; cjk 26412; cjk 35486] in      (* 日本語 *)
  Forall ch_ok s /\ cols s = 6 /\ padded s 4 ALeft true = Ok s.
Proof. split; [repeat constructor; unfold ch_ok; cbn; lia | split; vm_compute; reflexivity]. Qed.

(** outside the known class the clause holds: [trunc_ascii] applies *)
Lemma outside_known s w : ~ trunc_nonascii s w true -> w < cols s -> Forall ascii1 s.
Proof.
  intros Hn Hw. apply Forall_forall. intros c Hin.
  destruct (ascii1b c) eqn:E; [apply ascii1b_spec; exact E|].
  exfalso. apply Hn. unfold trunc_nonascii. repeat split; [exact Hw|].
  apply Exists_exists. exists c. split; [exact Hin|].
  intros Ha. apply ascii1b_spec in Ha. congruence.
Qed.

Theorem trunc_outside_known s w a : w < cols s -> ~ trunc_nonascii s w true ->
  padded s w a true = Ok (trunc_spec s w a) /\ cols (trunc_spec s w a) = w.
Proof.
  intros Hw Hn. destruct (trunc_ascii s w a (outside_known s w Hn Hw) Hw) as [H1 [H2 _]].
  split; assumption.
Qed.

(** ** wide_msg *)
Lemma trim_end_cons c r :
  trim_end (c :: r) = match trim_end r with
                      | [] => if is_ws (cp c) then [] else [c]
                      | _ => c :: trim_end r
                      end.
Proof. reflexivity. Qed.

Lemma trim_end_split s :
  exists t, s = trim_end s ++ t /\ Forall (fun c => is_ws (cp c) = true) t.
Proof.
  induction s as [|c r [t [Hr Ht]]]; [exists []; split; [reflexivity | constructor]|].
  rewrite trim_end_cons. destruct (trim_end r) as [|x l] eqn:E.
  - cbn [app] in Hr. subst t. destruct (is_ws (cp c)) eqn:W.
    + exists (c :: r). split; [reflexivity | constructor; assumption].
    + exists r. split; [reflexivity | assumption].
  - exists t. split; [cbn [app]; rewrite Hr at 1; reflexivity | assumption].
Qed.

Lemma trim_end_last s :
  trim_end s = [] \/ exists u c, trim_end s = u ++ [c] /\ is_ws (cp c) = false.
Proof.
  induction s as [|c r IH]; [left; reflexivity|].
  rewrite trim_end_cons. destruct (trim_end r) as [|x l] eqn:E.
  - destruct (is_ws (cp c)) eqn:W; [left; reflexivity | right; exists [], c; split; [reflexivity | assumption]].
  - right. destruct IH as [IH | [u [d [Hu Hd]]]]; [discriminate|].
    exists (c :: u), d. split; [cbn [app]; rewrite Hu; reflexivity | exact Hd].
Qed.

Lemma cols_trim_end s : cols (trim_end s) <= cols s.
Proof.
  destruct (trim_end_split s) as [t [Hs _]]. rewrite Hs at 2. rewrite cols_app. lia.
Qed.

(** the field of a wide_msg is [padded] with truncate = true and the width left over *)
Theorem wide_is_field pre post msg a tw :
  wide_line pre post msg a tw =
  match padded msg (tw - (cols pre + cols post)) a true with
  | Ok f => Ok (pre ++ (match post with [] => trim_end f | _ => f end) ++ post)
  | Panic k => Panic k
  end.
Proof. unfold wide_line. rewrite cols_app. reflexivity. Qed.

(** the field is exactly as wide as the rest of the line leaves room for … *)
Lemma padded_true_cols msg w a : (cols msg <= w \/ Forall ascii1 msg) ->
  exists f, padded msg w a true = Ok f /\ cols f = w.
Proof.
  intros H. destruct (N.le_gt_cases (cols msg) w) as [Hfit | Hw].
  - destruct (fits msg w a true Hfit) as [l [r [E [Hc _]]]]. eexists; split; [exact E | exact Hc].
  - destruct H as [H | H]; [lia|].
    destruct (trunc_ascii msg w a H Hw) as [E [Hc _]]. eexists; split; [exact E | exact Hc].
Qed.

Theorem wide_cols pre post msg a tw :
  post <> [] ->
  cols pre + cols post <= tw ->
  (cols msg <= tw - (cols pre + cols post) \/ Forall ascii1 msg) ->
  exists l, wide_line pre post msg a tw = Ok l /\ cols l = tw.
Proof.
  intros Hpost Hrest Hmsg. rewrite wide_is_field.
  destruct (padded_true_cols msg _ a Hmsg) as [f [E Hc]]. rewrite E.
  eexists; split; [reflexivity|]. destruct post as [|p post]; [congruence|].
  rewrite !cols_app, Hc. lia.
Qed.

(** … and, when nothing follows it in the line, it is that field without its trailing white space *)
Theorem wide_last pre msg a tw :
  cols pre <= tw ->
  (cols msg <= tw - cols pre \/ Forall ascii1 msg) ->
  exists f t, padded msg (tw - cols pre) a true = Ok f /\ cols f = tw - cols pre
    /\ wide_line pre [] msg a tw = Ok (pre ++ trim_end f)
    /\ f = trim_end f ++ t /\ Forall (fun c => is_ws (cp c) = true) t
    /\ cols (pre ++ trim_end f) <= tw.
Proof.
  intros Hrest Hmsg. rewrite wide_is_field. cbn [cols]. rewrite N.add_0_r.
  destruct (padded_true_cols msg (tw - cols pre) a Hmsg) as [f [E Hc]].
  destruct (trim_end_split f) as [t [Hf Ht]].
  exists f, t. rewrite E. repeat split; try assumption.
  - rewrite app_nil_r. reflexivity.
  - rewrite cols_app. pose proof (cols_trim_end f). lia.
Qed.

(** when the rest of the line already fills the terminal nothing of an ASCII message is shown *)
Lemma wide_no_room pre post msg a tw :
  tw <= cols pre + cols post -> Forall ascii1 msg ->
  wide_line pre post msg a tw = Ok (pre ++ post).
Proof.
  intros Hrest Hm. rewrite wide_is_field.
  replace (tw - (cols pre + cols post)) with 0 by lia.
  destruct (padded_true_cols msg 0 a (or_intror Hm)) as [f [E Hc]]. rewrite E.
  assert (Hf : f = []).
  { destruct f as [|c f]; [reflexivity|]. exfalso.
    destruct (N.le_gt_cases (cols msg) 0) as [Hfit | Hw].
    - rewrite padded_fits_eq in E by exact Hfit. inversion E as [E'].
      assert (Hm0 : msg = []).
      { destruct msg as [|m msg]; [reflexivity|]. inversion Hm as [|? ? [_ Hw1] _]; subst. cbn [cols] in Hfit. lia. }
      subst msg. cbn [cols] in E'. replace (0 - 0) with 0 in E' by lia.
      destruct a; cbn in E'; discriminate.
    - destruct (trunc_ascii msg 0 a Hm Hw) as [E' [_ Hl]]. rewrite E' in E. inversion E as [E''].
      rewrite E'' in Hl. cbn [length] in Hl. lia. }
  subst f. destruct post; reflexivity.
Qed.

(** ------------------------------------------------------------------ styled fields *)
(** without a `.STYLE` part the styled line is the plain one *)
Lemma styled_none pre post s w a tr :
  styled_field_line pre post s w a tr None = field_line pre post s w a tr.
Proof.
  unfold styled_field_line, field_line. destruct w as [w|]; [|reflexivity].
  destruct (padded s w a tr); reflexivity.
Qed.

(** a styled sized field is the field of [padded] - the object of every theorem above - between the
    two escape texts of the style *)
Theorem styled_is_field pre post s w a tr spre spost :
  styled_field_line pre post s (Some w) a tr (Some (spre, spost)) =
  match padded s w a tr with
  | Ok f => Ok (pre ++ (spre ++ f ++ spost) ++ post)
  | Panic k => Panic k
  end.
Proof. reflexivity. Qed.

(** content that fits - the empty content included - in a styled field: exactly W columns when the
    style's texts are zero columns wide (escape sequences), padding by the alignment, inside the
    style *)
Theorem styled_fits s w a tr spre spost pre post :
  cols s <= w -> cols spre = 0 -> cols spost = 0 ->
  exists l r,
    styled_field_line pre post s (Some w) a tr (Some (spre, spost))
      = Ok (pre ++ (spre ++ (spaces l ++ s ++ spaces r) ++ spost) ++ post)
    /\ cols (spre ++ (spaces l ++ s ++ spaces r) ++ spost) = w
    /\ l + r = w - cols s
    /\ match a with
       | ALeft => l = 0
       | ARight => r = 0
       | ACenter => l = (w - cols s) / 2 /\ (r = l \/ r = l + 1)
       end.
Proof.
  intros Hs Hp Hq. destruct (fits s w a tr Hs) as [l [r [E [Hc [Hlr Ha]]]]].
  exists l, r. rewrite styled_is_field, E. split; [reflexivity|].
  split; [rewrite !cols_app in *; lia|]. split; assumption.
Qed.

Lemma spaces_add x y : spaces x ++ spaces y = spaces (x + y).
Proof.
  induction x as [|x IH] using N.peano_ind; [reflexivity|].
  rewrite N.add_succ_l, !spaces_succ. cbn [app]. f_equal. exact IH.
Qed.

(** in particular an EMPTY styled field is W blanks inside the style *)
Theorem styled_empty w a tr spre spost pre post :
  styled_field_line pre post [] (Some w) a tr (Some (spre, spost))
  = Ok (pre ++ (spre ++ spaces w ++ spost) ++ post).
Proof.
  assert (H0 : cols [] <= w) by (cbn [cols]; lia).
  destruct (fits [] w a tr H0) as [l [r [E [_ [Hlr _]]]]].
  rewrite styled_is_field, E. cbn [app cols] in *. rewrite spaces_add.
  replace (l + r) with w by lia. reflexivity.
Qed.
