(** C17 – proofs about model/Adaptors.v *)
From IndModel Require Import Base Adaptors.
From Coq Require Import ZArith NArith Lia List Bool.
Import ListNotations.
Open Scope N_scope.

(* ------------------------------------------------------------------ *)
(** * Bar arithmetic *)

Lemma wadd64_wadd64 a d1 d2 : wadd64 (wadd64 a d1) d2 = wadd64 a (d1 + d2).
Proof.
  unfold wadd64. rewrite N.add_mod_idemp_l by discriminate. f_equal. lia.
Qed.

Lemma wadd64_0 a : a < U64 -> wadd64 a 0 = a.
Proof. intros H. unfold wadd64. rewrite N.add_0_r. apply N.mod_small. exact H. Qed.

Lemma wadd64_lt a d : wadd64 a d < U64.
Proof. apply N.mod_lt. discriminate. Qed.

Lemma same_but_pos_refl b : same_but_pos b b.
Proof. repeat split. Qed.

Lemma same_but_pos_trans a b c : same_but_pos a b -> same_but_pos b c -> same_but_pos a c.
Proof.
  unfold same_but_pos. intros (H1 & H2 & H3 & H4) (K1 & K2 & K3 & K4).
  repeat split; congruence.
Qed.

Lemma bar_inc_same b d : same_but_pos b (bar_inc b d).
Proof. repeat split. Qed.

Lemma bar_set_position_same b p : same_but_pos b (bar_set_position b p).
Proof. repeat split. Qed.

(** finishing *)
Lemma bar_finish_spec b f :
  let b' := bar_finish b f in
  bar_is_finished b' = true
  /\ b_pos b' = (match b_len b with
                 | Some l => if finish_sets_pos f then l else b_pos b
                 | None => b_pos b
                 end)
  /\ b_msg b' = (match finish_message f with Some m => m | None => b_msg b end)
  /\ b_len b' = b_len b /\ b_on_finish b' = b_on_finish b
  /\ b_status b' = (match f with AndClear => DoneHidden | _ => DoneVisible end).
Proof.
  destruct f; cbn; destruct (b_len b); repeat split; reflexivity.
Qed.

(* ------------------------------------------------------------------ *)
(** * One call: the adaptor = the bare call + the specified effect on the bar *)

Lemma hint_is_default_true h : hint_is_default h = true -> h = (0, None).
Proof.
  destruct h as [a [u|]]; destruct a; cbn; intros H; try discriminate; reflexivity.
Qed.

Section WrapperProofs.
  Variables S E Item Data : Type.
  Variable I : inner S E Item Data.
  Variable V : variant.
  Variable B : buffers Data.

  Local Notation bare_step := (bare_step S E Item Data I).
  Local Notation wrap_step := (wrap_step S E Item Data I V B).
  Local Notation run_bare := (run_bare S E Item Data I).
  Local Notation run_wrap := (run_wrap S E Item Data I V B).
  Local Notation call := (call Data).
  Local Notation ret := (ret E Item Data).
  Local Notation known_dev := (known_dev E Item Data V).
  Local Notation effect_of := (effect_of E Item Data).
  Local Notation meets_spec := (meets_spec S E Item Data I V B).

  Ltac dinner :=
    match goal with
    | |- context [i_next I ?a] => destruct (i_next I a)
    | |- context [i_next_back I ?a] => destruct (i_next_back I a)
    | |- context [i_read I ?a ?b] => destruct (i_read I a b)
    | |- context [i_read_vectored I ?a ?b] => destruct (i_read_vectored I a b)
    | |- context [i_read_to_string I ?a] => destruct (i_read_to_string I a)
    | |- context [i_read_exact I ?a ?b] => destruct (i_read_exact I a b)
    | |- context [i_fill_buf I ?a] => destruct (i_fill_buf I a)
    | |- context [i_seek I ?a ?b] => destruct (i_seek I a b)
    | |- context [i_stream_position I ?a] => destruct (i_stream_position I a)
    | |- context [i_write I ?a ?b] => destruct (i_write I a b)
    | |- context [i_write_vectored I ?a ?b] => destruct (i_write_vectored I a b)
    | |- context [i_flush I ?a] => destruct (i_flush I a)
    | |- context [i_poll_write I ?a ?b] => destruct (i_poll_write I a b)
    | |- context [i_poll_write_vectored I ?a ?b] => destruct (i_poll_write_vectored I a b)
    | |- context [i_poll_flush I ?a] => destruct (i_poll_flush I a)
    | |- context [i_poll_shutdown I ?a] => destruct (i_poll_shutdown I a)
    | |- context [i_poll_read I ?a ?b ?c] => destruct (i_poll_read I a b c)
    | |- context [i_start_seek I ?a ?b] => destruct (i_start_seek I a b)
    | |- context [i_poll_complete I ?a] => destruct (i_poll_complete I a)
    | |- context [i_poll_fill_buf I ?a] => destruct (i_poll_fill_buf I a)
    | |- context [i_poll_next I ?a] => destruct (i_poll_next I a)
    end.

  Ltac dvars :=
    repeat match goal with
           | |- context [match ?x with _ => _ end] => is_var x; destruct x
           end.

  Ltac unfold_w :=
    unfold w_next, w_next_back, w_size_hint, w_len, w_read, w_read_vectored,
      w_read_to_string, w_read_exact, w_fill_buf, w_consume, w_seek, w_stream_position,
      w_write, w_write_vectored, w_flush, w_poll_write, w_poll_flush, w_poll_shutdown,
      w_poll_read, w_start_seek, w_poll_complete, w_poll_fill_buf, w_aconsume, w_poll_next,
      w_stream_size_hint, w_poll_write_vectored, w_is_write_vectored.

  (** MASTER LEMMA (every variant of the code): outside the classes of the fixes that variant
      lacks, a call on the adaptor meets the property.  [head_code] lacks none (Section Head). *)
  Theorem step_spec (s : S) (b : bar) (c : call) :
    known_dev b c (snd (bare_step s c)) = false -> meets_spec s b c.
  Proof.
    unfold meets_spec, Adaptors.meets_spec.
    destruct c; cbn [bare_step wrap_step Adaptors.bare_step Adaptors.wrap_step].
    all: unfold_w; cbn [fst snd].
    (* the five calls whose transcription depends on the variant *)
    17: { (* poll_write_vectored *)
      destruct (v_async_write_vectored V) eqn:Hv.
      - dinner. cbn [snd]. intros _. dvars; reflexivity.
      - dinner. cbn [snd Adaptors.known_dev]. rewrite Hv. discriminate. }
    17: { (* is_write_vectored *)
      cbn [snd Adaptors.known_dev Adaptors.effect_of Adaptors.apply_effect].
      destruct (v_async_write_vectored V); cbn [negb andb].
      - intros _. reflexivity.
      - intros H. rewrite H. reflexivity. }
    19: { (* poll_read *)
      dinner. destruct p as [[d f'] r]. cbn [snd].
      destruct r as [x|]; cbn [Adaptors.known_dev Adaptors.effect_of Adaptors.apply_effect].
      - intros H. rewrite H. reflexivity.
      - intros _. reflexivity. }
    23: { (* poll_next *)
      dinner. cbn [snd]. destruct p as [[x|]|];
        cbn [Adaptors.known_dev Adaptors.effect_of Adaptors.apply_effect]; try (intros _; reflexivity).
      destruct (v_stream_end_guard V), (bar_is_finished b); cbn [negb andb];
        intros H; try discriminate; reflexivity. }
    23: { (* Stream::size_hint *)
      cbn [snd Adaptors.known_dev Adaptors.effect_of Adaptors.apply_effect].
      destruct (v_stream_size_hint V); cbn [negb andb].
      - intros _. reflexivity.
      - intros H. apply negb_false_iff in H. apply hint_is_default_true in H.
        rewrite H. reflexivity. }
    (* the calls that are the same in every variant *)
    all: try dinner; cbn [snd]; intros _.
    all: dvars; cbn [Adaptors.effect_of Adaptors.apply_effect fst snd negb]; try reflexivity.
    - destruct (bar_is_finished b); reflexivity.
    - destruct (bar_is_finished b); reflexivity.
  Qed.

  (** Corollaries of [step_spec] in the shape of the property text. *)

  (** transparency: result and inner state are those of the bare call *)
  Theorem step_transparent s b c w' r :
    known_dev b c (snd (bare_step s c)) = false ->
    wrap_step (s, b) c = Ok (w', r) ->
    (fst w', r) = bare_step s c.
  Proof.
    intros Hd H. rewrite (step_spec s b c Hd) in H. destruct (bare_step s c) as [s' r0].
    inversion H; subst. reflexivity.
  Qed.

  (** counting: the bar after the call is the bar before + the effect the property prescribes
      for what the BARE call returned *)
  Theorem step_counts s b c w' r :
    known_dev b c (snd (bare_step s c)) = false ->
    wrap_step (s, b) c = Ok (w', r) ->
    snd w' = apply_effect b (effect_of c (snd (bare_step s c))).
  Proof.
    intros Hd H. rewrite (step_spec s b c Hd) in H. destruct (bare_step s c) as [s' r0]. cbn [snd].
    inversion H; subst. reflexivity.
  Qed.

  (** a variant adds a panic in exactly one situation: fix c811d79 (saturating_sub) is absent and
      the inner AsyncRead shrank ReadBuf::filled *)
  Theorem step_panics_iff s b c :
    (exists site, wrap_step (s, b) c = Panic site) <->
    (v_poll_read_saturating V = false /\
     exists f cap d f' x, c = CPollRead f cap /\
       snd (bare_step s c) = RPollRead d f' (Ready x) /\ f' < f).
  Proof.
    split.
    - intros [site H].
      destruct (known_dev b c (snd (bare_step s c))) eqn:Hd.
      + destruct c; cbn [bare_step Adaptors.bare_step] in *;
          try (exfalso; revert H; cbn [wrap_step Adaptors.wrap_step]; unfold_w;
               repeat match goal with
                      | |- context [let '(_, _) := ?x in _] => destruct x
                      | |- context [match ?x with _ => _ end] => destruct x
                      end; discriminate).
        revert Hd H. cbn [wrap_step Adaptors.wrap_step]. unfold_w.
        destruct (i_poll_read I s filled cap) as [s' [[d f'] r]]. cbn [snd].
        destruct r as [x|]; cbn [Adaptors.known_dev]; [|discriminate].
        intros Hd _. apply andb_prop in Hd. destruct Hd as [Hs Hlt].
        apply negb_true_iff in Hs. apply N.ltb_lt in Hlt.
        split; [exact Hs|]. exists filled, cap, d, f', x. repeat split. exact Hlt.
      + rewrite (step_spec s b c Hd) in H. destruct (bare_step s c). discriminate.
    - intros (Hs & f & cap & d & f' & x & Hc & Hr & Hlt). subst c.
      revert Hr. cbn [bare_step wrap_step Adaptors.bare_step Adaptors.wrap_step]. unfold_w.
      destruct (i_poll_read I s f cap) as [s' [[d0 f0] r0]]. cbn [snd].
      intros Hr. inversion Hr; subst. rewrite Hs. apply N.ltb_lt in Hlt. rewrite Hlt.
      exists 1. reflexivity.
  Qed.

  (** ** Whole callers: any adaptive program over the calls *)
  Local Notation prog := (prog E Item Data).
  Local Notation trace_ok := (trace_ok E Item Data V).
  Local Notation bar_after := (bar_after E Item Data).

  Theorem prog_spec (p : prog) : forall s b,
    trace_ok b (snd (run_bare p s)) = true ->
    run_wrap p (s, b) =
      Ok ((fst (run_bare p s), bar_after b (snd (run_bare p s))), snd (run_bare p s)).
  Proof.
    induction p as [|c k IH]; intros s b Hok.
    - reflexivity.
    - cbn [run_bare run_wrap Adaptors.run_bare Adaptors.run_wrap] in *.
      pose proof (step_spec s b c) as Hstep. unfold meets_spec, Adaptors.meets_spec in Hstep.
      destruct (bare_step s c) as [s1 r].
      destruct (run_bare (k r) s1) as [s2 t] eqn:Hrun.
      cbn [fst snd] in *. cbn [Adaptors.trace_ok] in Hok.
      apply andb_prop in Hok. destruct Hok as [Hhd Htl].
      apply negb_true_iff in Hhd. rewrite (Hstep Hhd).
      specialize (IH r s1 (apply_effect b (effect_of c r))).
      rewrite Hrun in IH. cbn [fst snd] in IH. rewrite (IH Htl).
      reflexivity.
  Qed.

  (** ** Exhaustion *)
  (** Iterator::next / next_back: None from an unfinished bar runs finish_using_style once;
      None on a finished bar changes nothing. *)
  Theorem next_none_finishes (s : S) (b : bar) (s' : S) (back : bool) :
    (if back then i_next_back I s else i_next I s) = (s', None) ->
    let w' := fst (if back then w_next_back S E Item Data I (s, b) else w_next S E Item Data I (s, b)) in
    fst w' = s' /\
    snd w' = (if bar_is_finished b then b else bar_finish_using_style b) /\
    bar_is_finished (snd w') = true.
  Proof.
    intros H. destruct back; unfold w_next, w_next_back; rewrite H; cbn [fst snd].
    all: destruct (bar_is_finished b) eqn:Hf; cbn [negb]; repeat split; try assumption.
    all: apply (bar_finish_spec b (b_on_finish b)).
  Qed.

  (** Stream::poll_next, transcription for every variant: Ready(None) runs finish_using_style
      unless fix 3a319c2 (the guard) is present and the bar is already finished *)
  Theorem poll_next_none s b s' :
    i_poll_next I s = (s', Ready None) ->
    w_poll_next S E Item Data I V (s, b) =
      ((s', if v_stream_end_guard V && bar_is_finished b then b else bar_finish_using_style b),
       Ready None).
  Proof. intros H. unfold w_poll_next. rewrite H. reflexivity. Qed.

End WrapperProofs.

(** ** The spec itself: shapes of [effect_of] (statements about the SPECIFICATION, not the code) *)
Section SpecShape.
  Variables S E Item Data : Type.
  Variable I : inner S E Item Data.
  Local Notation bare_step := (bare_step S E Item Data I).

  Ltac dinner2 :=
    match goal with
    | |- context [i_next I ?a] => destruct (i_next I a)
    | |- context [i_next_back I ?a] => destruct (i_next_back I a)
    | |- context [i_read I ?a ?b] => destruct (i_read I a b)
    | |- context [i_read_vectored I ?a ?b] => destruct (i_read_vectored I a b)
    | |- context [i_read_to_string I ?a] => destruct (i_read_to_string I a)
    | |- context [i_read_exact I ?a ?b] => destruct (i_read_exact I a b)
    | |- context [i_fill_buf I ?a] => destruct (i_fill_buf I a)
    | |- context [i_seek I ?a ?b] => destruct (i_seek I a b)
    | |- context [i_stream_position I ?a] => destruct (i_stream_position I a)
    | |- context [i_write I ?a ?b] => destruct (i_write I a b)
    | |- context [i_write_vectored I ?a ?b] => destruct (i_write_vectored I a b)
    | |- context [i_flush I ?a] => destruct (i_flush I a)
    | |- context [i_poll_write I ?a ?b] => destruct (i_poll_write I a b)
    | |- context [i_poll_write_vectored I ?a ?b] => destruct (i_poll_write_vectored I a b)
    | |- context [i_poll_flush I ?a] => destruct (i_poll_flush I a)
    | |- context [i_poll_shutdown I ?a] => destruct (i_poll_shutdown I a)
    | |- context [i_poll_read I ?a ?b ?c] => destruct (i_poll_read I a b c)
    | |- context [i_start_seek I ?a ?b] => destruct (i_start_seek I a b)
    | |- context [i_poll_complete I ?a] => destruct (i_poll_complete I a)
    | |- context [i_poll_fill_buf I ?a] => destruct (i_poll_fill_buf I a)
    | |- context [i_poll_next I ?a] => destruct (i_poll_next I a)
    end.

  (** Err => the spec prescribes nothing (read_exact included: interpretation I1; the one
      exception, poll_read, is not in [ret_is_err]: see [poll_read_counts]) *)
  Theorem err_counts_nothing s c :
    ret_is_err E Item Data (snd (bare_step s c)) = true ->
    effect_of E Item Data c (snd (bare_step s c)) = ENothing.
  Proof.
    destruct c; cbn [bare_step Adaptors.bare_step]; try dinner2;
      repeat (cbn [snd ret_is_err effect_of];
              match goal with
              | |- context [match ?x with _ => _ end] => is_var x; destruct x
              end);
      cbn [snd ret_is_err effect_of]; intros H; try discriminate; reflexivity.
  Qed.

  (** Pending => the spec prescribes nothing (poll_read included: interpretation I2) *)
  Theorem pending_counts_nothing s c :
    ret_is_pending E Item Data (snd (bare_step s c)) = true ->
    effect_of E Item Data c (snd (bare_step s c)) = ENothing.
  Proof.
    destruct c; cbn [bare_step Adaptors.bare_step]; try dinner2;
      repeat (cbn [snd ret_is_pending effect_of];
              match goal with
              | |- context [match ?x with _ => _ end] => is_var x; destruct x
              end);
      cbn [snd ret_is_pending effect_of]; intros H; try discriminate; reflexivity.
  Qed.

  (** poll_read: the spec counts the growth of the filled region on every Ready, Ok or Err *)
  Theorem poll_read_counts s f cap s' d f' x :
    i_poll_read I s f cap = (s', (d, f', Ready x)) ->
    effect_of E Item Data (CPollRead f cap) (snd (bare_step s (CPollRead f cap))) = EAdd (f' - f).
  Proof.
    intros H. cbn [bare_step Adaptors.bare_step]. rewrite H. reflexivity.
  Qed.
End SpecShape.

(** ** Closed forms over a trace of prescribed effects *)
Section Traces.
  Variables E Item Data : Type.
  Local Notation bar_after := (bar_after E Item Data).
  Local Notation eff := (eff E Item Data).
  Local Notation adds_only := (adds_only E Item Data).
  Local Notation moved := (moved E Item Data).

  Lemma bar_after_app b t1 t2 : bar_after b (t1 ++ t2) = bar_after (bar_after b t1) t2.
  Proof. unfold bar_after, Adaptors.bar_after. apply fold_left_app. Qed.

  Theorem bar_after_adds t : forall b,
    adds_only t = true -> b_pos b < U64 ->
    b_pos (bar_after b t) = (b_pos b + moved t) mod U64 /\ same_but_pos b (bar_after b t).
  Proof.
    induction t as [|cr t IH]; intros b Ha Hb.
    - cbn. rewrite N.add_0_r, N.mod_small by exact Hb. split; [reflexivity|apply same_but_pos_refl].
    - cbn [adds_only Adaptors.adds_only forallb] in Ha. apply andb_prop in Ha. destruct Ha as [Hh Ht].
      unfold bar_after, Adaptors.bar_after in *. cbn [fold_left moved Adaptors.moved fold_right].
      fold (eff cr). fold (moved t).
      destruct (eff cr) as [n| | |] eqn:He; try discriminate; cbn [apply_effect].
      + destruct (IH (bar_inc b n) Ht (wadd64_lt _ _)) as [Hp Hs]. split.
        * rewrite Hp. cbn [bar_inc b_pos]. unfold wadd64.
          rewrite N.add_mod_idemp_l by discriminate. f_equal. lia.
        * eapply same_but_pos_trans; [apply bar_inc_same | exact Hs].
      + apply IH; assumption.
  Qed.

  (** ... and after a seek that arrived at [p]: p + what was moved since *)
  Theorem bar_after_seek_then_adds t1 cr t2 b p :
    eff cr = ESet p -> p < U64 -> adds_only t2 = true ->
    b_pos (bar_after b (t1 ++ cr :: t2)) = (p + moved t2) mod U64.
  Proof.
    intros He Hp Ha. rewrite bar_after_app.
    change (cr :: t2) with ([cr] ++ t2). rewrite bar_after_app.
    set (b1 := bar_after b t1).
    assert (Hb2 : b_pos (bar_after b1 [cr]) = p).
    { unfold bar_after, Adaptors.bar_after. cbn [fold_left]. fold (eff cr). rewrite He. reflexivity. }
    destruct (bar_after_adds t2 (bar_after b1 [cr]) Ha) as [H _]; [rewrite Hb2; exact Hp|].
    rewrite H, Hb2. reflexivity.
  Qed.
End Traces.

(* ------------------------------------------------------------------ *)
(** * /repo HEAD ([head_code]): the property holds for EVERY call, no class excluded *)
Section Head.
  Variables S E Item Data : Type.
  Variable I : inner S E Item Data.
  Variable B : buffers Data.

  Lemma head_no_dev b (c : call Data) (r : ret E Item Data) :
    known_dev E Item Data head_code b c r = false.
  Proof.
    destruct c, r; cbn [known_dev]; try reflexivity;
      repeat (match goal with
              | |- context [match ?x with _ => _ end] => is_var x; destruct x
              end; cbn [known_dev]); reflexivity.
  Qed.

  Lemma head_trace_ok t : forall b, trace_ok E Item Data head_code b t = true.
  Proof.
    induction t as [|[c r] t IH]; intros b; [reflexivity|].
    cbn [trace_ok]. rewrite head_no_dev, IH. reflexivity.
  Qed.

  Theorem step_spec_head s b c : meets_spec S E Item Data I head_code B s b c.
  Proof. apply step_spec. apply head_no_dev. Qed.

  Theorem step_transparent_head s b c w' r :
    wrap_step S E Item Data I head_code B (s, b) c = Ok (w', r) ->
    (fst w', r) = bare_step S E Item Data I s c.
  Proof. apply step_transparent. apply head_no_dev. Qed.

  Theorem step_counts_head s b c w' r :
    wrap_step S E Item Data I head_code B (s, b) c = Ok (w', r) ->
    snd w' = apply_effect b (effect_of E Item Data c (snd (bare_step S E Item Data I s c))).
  Proof. apply step_counts. apply head_no_dev. Qed.

  Theorem never_panics_head s b c :
    ~ exists site, wrap_step S E Item Data I head_code B (s, b) c = Panic site.
  Proof.
    intros [site H]. pose proof (step_spec_head s b c) as Hs.
    unfold meets_spec in Hs. rewrite Hs in H.
    destruct (bare_step S E Item Data I s c). discriminate.
  Qed.

  Theorem prog_spec_head (p : prog E Item Data) s b :
    run_wrap S E Item Data I head_code B p (s, b) =
      Ok ((fst (run_bare S E Item Data I p s),
           bar_after E Item Data b (snd (run_bare S E Item Data I p s))),
          snd (run_bare S E Item Data I p s)).
  Proof. apply prog_spec. apply head_trace_ok. Qed.

  (** streams end like iterators *)
  Theorem poll_next_none_head s b s' :
    i_poll_next I s = (s', Ready None) ->
    w_poll_next S E Item Data I head_code (s, b) =
      ((s', if bar_is_finished b then b else bar_finish_using_style b), Ready None).
  Proof. intros H. rewrite (poll_next_none _ _ _ _ _ _ _ _ _ H). reflexivity. Qed.
End Head.

(** * Interpretation I1 (same code in every variant, HEAD included) *)
Section InterpretationI1.
  Variables S E Item Data : Type.
  Variable I : inner S E Item Data.

  (** read_exact (interpretation I1, same in every variant): an Err counts 0 even when the inner
      reader handed over bytes before failing ([d] is whatever reached the caller's buffer) *)
  Theorem read_exact_err_counts_nothing s b n s' d e :
    i_read_exact I s n = (s', (d, IoErr e)) ->
    w_read_exact S E Item Data I (s, b) n = ((s', b), (d, IoErr e)).
  Proof. intros H. unfold w_read_exact. rewrite H. reflexivity. Qed.
End InterpretationI1.

(* ------------------------------------------------------------------ *)
(** * Regression: the tree before fixes 7fc986e 3a319c2 c811d79 2747e49 ([pre_fix_code]):
      transcription lemmas for the four calls that deviated, and refutations *)
Section PreFix.
  Variables S E Item Data : Type.
  Variable I : inner S E Item Data.
  Variable B : buffers Data.

  (** Stream::poll_next before 3a319c2: Ready(None) ALWAYS ran finish_using_style (no is_finished test) *)
  Theorem poll_next_none_pre_fix s b s' :
    i_poll_next I s = (s', Ready None) ->
    w_poll_next S E Item Data I pre_fix_code (s, b) = ((s', bar_finish_using_style b), Ready None).
  Proof. intros H. rewrite (poll_next_none _ _ _ _ _ _ _ _ _ H). reflexivity. Qed.

  (** Stream::size_hint before 7fc986e was futures' default *)
  Theorem pre_fix_stream_size_hint_default w :
    wrap_step S E Item Data I pre_fix_code B w CStreamSizeHint = Ok (w, RHint (0, None)).
  Proof. reflexivity. Qed.

  (** poll_write_vectored / is_write_vectored before 2747e49 were tokio's defaults: the inner object's
      own methods were never called; the count was still what the inner poll_write reported *)
  Theorem pre_fix_poll_write_vectored_default w ds :
    wrap_step S E Item Data I pre_fix_code B w (CPollWriteVectored ds) =
    wrap_step S E Item Data I pre_fix_code B w (CPollWrite (first_nonempty Data B ds)).
  Proof. reflexivity. Qed.

  Theorem pre_fix_is_write_vectored_default w :
    wrap_step S E Item Data I pre_fix_code B w CIsWriteVectored = Ok (w, RBool false).
  Proof. reflexivity. Qed.
End PreFix.

(** Refutations of [meets_spec] for the pre-fix tree, one witness per class, on the harness's
    scripted object (each witness is in the corpus of c17.rs, where HEAD must now PASS it). *)
Definition sc_state (evs : list ev) : sstate := {| s_evs := evs; s_ctr := 0; s_sink := 0 |}.
Definition finished_bar : bar :=
  {| b_pos := 3; b_len := Some 10; b_status := DoneVisible; b_msg := []; b_on_finish := AndLeave |}.

Theorem pre_fix_stream_size_hint_refuted :
  exists s b, known_dev N N (list N) pre_fix_code b CStreamSizeHint
                (snd (bare_step _ _ _ _ scripted s CStreamSizeHint)) = true
    /\ ~ meets_spec _ _ _ _ scripted pre_fix_code sbuf s b CStreamSizeHint.
Proof.
  exists (sc_state [EvItem 1; EvItem 2]), (bar0 (Some 5) 0 AndLeave).
  split; [reflexivity|]. unfold meets_spec. vm_compute. discriminate.
Qed.

Theorem pre_fix_stream_end_refuted :
  exists s b, known_dev N N (list N) pre_fix_code b CPollNext
                (snd (bare_step _ _ _ _ scripted s CPollNext)) = true
    /\ ~ meets_spec _ _ _ _ scripted pre_fix_code sbuf s b CPollNext.
Proof.
  exists (sc_state [EvEnd]), finished_bar.
  split; [reflexivity|]. unfold meets_spec. vm_compute. discriminate.
Qed.

Theorem pre_fix_poll_read_shrink_refuted :
  exists s b, known_dev N N (list N) pre_fix_code b (CPollRead 2 8)
                (snd (bare_step _ _ _ _ scripted s (CPollRead 2 8))) = true
    /\ ~ meets_spec _ _ _ _ scripted pre_fix_code sbuf s b (CPollRead 2 8).
Proof.
  exists (sc_state [EvShrink 1]), (bar0 (Some 5) 0 AndLeave).
  split; [reflexivity|]. unfold meets_spec. vm_compute. discriminate.
Qed.

Theorem pre_fix_async_write_vectored_refuted :
  exists s b, known_dev N N (list N) pre_fix_code b (CPollWriteVectored [[1; 2]; [3; 4; 5]])
                (snd (bare_step _ _ _ _ scripted s (CPollWriteVectored [[1; 2]; [3; 4; 5]]))) = true
    /\ ~ meets_spec _ _ _ _ scripted pre_fix_code sbuf s b (CPollWriteVectored [[1; 2]; [3; 4; 5]]).
Proof.
  exists (sc_state [EvN 4]), (bar0 (Some 5) 0 AndLeave).
  split; [reflexivity|]. unfold meets_spec. vm_compute. discriminate.
Qed.

Theorem pre_fix_is_write_vectored_refuted :
  exists s b, known_dev N N (list N) pre_fix_code b CIsWriteVectored
                (snd (bare_step _ _ _ _ scripted s CIsWriteVectored)) = true
    /\ ~ meets_spec _ _ _ _ scripted pre_fix_code sbuf s b CIsWriteVectored.
Proof.
  exists (sc_state []), (bar0 (Some 5) 0 AndLeave).
  split; [reflexivity|]. unfold meets_spec. vm_compute. discriminate.
Qed.

(** what finish_using_style leaves in the getters *)
Theorem finish_using_style_spec b :
  let b' := bar_finish_using_style b in
  bar_is_finished b' = true
  /\ b_pos b' = (match b_len b with
                 | Some l => if finish_sets_pos (b_on_finish b) then l else b_pos b
                 | None => b_pos b
                 end)
  /\ b_msg b' = (match finish_message (b_on_finish b) with Some m => m | None => b_msg b end)
  /\ b_len b' = b_len b /\ b_on_finish b' = b_on_finish b.
Proof.
  destruct (bar_finish_spec b (b_on_finish b)) as (H1 & H2 & H3 & H4 & H5 & _).
  repeat split; assumption.
Qed.

(** why the pre-3a319c2 behaviour mattered: re-finishing a finished bar can move the position *)
Theorem stream_refinish_observable :
  exists b, bar_is_finished b = true /\ b_pos (bar_finish_using_style b) <> b_pos b.
Proof.
  exists {| b_pos := 3; b_len := Some 5; b_status := DoneVisible; b_msg := []; b_on_finish := AndLeave |}.
  split; [reflexivity | discriminate].
Qed.

(* ------------------------------------------------------------------ *)
(** * rayon *)
Section RayonProofs.
  Variables Item C F R Res P It : Type.
  Variable c_split_at : C -> N -> C * C * R.
  Variable c_split_off_left : C -> C.
  Variable c_to_reducer : C -> R.
  Variable c_into_folder : C -> F.
  Variable f_consume : F -> Item -> F.
  Variable f_complete : F -> Res.
  Variable r_reduce : R -> Res -> Res -> Res.
  Variable p_split_at : P -> N -> P * P.
  Variable p_into_iter : P -> It.
  Variable it_next : It -> It * option Item.
  Variable it_next_back : It -> It * option Item.

  Local Notation drive_bare :=
    (drive_bare Item C F R Res c_split_at c_split_off_left c_to_reducer c_into_folder
                f_consume f_complete r_reduce).
  Local Notation drive_wrap :=
    (drive_wrap Item C F R Res c_split_at c_split_off_left c_to_reducer c_into_folder
                f_consume f_complete r_reduce).
  Local Notation pf_consume := (pf_consume Item F f_consume).
  Local Notation leaf_bare := (leaf_bare Item It it_next it_next_back).
  Local Notation leaf_wrap := (leaf_wrap Item It it_next it_next_back).
  Local Notation produce_bare := (produce_bare Item P It p_split_at p_into_iter it_next it_next_back).
  Local Notation produce_wrap := (produce_wrap Item P It p_split_at p_into_iter it_next it_next_back).

  (** a ProgressFolder is the base folder + one inc(1) per consumed item *)
  Lemma fold_pf_consume items : forall f evs,
    fold_left pf_consume items (f, evs) =
      (fold_left f_consume items f, evs ++ repeat 1 (length items)).
  Proof.
    induction items as [|x items IH]; intros f evs; cbn [fold_left length repeat].
    - rewrite app_nil_r. reflexivity.
    - unfold Adaptors.pf_consume at 2. rewrite IH. rewrite <- app_assoc. reflexivity.
  Qed.

  (** consumer path (drive / drive_unindexed): for EVERY split tree the result is the base
      consumer's result and every leaf performs exactly one inc(1) per item it consumed *)
  Theorem rayon_consumer_spec (t : dtree Item) : forall c,
    drive_wrap c t =
      (drive_bare c t, map (fun items => repeat 1 (length items)) (dleaves Item t)).
  Proof.
    induction t as [items | i l IHl r IHr | l IHl r IHr]; intros c;
      cbn [Adaptors.drive_wrap Adaptors.drive_bare dleaves map].
    - rewrite fold_pf_consume. reflexivity.
    - destruct (c_split_at c i) as [[cl cr] red]. rewrite IHl, IHr, map_app. reflexivity.
    - rewrite IHl, IHr, map_app. reflexivity.
  Qed.

  (** one part of a split producer: same items, same iterator state, one inc(1) per Some *)
  Lemma leaf_wrap_spec calls : forall it,
    leaf_wrap it calls =
      (leaf_bare it calls, repeat 1 (count_some Item (snd (leaf_bare it calls)))).
  Proof.
    induction calls as [|c calls IH]; intros it; cbn [Adaptors.leaf_wrap Adaptors.leaf_bare].
    - reflexivity.
    - destruct (it_call Item It it_next it_next_back it c) as [it' o]. rewrite IH.
      destruct (leaf_bare it' calls) as [it'' os]. cbn [snd].
      destruct o; reflexivity.
  Qed.

  (** producer path (with_producer): for EVERY split tree and every use of the leaf iterators *)
  Theorem rayon_producer_spec (t : ptree) : forall p,
    produce_wrap p t =
      (produce_bare p t,
       map (fun l => repeat 1 (count_some Item (snd l))) (produce_bare p t)).
  Proof.
    induction t as [calls | i l IHl r IHr]; intros p;
      cbn [Adaptors.produce_wrap Adaptors.produce_bare map].
    - rewrite leaf_wrap_spec. destruct (leaf_bare (p_into_iter p) calls) as [it os]. reflexivity.
    - destruct (p_split_at p i) as [pl pr]. rewrite IHl, IHr, map_app. reflexivity.
  Qed.
End RayonProofs.

(** every schedule of the leaves' increments gives the same bar *)
Definition sum_all (ts : list (list N)) : N := fold_right N.add 0 (concat ts).

Lemma sum_all_app a b : sum_all (a ++ b) = sum_all a + sum_all b.
Proof.
  unfold sum_all. rewrite concat_app, fold_right_app.
  generalize (concat a) as l. induction l as [|x l IH]; cbn [fold_right]; [lia|].
  rewrite IH. lia.
Qed.

Lemma sum_all_cons_nil ts : Forall (fun t => t = []) ts -> sum_all ts = 0.
Proof.
  induction 1 as [|t ts Ht _ IH]; [reflexivity|]. subst. exact IH.
Qed.

Lemma sum_all_step pre (x : N) t post :
  sum_all (pre ++ (x :: t) :: post) = x + sum_all (pre ++ t :: post).
Proof.
  rewrite !sum_all_app. change ((x :: t) :: post) with ([x :: t] ++ post).
  change (t :: post) with ([t] ++ post). rewrite !sum_all_app.
  unfold sum_all at 2 5. cbn [concat app fold_right]. rewrite !app_nil_r.
  cbn [fold_right]. lia.
Qed.

Theorem interleave_incs ts l : Interleave ts l ->
  forall b, b_pos b < U64 ->
    b_pos (bar_run_incs b l) = (b_pos b + sum_all ts) mod U64
    /\ same_but_pos b (bar_run_incs b l).
Proof.
  induction 1 as [ts Hn | pre x t post l HI IH]; intros b Hb.
  - cbn. rewrite (sum_all_cons_nil ts Hn), N.add_0_r, N.mod_small by exact Hb.
    split; [reflexivity | apply same_but_pos_refl].
  - unfold bar_run_incs in *. cbn [fold_left].
    destruct (IH (bar_inc b x) (wadd64_lt _ _)) as [Hp Hs]. split.
    + rewrite Hp, sum_all_step. cbn [bar_inc b_pos]. unfold wadd64.
      rewrite N.add_mod_idemp_l by discriminate. f_equal. lia.
    + eapply same_but_pos_trans; [apply bar_inc_same | exact Hs].
Qed.

Lemma sum_all_ones {A} (f : A -> nat) (xs : list A) :
  sum_all (map (fun x => repeat 1 (f x)) xs) = N.of_nat (fold_right (fun x a => (f x + a)%nat) 0%nat xs).
Proof.
  induction xs as [|x xs IH]; [reflexivity|].
  cbn [map fold_right]. change (repeat 1 (f x) :: map (fun x0 => repeat 1 (f x0)) xs)
    with ([repeat 1 (f x)] ++ map (fun x0 => repeat 1 (f x0)) xs).
  rewrite sum_all_app, IH. unfold sum_all at 1. cbn [concat]. rewrite app_nil_r.
  assert (H : forall n, fold_right N.add 0 (repeat 1 n) = N.of_nat n).
  { induction n as [|n IHn]; [reflexivity|]. cbn [repeat fold_right]. rewrite IHn. lia. }
  rewrite H. lia.
Qed.

(** the evaluation order used by [adaptors_check] for rayon cases *)
Lemma iter_inc_spec n : forall b, b_pos b < U64 ->
  b_pos (N.iter n (fun b => bar_inc b 1) b) = (b_pos b + n) mod U64
  /\ same_but_pos b (N.iter n (fun b => bar_inc b 1) b).
Proof.
  induction n as [|n IH] using N.peano_ind; intros b Hb.
  - cbn. rewrite N.add_0_r, N.mod_small by exact Hb. split; [reflexivity|apply same_but_pos_refl].
  - rewrite N.iter_succ. destruct (IH b Hb) as [Hp Hs]. split.
    + cbn [bar_inc b_pos]. rewrite Hp. unfold wadd64.
      rewrite N.add_mod_idemp_l by discriminate. f_equal. lia.
    + eapply same_but_pos_trans; [exact Hs | apply bar_inc_same].
Qed.

Section RayonCount.
  Variables Item C F R Res P It : Type.
  Variable c_split_at : C -> N -> C * C * R.
  Variable c_split_off_left : C -> C.
  Variable c_to_reducer : C -> R.
  Variable c_into_folder : C -> F.
  Variable f_consume : F -> Item -> F.
  Variable f_complete : F -> Res.
  Variable r_reduce : R -> Res -> Res -> Res.
  Variable p_split_at : P -> N -> P * P.
  Variable p_into_iter : P -> It.
  Variable it_next : It -> It * option Item.
  Variable it_next_back : It -> It * option Item.

  (** drive / drive_unindexed: every split tree, every schedule *)
  Theorem rayon_consumer_count (c : C) (t : dtree Item) (l : list N) (b : bar) :
    let w := drive_wrap Item C F R Res c_split_at c_split_off_left c_to_reducer c_into_folder
                        f_consume f_complete r_reduce c t in
    Interleave (snd w) l -> b_pos b < U64 ->
    fst w = drive_bare Item C F R Res c_split_at c_split_off_left c_to_reducer c_into_folder
                       f_consume f_complete r_reduce c t
    /\ b_pos (bar_run_incs b l) = (b_pos b + N.of_nat (items_consumed Item t)) mod U64
    /\ same_but_pos b (bar_run_incs b l).
  Proof.
    cbn zeta. rewrite rayon_consumer_spec. cbn [fst snd]. intros HI Hb.
    split; [reflexivity|].
    destruct (interleave_incs _ _ HI b Hb) as [Hp Hs].
    rewrite Hp, (sum_all_ones (@length Item)). split; [reflexivity | exact Hs].
  Qed.

  (** with_producer: every split tree, every use of the parts' iterators, every schedule *)
  Theorem rayon_producer_count (p : P) (t : ptree) (l : list N) (b : bar) :
    let w := produce_wrap Item P It p_split_at p_into_iter it_next it_next_back p t in
    let bare := produce_bare Item P It p_split_at p_into_iter it_next it_next_back p t in
    Interleave (snd w) l -> b_pos b < U64 ->
    fst w = bare
    /\ b_pos (bar_run_incs b l) = (b_pos b + N.of_nat (items_yielded Item It bare)) mod U64
    /\ same_but_pos b (bar_run_incs b l).
  Proof.
    cbn zeta. rewrite rayon_producer_spec. cbn [fst snd]. intros HI Hb.
    split; [reflexivity|].
    destruct (interleave_incs _ _ HI b Hb) as [Hp Hs].
    rewrite Hp, (sum_all_ones (fun l0 : It * list (option Item) => count_some Item (snd l0))).
    split; [reflexivity | exact Hs].
  Qed.
End RayonCount.

(** every list of per-leaf increment lists has at least one schedule (the sequential one) *)
Lemma interleave_exists {A} (ts : list (list A)) : Interleave ts (concat ts).
Proof.
  induction ts as [|t ts IH]; [apply Interleave_nil; constructor|].
  cbn [concat]. induction t as [|x t IHt]; cbn [app].
  - clear - IH. remember (concat ts) as l eqn:Hl. clear Hl.
    induction IH as [ts Hn | pre x t post l HI IH2].
    + apply Interleave_nil. constructor; [reflexivity | exact Hn].
    + apply (Interleave_cons ([] :: pre) x t post l). exact IH2.
  - apply (Interleave_cons [] x t ts). exact IHt.
Qed.

