(** C17 – proofs about model/Adaptors.v *)
From IndModel Require Import Base Adaptors.
From Coq Require Import ZArith NArith Lia List Bool.
Import ListNotations.
Open Scope N_scope.

(* ------------------------------------------------------------------ *)
(** * Bar arithmetic *)

Lemma wadd64_wadd64 a d1 d2 : wadd64 (wadd64 a d1) d2 = wadd64 a (d1 + d2).
Proof.
  unfold wadd64. rewrite N.add_mod_idemp_l by discriminate. f_equal. lia.
Qed.

Lemma wadd64_0 a : a < U64 -> wadd64 a 0 = a.
Proof. intros H. unfold wadd64. rewrite N.add_0_r. apply N.mod_small. exact H. Qed.

Lemma wadd64_lt a d : wadd64 a d < U64.
Proof. apply N.mod_lt. discriminate. Qed.

Definition same_but_pos (b b' : bar) : Prop :=
  b_len b' = b_len b /\ b_status b' = b_status b /\ b_msg b' = b_msg b
  /\ b_on_finish b' = b_on_finish b.

Lemma same_but_pos_refl b : same_but_pos b b.
Proof. repeat split. Qed.

Lemma same_but_pos_trans a b c : same_but_pos a b -> same_but_pos b c -> same_but_pos a c.
Proof.
  unfold same_but_pos. intros (H1 & H2 & H3 & H4) (K1 & K2 & K3 & K4).
  repeat split; congruence.
Qed.

Lemma bar_inc_same b d : same_but_pos b (bar_inc b d).
Proof. repeat split. Qed.

Lemma bar_set_position_same b p : same_but_pos b (bar_set_position b p).
Proof. repeat split. Qed.

(** finishing *)
Definition finish_sets_pos (f : finish) : bool :=
  match f with AndLeave | WithMessage _ | AndClear => true | _ => false end.
Definition finish_message (f : finish) : option (list N) :=
  match f with WithMessage m | AbandonWithMessage m => Some m | _ => None end.

Lemma bar_finish_spec b f :
  let b' := bar_finish b f in
  bar_is_finished b' = true
  /\ b_pos b' = (match b_len b with
                 | Some l => if finish_sets_pos f then l else b_pos b
                 | None => b_pos b
                 end)
  /\ b_msg b' = (match finish_message f with Some m => m | None => b_msg b end)
  /\ b_len b' = b_len b /\ b_on_finish b' = b_on_finish b
  /\ b_status b' = (match f with AndClear => DoneHidden | _ => DoneVisible end).
Proof.
  destruct f; cbn; destruct (b_len b); repeat split; reflexivity.
Qed.

(* ------------------------------------------------------------------ *)
(** * One call: the adaptor = the bare call + the specified effect on the bar *)
Section WrapperProofs.
  Variables S E Item Data : Type.
  Variable I : inner S E Item Data.

  Local Notation bare_step := (bare_step S E Item Data I).
  Local Notation wrap_step := (wrap_step S E Item Data I).
  Local Notation run_bare := (run_bare S E Item Data I).
  Local Notation run_wrap := (run_wrap S E Item Data I).
  Local Notation call := (call Data).
  Local Notation ret := (ret E Item Data).

  Ltac dinner :=
    match goal with
    | |- context [i_next I ?a] => destruct (i_next I a)
    | |- context [i_next_back I ?a] => destruct (i_next_back I a)
    | |- context [i_read I ?a ?b] => destruct (i_read I a b)
    | |- context [i_read_vectored I ?a ?b] => destruct (i_read_vectored I a b)
    | |- context [i_read_to_string I ?a] => destruct (i_read_to_string I a)
    | |- context [i_read_exact I ?a ?b] => destruct (i_read_exact I a b)
    | |- context [i_fill_buf I ?a] => destruct (i_fill_buf I a)
    | |- context [i_seek I ?a ?b] => destruct (i_seek I a b)
    | |- context [i_stream_position I ?a] => destruct (i_stream_position I a)
    | |- context [i_write I ?a ?b] => destruct (i_write I a b)
    | |- context [i_write_vectored I ?a ?b] => destruct (i_write_vectored I a b)
    | |- context [i_flush I ?a] => destruct (i_flush I a)
    | |- context [i_poll_write I ?a ?b] => destruct (i_poll_write I a b)
    | |- context [i_poll_flush I ?a] => destruct (i_poll_flush I a)
    | |- context [i_poll_shutdown I ?a] => destruct (i_poll_shutdown I a)
    | |- context [i_poll_read I ?a ?b ?c] => destruct (i_poll_read I a b c)
    | |- context [i_start_seek I ?a ?b] => destruct (i_start_seek I a b)
    | |- context [i_poll_complete I ?a] => destruct (i_poll_complete I a)
    | |- context [i_poll_fill_buf I ?a] => destruct (i_poll_fill_buf I a)
    | |- context [i_poll_next I ?a] => destruct (i_poll_next I a)
    end.

  Theorem step_spec (s : S) (b : bar) (c : call) :
    wrap_step (s, b) c =
      (let '(s', r) := bare_step s c in
       if readbuf_ok E Item Data c r
       then Ok ((s', apply_effect b (effect_of E Item Data c r)),
                if not_forwarded Data c then RHint (0, None) else r)
       else Panic 1).
  Proof.
    destruct c; cbn [bare_step wrap_step Adaptors.bare_step Adaptors.wrap_step readbuf_ok not_forwarded].
    all: unfold w_next, w_next_back, w_size_hint, w_len, w_read, w_read_vectored,
           w_read_to_string, w_read_exact, w_fill_buf, w_consume, w_seek, w_stream_position,
           w_write, w_write_vectored, w_flush, w_poll_write, w_poll_flush, w_poll_shutdown,
           w_poll_read, w_start_seek, w_poll_complete, w_poll_fill_buf, w_aconsume, w_poll_next,
           w_stream_size_hint.
    all: cbn [fst snd].
    all: try dinner.
    all: repeat match goal with
         | |- context [match ?x with _ => _ end] => is_var x; destruct x
         end; cbn [effect_of apply_effect readbuf_ok fst snd negb]; try reflexivity.
    - destruct (bar_is_finished b); reflexivity.
    - destruct (bar_is_finished b); reflexivity.
    - match goal with |- context [?x <? ?y] =>
        destruct (N.ltb_spec x y) as [Hlt|Hge]; destruct (N.leb_spec y x) as [Hle|Hgt];
        try lia; reflexivity end.
  Qed.

  (** Corollaries of [step_spec] in the shape of the property text. *)

  (** transparency: result and inner state are those of the bare call *)
  Theorem step_transparent s b c w' r :
    not_forwarded Data c = false ->
    wrap_step (s, b) c = Ok (w', r) ->
    (fst w', r) = bare_step s c.
  Proof.
    intros Hnf H. rewrite step_spec in H. destruct (bare_step s c) as [s' r0].
    rewrite Hnf in H. destruct (readbuf_ok E Item Data c r0); [|discriminate].
    inversion H; subst. reflexivity.
  Qed.

  (** the adaptor panics in exactly one situation: the inner AsyncRead shrank ReadBuf::filled *)
  Theorem step_panics_iff s b c :
    (exists site, wrap_step (s, b) c = Panic site) <->
    (exists f cap d f' x, c = CPollRead f cap /\
       snd (bare_step s c) = RPollRead d f' (Ready x) /\ f' < f).
  Proof.
    rewrite step_spec. destruct (bare_step s c) as [s' r] eqn:Hb. cbn [snd]. split.
    - intros [site H]. destruct (readbuf_ok E Item Data c r) eqn:Hr; [discriminate|].
      destruct c; cbn [readbuf_ok] in Hr; try discriminate.
      destruct r; try discriminate. destruct r; try discriminate.
      apply N.leb_gt in Hr. do 5 eexists. split; [reflexivity|]. split; [reflexivity | exact Hr].
    - intros (f & cap & d & f' & x & Hc & Hr & Hlt). subst c r.
      exists 1. cbn [readbuf_ok]. apply N.leb_gt in Hlt. rewrite Hlt. reflexivity.
  Qed.

  (** counting: the bar after the call is the bar before + the effect the property prescribes
      for what the BARE call returned *)
  Theorem step_counts s b c w' r :
    wrap_step (s, b) c = Ok (w', r) ->
    snd w' = apply_effect b (effect_of E Item Data c (snd (bare_step s c))).
  Proof.
    intros H. rewrite step_spec in H. destruct (bare_step s c) as [s' r0]. cbn [snd].
    destruct (readbuf_ok E Item Data c r0); [|discriminate].
    inversion H; subst. reflexivity.
  Qed.

  (** the shapes of [effect_of] on the results a bare call can produce *)
  Definition ret_is_err (r : ret) : bool :=
    match r with
    | RCount _ (IoErr _) | RExact _ (IoErr _) | RSlice (IoErr _) | RNum (IoErr _)
    | RDone (IoErr _) | RPollNum (Ready (IoErr _)) | RPollDone (Ready (IoErr _))
    | RPollSlice (Ready (IoErr _)) => true
    | _ => false
    end.
  Definition ret_is_pending (r : ret) : bool :=
    match r with
    | RPollNum Pending | RPollDone Pending | RPollRead _ _ Pending | RPollSlice Pending
    | RPollItem Pending => true
    | _ => false
    end.

  (** Err => nothing is counted (read_exact included, whatever it transferred before failing;
      the one exception, poll_read, is not in [ret_is_err]: see [poll_read_counts]) *)
  Theorem err_counts_nothing s c :
    ret_is_err (snd (bare_step s c)) = true ->
    effect_of E Item Data c (snd (bare_step s c)) = ENothing.
  Proof.
    destruct c; cbn [bare_step Adaptors.bare_step]; try dinner;
      repeat (cbn [snd ret_is_err effect_of];
              match goal with
              | |- context [match ?x with _ => _ end] => is_var x; destruct x
              end);
      cbn [snd ret_is_err effect_of]; intros H; try discriminate; reflexivity.
  Qed.

  (** Pending => nothing is counted *)
  Theorem pending_counts_nothing s c :
    ret_is_pending (snd (bare_step s c)) = true ->
    effect_of E Item Data c (snd (bare_step s c)) = ENothing.
  Proof.
    destruct c; cbn [bare_step Adaptors.bare_step]; try dinner;
      repeat (cbn [snd ret_is_pending effect_of];
              match goal with
              | |- context [match ?x with _ => _ end] => is_var x; destruct x
              end);
      cbn [snd ret_is_pending effect_of]; intros H; try discriminate; reflexivity.
  Qed.

  (** poll_read counts the growth of the filled region on every Ready, Ok or Err *)
  Theorem poll_read_counts s f cap s' d f' x :
    i_poll_read I s f cap = (s', (d, f', Ready x)) -> f <= f' ->
    effect_of E Item Data (CPollRead f cap) (snd (bare_step s (CPollRead f cap))) = EAdd (f' - f).
  Proof.
    intros H _. cbn [bare_step Adaptors.bare_step]. rewrite H. reflexivity.
  Qed.

  (** ** Whole callers: any adaptive program over the calls *)
  Local Notation prog := (prog E Item Data).
  Local Notation trace_ok := (trace_ok E Item Data).
  Local Notation bar_after := (bar_after E Item Data).

  Theorem prog_spec (p : prog) : forall s b,
    trace_ok (snd (run_bare p s)) = true ->
    run_wrap p (s, b) =
      Ok ((fst (run_bare p s), bar_after b (snd (run_bare p s))), snd (run_bare p s)).
  Proof.
    induction p as [|c k IH]; intros s b Hok.
    - reflexivity.
    - cbn [run_bare run_wrap Adaptors.run_bare Adaptors.run_wrap] in *.
      rewrite step_spec. destruct (bare_step s c) as [s1 r].
      destruct (run_bare (k r) s1) as [s2 t] eqn:Hrun.
      cbn [fst snd] in *. unfold trace_ok in Hok. cbn [forallb fst snd] in Hok.
      apply andb_prop in Hok. destruct Hok as [Hhd Htl].
      apply andb_prop in Hhd. destruct Hhd as [Hnf Hrb].
      apply negb_true_iff in Hnf. rewrite Hrb, Hnf.
      specialize (IH r s1 (apply_effect b (effect_of E Item Data c r))).
      rewrite Hrun in IH. cbn [fst snd] in IH. rewrite (IH Htl).
      reflexivity.
  Qed.

  Lemma bar_after_app b t1 t2 : bar_after b (t1 ++ t2) = bar_after (bar_after b t1) t2.
  Proof. unfold bar_after, Adaptors.bar_after. apply fold_left_app. Qed.

  (** closed form of the position over a trace that only transfers (no seek, no end) *)
  Definition eff (cr : call * ret) : effect := effect_of E Item Data (fst cr) (snd cr).
  Definition adds_only (t : list (call * ret)) : bool :=
    forallb (fun cr => match eff cr with EAdd _ | ENothing => true | _ => false end) t.
  Definition moved (t : list (call * ret)) : N :=
    fold_right (fun cr a => match eff cr with EAdd n => n + a | _ => a end) 0 t.

  Theorem bar_after_adds t : forall b,
    adds_only t = true -> b_pos b < U64 ->
    b_pos (bar_after b t) = (b_pos b + moved t) mod U64 /\ same_but_pos b (bar_after b t).
  Proof.
    induction t as [|cr t IH]; intros b Ha Hb.
    - cbn. rewrite N.add_0_r, N.mod_small by exact Hb. split; [reflexivity|apply same_but_pos_refl].
    - cbn [adds_only forallb] in Ha. apply andb_prop in Ha. destruct Ha as [Hh Ht].
      unfold bar_after, Adaptors.bar_after in *. cbn [fold_left moved fold_right].
      fold (eff cr). fold (moved t).
      destruct (eff cr) as [n| | | |] eqn:He; try discriminate; cbn [apply_effect].
      + destruct (IH (bar_inc b n) Ht (wadd64_lt _ _)) as [Hp Hs]. split.
        * rewrite Hp. cbn [bar_inc b_pos]. unfold wadd64.
          rewrite N.add_mod_idemp_l by discriminate. f_equal. lia.
        * eapply same_but_pos_trans; [apply bar_inc_same | exact Hs].
      + apply IH; assumption.
  Qed.

  (** ... and after a seek that arrived at [p]: p + what was moved since *)
  Theorem bar_after_seek_then_adds t1 cr t2 b p :
    eff cr = ESet p -> p < U64 -> adds_only t2 = true ->
    b_pos (bar_after b (t1 ++ cr :: t2)) = (p + moved t2) mod U64.
  Proof.
    intros He Hp Ha. rewrite bar_after_app.
    change (cr :: t2) with ([cr] ++ t2). rewrite bar_after_app.
    set (b1 := bar_after b t1).
    assert (Hb2 : b_pos (bar_after b1 [cr]) = p).
    { unfold bar_after, Adaptors.bar_after. cbn [fold_left]. fold (eff cr). rewrite He. reflexivity. }
    destruct (bar_after_adds t2 (bar_after b1 [cr]) Ha) as [H _]; [rewrite Hb2; exact Hp|].
    rewrite H, Hb2. reflexivity.
  Qed.

  (** ** Exhaustion *)
  (** Iterator::next / next_back: None from an unfinished bar runs finish_using_style once;
      None on a finished bar changes nothing. *)
  Theorem next_none_finishes (s : S) (b : bar) (s' : S) (back : bool) :
    (if back then i_next_back I s else i_next I s) = (s', None) ->
    let w' := fst (if back then w_next_back S E Item Data I (s, b) else w_next S E Item Data I (s, b)) in
    fst w' = s' /\
    snd w' = (if bar_is_finished b then b else bar_finish_using_style b) /\
    bar_is_finished (snd w') = true.
  Proof.
    intros H. destruct back; unfold w_next, w_next_back; rewrite H; cbn [fst snd].
    all: destruct (bar_is_finished b) eqn:Hf; cbn [negb]; repeat split; try assumption.
    all: apply (bar_finish_spec b (b_on_finish b)).
  Qed.

  (** Stream::poll_next: Ready(None) ALWAYS runs finish_using_style (no is_finished test) *)
  Theorem poll_next_none_finishes s b s' :
    i_poll_next I s = (s', Ready None) ->
    w_poll_next S E Item Data I (s, b) = ((s', bar_finish_using_style b), Ready None).
  Proof. intros H. unfold w_poll_next. rewrite H. reflexivity. Qed.

End WrapperProofs.

(** what finish_using_style leaves in the getters *)
Theorem finish_using_style_spec b :
  let b' := bar_finish_using_style b in
  bar_is_finished b' = true
  /\ b_pos b' = (match b_len b with
                 | Some l => if finish_sets_pos (b_on_finish b) then l else b_pos b
                 | None => b_pos b
                 end)
  /\ b_msg b' = (match finish_message (b_on_finish b) with Some m => m | None => b_msg b end)
  /\ b_len b' = b_len b /\ b_on_finish b' = b_on_finish b.
Proof.
  destruct (bar_finish_spec b (b_on_finish b)) as (H1 & H2 & H3 & H4 & H5 & _).
  repeat split; assumption.
Qed.

(** the Stream oddity is observable: re-finishing a finished bar can move the position *)
Theorem stream_refinish_observable :
  exists b, bar_is_finished b = true /\ b_pos (bar_finish_using_style b) <> b_pos b.
Proof.
  exists {| b_pos := 3; b_len := Some 5; b_status := DoneVisible; b_msg := []; b_on_finish := AndLeave |}.
  split; [reflexivity | discriminate].
Qed.

(* ------------------------------------------------------------------ *)
(** * rayon *)
Section RayonProofs.
  Variables Item C F R Res P It : Type.
  Variable c_split_at : C -> N -> C * C * R.
  Variable c_split_off_left : C -> C.
  Variable c_to_reducer : C -> R.
  Variable c_into_folder : C -> F.
  Variable f_consume : F -> Item -> F.
  Variable f_complete : F -> Res.
  Variable r_reduce : R -> Res -> Res -> Res.
  Variable p_split_at : P -> N -> P * P.
  Variable p_into_iter : P -> It.
  Variable it_next : It -> It * option Item.
  Variable it_next_back : It -> It * option Item.

  Local Notation drive_bare :=
    (drive_bare Item C F R Res c_split_at c_split_off_left c_to_reducer c_into_folder
                f_consume f_complete r_reduce).
  Local Notation drive_wrap :=
    (drive_wrap Item C F R Res c_split_at c_split_off_left c_to_reducer c_into_folder
                f_consume f_complete r_reduce).
  Local Notation pf_consume := (pf_consume Item F f_consume).
  Local Notation leaf_bare := (leaf_bare Item It it_next it_next_back).
  Local Notation leaf_wrap := (leaf_wrap Item It it_next it_next_back).
  Local Notation produce_bare := (produce_bare Item P It p_split_at p_into_iter it_next it_next_back).
  Local Notation produce_wrap := (produce_wrap Item P It p_split_at p_into_iter it_next it_next_back).

  (** a ProgressFolder is the base folder + one inc(1) per consumed item *)
  Lemma fold_pf_consume items : forall f evs,
    fold_left pf_consume items (f, evs) =
      (fold_left f_consume items f, evs ++ repeat 1 (length items)).
  Proof.
    induction items as [|x items IH]; intros f evs; cbn [fold_left length repeat].
    - rewrite app_nil_r. reflexivity.
    - unfold Adaptors.pf_consume at 2. rewrite IH. rewrite <- app_assoc. reflexivity.
  Qed.

  (** consumer path (drive / drive_unindexed): for EVERY split tree the result is the base
      consumer's result and every leaf performs exactly one inc(1) per item it consumed *)
  Theorem rayon_consumer_spec (t : dtree Item) : forall c,
    drive_wrap c t =
      (drive_bare c t, map (fun items => repeat 1 (length items)) (dleaves Item t)).
  Proof.
    induction t as [items | i l IHl r IHr | l IHl r IHr]; intros c;
      cbn [Adaptors.drive_wrap Adaptors.drive_bare dleaves map].
    - rewrite fold_pf_consume. reflexivity.
    - destruct (c_split_at c i) as [[cl cr] red]. rewrite IHl, IHr, map_app. reflexivity.
    - rewrite IHl, IHr, map_app. reflexivity.
  Qed.

  (** one part of a split producer: same items, same iterator state, one inc(1) per Some *)
  Lemma leaf_wrap_spec calls : forall it,
    leaf_wrap it calls =
      (leaf_bare it calls, repeat 1 (count_some Item (snd (leaf_bare it calls)))).
  Proof.
    induction calls as [|c calls IH]; intros it; cbn [Adaptors.leaf_wrap Adaptors.leaf_bare].
    - reflexivity.
    - destruct (it_call Item It it_next it_next_back it c) as [it' o]. rewrite IH.
      destruct (leaf_bare it' calls) as [it'' os]. cbn [snd].
      destruct o; reflexivity.
  Qed.

  (** producer path (with_producer): for EVERY split tree and every use of the leaf iterators *)
  Theorem rayon_producer_spec (t : ptree) : forall p,
    produce_wrap p t =
      (produce_bare p t,
       map (fun l => repeat 1 (count_some Item (snd l))) (produce_bare p t)).
  Proof.
    induction t as [calls | i l IHl r IHr]; intros p;
      cbn [Adaptors.produce_wrap Adaptors.produce_bare map].
    - rewrite leaf_wrap_spec. destruct (leaf_bare (p_into_iter p) calls) as [it os]. reflexivity.
    - destruct (p_split_at p i) as [pl pr]. rewrite IHl, IHr, map_app. reflexivity.
  Qed.
End RayonProofs.

(** every schedule of the leaves' increments gives the same bar *)
Definition sum_all (ts : list (list N)) : N := fold_right N.add 0 (concat ts).

Lemma sum_all_app a b : sum_all (a ++ b) = sum_all a + sum_all b.
Proof.
  unfold sum_all. rewrite concat_app, fold_right_app.
  generalize (concat a) as l. induction l as [|x l IH]; cbn [fold_right]; [lia|].
  rewrite IH. lia.
Qed.

Lemma sum_all_cons_nil ts : Forall (fun t => t = []) ts -> sum_all ts = 0.
Proof.
  induction 1 as [|t ts Ht _ IH]; [reflexivity|]. subst. exact IH.
Qed.

Lemma sum_all_step pre (x : N) t post :
  sum_all (pre ++ (x :: t) :: post) = x + sum_all (pre ++ t :: post).
Proof.
  rewrite !sum_all_app. change ((x :: t) :: post) with ([x :: t] ++ post).
  change (t :: post) with ([t] ++ post). rewrite !sum_all_app.
  unfold sum_all at 2 5. cbn [concat app fold_right]. rewrite !app_nil_r.
  cbn [fold_right]. lia.
Qed.

Theorem interleave_incs ts l : Interleave ts l ->
  forall b, b_pos b < U64 ->
    b_pos (bar_run_incs b l) = (b_pos b + sum_all ts) mod U64
    /\ same_but_pos b (bar_run_incs b l).
Proof.
  induction 1 as [ts Hn | pre x t post l HI IH]; intros b Hb.
  - cbn. rewrite (sum_all_cons_nil ts Hn), N.add_0_r, N.mod_small by exact Hb.
    split; [reflexivity | apply same_but_pos_refl].
  - unfold bar_run_incs in *. cbn [fold_left].
    destruct (IH (bar_inc b x) (wadd64_lt _ _)) as [Hp Hs]. split.
    + rewrite Hp, sum_all_step. cbn [bar_inc b_pos]. unfold wadd64.
      rewrite N.add_mod_idemp_l by discriminate. f_equal. lia.
    + eapply same_but_pos_trans; [apply bar_inc_same | exact Hs].
Qed.

Lemma sum_all_ones {A} (f : A -> nat) (xs : list A) :
  sum_all (map (fun x => repeat 1 (f x)) xs) = N.of_nat (fold_right (fun x a => (f x + a)%nat) 0%nat xs).
Proof.
  induction xs as [|x xs IH]; [reflexivity|].
  cbn [map fold_right]. change (repeat 1 (f x) :: map (fun x0 => repeat 1 (f x0)) xs)
    with ([repeat 1 (f x)] ++ map (fun x0 => repeat 1 (f x0)) xs).
  rewrite sum_all_app, IH. unfold sum_all at 1. cbn [concat]. rewrite app_nil_r.
  assert (H : forall n, fold_right N.add 0 (repeat 1 n) = N.of_nat n).
  { induction n as [|n IHn]; [reflexivity|]. cbn [repeat fold_right]. rewrite IHn. lia. }
  rewrite H. lia.
Qed.

(** the evaluation order used by [adaptors_check] for rayon cases *)
Lemma iter_inc_spec n : forall b, b_pos b < U64 ->
  b_pos (N.iter n (fun b => bar_inc b 1) b) = (b_pos b + n) mod U64
  /\ same_but_pos b (N.iter n (fun b => bar_inc b 1) b).
Proof.
  induction n as [|n IH] using N.peano_ind; intros b Hb.
  - cbn. rewrite N.add_0_r, N.mod_small by exact Hb. split; [reflexivity|apply same_but_pos_refl].
  - rewrite N.iter_succ. destruct (IH b Hb) as [Hp Hs]. split.
    + cbn [bar_inc b_pos]. rewrite Hp. unfold wadd64.
      rewrite N.add_mod_idemp_l by discriminate. f_equal. lia.
    + eapply same_but_pos_trans; [exact Hs | apply bar_inc_same].
Qed.

Section RayonCount.
  Variables Item C F R Res P It : Type.
  Variable c_split_at : C -> N -> C * C * R.
  Variable c_split_off_left : C -> C.
  Variable c_to_reducer : C -> R.
  Variable c_into_folder : C -> F.
  Variable f_consume : F -> Item -> F.
  Variable f_complete : F -> Res.
  Variable r_reduce : R -> Res -> Res -> Res.
  Variable p_split_at : P -> N -> P * P.
  Variable p_into_iter : P -> It.
  Variable it_next : It -> It * option Item.
  Variable it_next_back : It -> It * option Item.

  Definition items_consumed (t : dtree Item) : nat :=
    fold_right (fun items a => (length items + a)%nat) 0%nat (dleaves Item t).

  Definition items_yielded (ls : list (It * list (option Item))) : nat :=
    fold_right (fun l a => (count_some Item (snd l) + a)%nat) 0%nat ls.

  (** drive / drive_unindexed: every split tree, every schedule *)
  Theorem rayon_consumer_count (c : C) (t : dtree Item) (l : list N) (b : bar) :
    let w := drive_wrap Item C F R Res c_split_at c_split_off_left c_to_reducer c_into_folder
                        f_consume f_complete r_reduce c t in
    Interleave (snd w) l -> b_pos b < U64 ->
    fst w = drive_bare Item C F R Res c_split_at c_split_off_left c_to_reducer c_into_folder
                       f_consume f_complete r_reduce c t
    /\ b_pos (bar_run_incs b l) = (b_pos b + N.of_nat (items_consumed t)) mod U64
    /\ same_but_pos b (bar_run_incs b l).
  Proof.
    cbn zeta. rewrite rayon_consumer_spec. cbn [fst snd]. intros HI Hb.
    split; [reflexivity|].
    destruct (interleave_incs _ _ HI b Hb) as [Hp Hs].
    rewrite Hp, (sum_all_ones (@length Item)). split; [reflexivity | exact Hs].
  Qed.

  (** with_producer: every split tree, every use of the parts' iterators, every schedule *)
  Theorem rayon_producer_count (p : P) (t : ptree) (l : list N) (b : bar) :
    let w := produce_wrap Item P It p_split_at p_into_iter it_next it_next_back p t in
    let bare := produce_bare Item P It p_split_at p_into_iter it_next it_next_back p t in
    Interleave (snd w) l -> b_pos b < U64 ->
    fst w = bare
    /\ b_pos (bar_run_incs b l) = (b_pos b + N.of_nat (items_yielded bare)) mod U64
    /\ same_but_pos b (bar_run_incs b l).
  Proof.
    cbn zeta. rewrite rayon_producer_spec. cbn [fst snd]. intros HI Hb.
    split; [reflexivity|].
    destruct (interleave_incs _ _ HI b Hb) as [Hp Hs].
    rewrite Hp, (sum_all_ones (fun l0 : It * list (option Item) => count_some Item (snd l0))).
    split; [reflexivity | exact Hs].
  Qed.
End RayonCount.

(** every list of per-leaf increment lists has at least one schedule (the sequential one) *)
Lemma interleave_exists {A} (ts : list (list A)) : Interleave ts (concat ts).
Proof.
  induction ts as [|t ts IH]; [apply Interleave_nil; constructor|].
  cbn [concat]. induction t as [|x t IHt]; cbn [app].
  - clear - IH. remember (concat ts) as l eqn:Hl. clear Hl.
    induction IH as [ts Hn | pre x t post l HI IH2].
    + apply Interleave_nil. constructor; [reflexivity | exact Hn].
    + apply (Interleave_cons ([] :: pre) x t post l). exact IH2.
  - apply (Interleave_cons [] x t ts). exact IHt.
Qed.

(** the oddities, stated for the record *)
Section Oddities.
  Variables S E Item Data : Type.
  Variable I : inner S E Item Data.

  (** read_exact: an Err counts 0 even when the inner reader handed over bytes before failing
      ([d] is whatever reached the caller's buffer) *)
  Theorem read_exact_err_counts_nothing s b n s' d e :
    i_read_exact I s n = (s', (d, IoErr e)) ->
    w_read_exact S E Item Data I (s, b) n = ((s', b), (d, IoErr e)).
  Proof. intros H. unfold w_read_exact. rewrite H. reflexivity. Qed.

  (** Stream::size_hint is not forwarded *)
  Theorem stream_size_hint_default w :
    wrap_step S E Item Data I w CStreamSizeHint = Ok (w, RHint (0, None)).
  Proof. reflexivity. Qed.
End Oddities.
