(* GeomCeilProofs: the floating-point ceiling division used by
   /repo/src/draw_target.rs, LineType::wrapped_height,

     (self.console_width() as f64 / width as f64).ceil() as usize

   agrees with the integer ceiling division (cols + width - 1) / width used by
   the Gallina model, for all cols, width < 2^53 with width >= 1.

   [ceil_div_round_exact]      : statement over Z with the binary64 rounding
                                 (round radix2 (FLT_exp (-1074) 53) ZnearestE).
   [wrapped_height_f64_exact]  : the same lifted to N, as used by the model.
   [f64_div_is_rounded_quotient] : Bdiv mode_NE on binary64 values holding the
                                 two integers is finite and is that rounding.

   Proof idea: for a >= 1 write q = ceil(a/b); then b*(q-1) <= a-1 and a <= b*q.
   q <= a < 2^53 is representable, so RN(a/b) <= q by monotonicity.  The relative
   error bound |RN x - x| <= 2^-53 * |x| gives RN x >= x - 2^-53*x, and
   x - (q-1) >= 1/b > 2^-53 * a / b because a < 2^53; hence q-1 < RN x. *)
From Coq Require Import ZArith NArith Reals Lia Lra Psatz.
From Flocq Require Import Core Relative BinarySingleNaN.

Open Scope R_scope.

Notation fexp64 := (FLT_exp (-1074) 53).
Notation RN64 := (round radix2 fexp64 ZnearestE).
Notation fmt64 := (generic_format radix2 fexp64).

#[local] Instance prec_gt_0_53 : Prec_gt_0 53.
Proof. unfold Prec_gt_0. lia. Qed.
#[local] Instance prec_lt_emax_53_1024 : Prec_lt_emax 53 1024.
Proof. unfold Prec_lt_emax. lia. Qed.
#[local] Instance valid_fexp64 : Valid_exp fexp64 := FLT_exp_valid (-1074) 53.

(* Every integer of magnitude below 2^53 is a binary64 number. *)
Lemma fmt64_IZR : forall n : Z, (Z.abs n < 2^53)%Z -> fmt64 (IZR n).
Proof.
  intros n Hn.
  apply generic_format_FLT.
  apply FLT_spec with (f := Float radix2 n 0).
  - unfold F2R. simpl. lra.
  - simpl. exact Hn.
  - simpl. lia.
Qed.

(* Integer facts about the ceiling quotient. *)
Lemma ceil_quot_bounds : forall a b : Z,
  (1 <= a)%Z -> (1 <= b)%Z ->
  let q := ((a + b - 1) / b)%Z in
  (b * (q - 1) <= a - 1 /\ a <= b * q /\ 1 <= q <= a)%Z.
Proof.
  intros a b Ha Hb q.
  pose proof (Z.div_mod (a + b - 1) b ltac:(lia)) as Hdm.
  pose proof (Z.mod_pos_bound (a + b - 1) b ltac:(lia)) as Hm.
  fold q in Hdm.
  assert (Hq1 : (1 <= q)%Z) by nia.
  repeat split; nia.
Qed.

Lemma u53_spec : /2 * bpow radix2 (-(53) + 1) * IZR (2^53) = 1.
Proof.
  change (-(53) + 1)%Z with (-52)%Z.
  change (bpow radix2 (-52)) with (/ IZR (2^52)).
  replace (IZR (2^53)) with (2 * IZR (2^52)) by (rewrite <- mult_IZR; reflexivity).
  assert (H : 0 < IZR (2^52)) by (apply IZR_lt; lia).
  field. lra.
Qed.

Theorem ceil_div_round_exact : forall a b : Z,
  (0 <= a < 2^53)%Z -> (1 <= b < 2^53)%Z ->
  Zceil (round radix2 (FLT_exp (-1074) 53) ZnearestE (IZR a / IZR b)) = ((a + b - 1) / b)%Z.
Proof.
  intros a b Ha Hb.
  destruct (Z.eq_dec a 0) as [Ha0 | Ha0].
  { subst a. unfold Rdiv. rewrite Rmult_0_l, round_0 by auto with typeclass_instances.
    rewrite Zceil_IZR. symmetry. apply Z.div_small. lia. }
  assert (Ha1 : (1 <= a)%Z) by lia.
  destruct (ceil_quot_bounds a b Ha1 ltac:(lia)) as (Hlo & Hhi & Hq).
  set (q := ((a + b - 1) / b)%Z) in *.
  set (x := IZR a / IZR b).
  assert (HB : 1 <= IZR b) by (apply IZR_le; lia).
  assert (HA : 1 <= IZR a) by (apply IZR_le; lia).
  assert (HA53 : IZR a < IZR (2^53)) by (apply IZR_lt; lia).
  assert (HxB : x * IZR b = IZR a) by (unfold x; field; lra).
  assert (Hx0 : 0 < x) by (unfold x; apply Rdiv_lt_0_compat; lra).
  assert (HloR : IZR b * (IZR q - 1) <= IZR a - 1).
  { rewrite <- minus_IZR, <- mult_IZR, <- minus_IZR. apply IZR_le. exact Hlo. }
  assert (HhiR : IZR a <= IZR b * IZR q).
  { rewrite <- mult_IZR. apply IZR_le. exact Hhi. }
  apply Zceil_imp. rewrite minus_IZR. split.
  - (* strict lower bound via the relative error of rounding to nearest *)
    pose proof (relative_error_N_FLT radix2 (-1074) 53 prec_gt_0_53 (fun z => negb (Z.even z)) x) as Herr.
    assert (Hxmin : bpow radix2 (-1074 + 53 - 1) <= Rabs x).
    { rewrite Rabs_pos_eq by lra.
      apply Rle_trans with (bpow radix2 (-53)).
      - apply bpow_le. lia.
      - change (bpow radix2 (-53)) with (/ IZR (2^53)).
        assert (HB53 : IZR b < IZR (2^53)) by (apply IZR_lt; lia).
        assert (H53 : 0 < IZR (2^53)) by (apply IZR_lt; lia).
        apply Rmult_le_reg_r with (IZR b); [lra|].
        apply Rmult_le_reg_l with (IZR (2^53)); [lra|].
        rewrite HxB. field_simplify; [|lra]. nra. }
    specialize (Herr Hxmin).
    rewrite (Rabs_pos_eq x) in Herr by lra.
    set (u := /2 * bpow radix2 (-(53) + 1)) in *.
    pose proof u53_spec as Hu. fold u in Hu.
    assert (Hu0 : 0 < u).
    { unfold u. apply Rmult_lt_0_compat; [lra | apply bpow_gt_0]. }
    assert (HuA : u * IZR a < 1).
    { rewrite <- Hu. apply Rmult_lt_compat_l; assumption. }
    apply Rabs_le_inv in Herr.
    apply Rlt_le_trans with (x - u * x); [|lra].
    apply Rmult_lt_reg_r with (IZR b); [lra|].
    replace ((x - u * x) * IZR b) with (x * IZR b - u * (x * IZR b)) by ring.
    rewrite HxB. lra.
  - (* upper bound by monotonicity, q being representable *)
    rewrite <- (round_generic radix2 fexp64 ZnearestE (IZR q)).
    + apply round_le; auto with typeclass_instances.
      apply Rmult_le_reg_r with (IZR b); [lra|]. rewrite HxB. lra.
    + apply fmt64_IZR. lia.
Qed.

Theorem wrapped_height_f64_exact : forall cols width : N,
  (cols < 2^53)%N -> (1 <= width < 2^53)%N ->
  Z.to_N (Zceil (round radix2 (FLT_exp (-1074) 53) ZnearestE (IZR (Z.of_N cols) / IZR (Z.of_N width))))
  = ((cols + width - 1) / width)%N.
Proof.
  intros cols width Hc Hw.
  assert (H53 : Z.of_N (2^53) = (2^53)%Z) by reflexivity.
  rewrite ceil_div_round_exact by lia.
  apply N2Z.inj.
  rewrite Z2N.id by (apply Z.div_pos; lia).
  rewrite N2Z.inj_div, N2Z.inj_sub, N2Z.inj_add by lia.
  reflexivity.
Qed.

(* binary64 level: dividing the two (exactly converted) integers with the IEEE
   division in round-to-nearest-even is finite and is the rounded real quotient.
   Stated for arbitrary instance proofs so that it applies to any binary64 setup. *)
Theorem f64_div_is_rounded_quotient :
  forall (Hp : Prec_gt_0 53) (Hm : Prec_lt_emax 53 1024)
         (fa fb : binary_float 53 1024) (a b : Z),
  (0 <= a < 2^53)%Z -> (1 <= b < 2^53)%Z ->
  is_finite fa = true ->
  B2R fa = IZR a -> B2R fb = IZR b ->
  is_finite (@Bdiv 53 1024 Hp Hm mode_NE fa fb) = true /\
  B2R (@Bdiv 53 1024 Hp Hm mode_NE fa fb)
  = round radix2 (FLT_exp (-1074) 53) ZnearestE (IZR a / IZR b).
Proof.
  intros Hp Hm fa fb a b Ha Hb Hfa HRa HRb.
  assert (HB : 1 <= IZR b) by (apply IZR_le; lia).
  assert (HA0 : 0 <= IZR a) by (apply IZR_le; lia).
  assert (HA53 : IZR a < IZR (2^53)) by (apply IZR_lt; lia).
  assert (Hnz : B2R fb <> 0) by (rewrite HRb; lra).
  pose proof (@Bdiv_correct 53 1024 Hp Hm mode_NE fa fb Hnz) as Hdiv.
  rewrite HRa, HRb in Hdiv.
  change (SpecFloat.fexp 53 1024) with fexp64 in Hdiv.
  change (round_mode mode_NE) with ZnearestE in Hdiv.
  set (x := IZR a / IZR b) in *.
  assert (Hx0 : 0 <= x).
  { unfold x. apply Rmult_le_pos; [lra|]. apply Rlt_le, Rinv_0_lt_compat. lra. }
  assert (HxA : x <= IZR a).
  { apply Rmult_le_reg_r with (IZR b); [lra|].
    replace (x * IZR b) with (IZR a) by (unfold x; field; lra). nra. }
  assert (Hr0 : 0 <= RN64 x).
  { rewrite <- (round_0 radix2 fexp64 ZnearestE).
    apply round_le; auto with typeclass_instances. }
  assert (HrA : RN64 x <= IZR a).
  { rewrite <- (round_generic radix2 fexp64 ZnearestE (IZR a)).
    - apply round_le; auto with typeclass_instances.
    - apply fmt64_IZR. lia. }
  rewrite Rlt_bool_true in Hdiv.
  - destruct Hdiv as (HR & Hfin & _). split.
    + rewrite Hfin. exact Hfa.
    + exact HR.
  - rewrite Rabs_pos_eq by exact Hr0.
    apply Rle_lt_trans with (1 := HrA).
    apply Rlt_trans with (1 := HA53).
    change (IZR (2^53)) with (bpow radix2 53).
    apply bpow_lt. lia.
Qed.
