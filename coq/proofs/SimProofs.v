(** Simulation / case-split theorems over Sys.v for C06 (hidden targets), C18 (I/O faults)
    and C04 (finishing paints the final state).  Statements are re-exported in props/C06.v,
    props/C18.v, props/C04.v. *)
From IndModel Require Import Base Text Draw Sys SimSpec.
From Coq Require Import List NArith Bool Lia ZifyBool ZifyNat ZifyN.
Import ListNotations.
Open Scope N_scope.
Arguments N.add : simpl never.
Arguments N.sub : simpl never.
Arguments N.mul : simpl never.
Arguments N.div : simpl never.
Arguments N.modulo : simpl never.

(* ================================================================== list helpers *)
Lemma updN_id {A} (l : list A) i : updN l i (fun x => x) = l.
Proof. revert i; induction l as [|x l IH]; intros [|i]; cbn; try reflexivity. now rewrite IH. Qed.

Lemma updN_updN {A} (l : list A) i f g : updN (updN l i f) i g = updN l i (fun x => g (f x)).
Proof. revert i; induction l as [|x l IH]; intros [|i]; cbn; try reflexivity. now rewrite IH. Qed.

Lemma updN_length {A} (l : list A) i f : length (updN l i f) = length l.
Proof. revert i; induction l as [|x l IH]; intros [|i]; cbn; try reflexivity. now rewrite IH. Qed.

Lemma updN_ext_at {A} (l : list A) i f g d :
  ((i < length l)%nat -> f (nth i l d) = g (nth i l d)) -> updN l i f = updN l i g.
Proof.
  revert i; induction l as [|x l IH]; intros [|i] Hfg; cbn in *; try reflexivity.
  - rewrite Hfg by lia. reflexivity.
  - rewrite (IH i). reflexivity. intros Hlt. apply Hfg. lia.
Qed.

Lemma nth_updN_same {A} (l : list A) i f d :
  nth i (updN l i f) d = if (i <? length l)%nat then f (nth i l d) else d.
Proof.
  revert i; induction l as [|x l IH]; intros [|i]; cbn; try reflexivity.
  rewrite IH. reflexivity.
Qed.

Lemma nth_updN_other {A} (l : list A) i j f d : i <> j -> nth j (updN l i f) d = nth j l d.
Proof.
  revert i j; induction l as [|x l IH]; intros [|i] [|j] Hne; cbn; try reflexivity; try congruence.
  apply IH. congruence.
Qed.

Lemma map_updN {A B} (h : A -> B) (l : list A) i f f' :
  (forall x, h (f x) = f' (h x)) -> map h (updN l i f) = updN (map h l) i f'.
Proof.
  intros Hc. revert i; induction l as [|x l IH]; intros [|i]; cbn; try reflexivity.
  - now rewrite Hc.
  - now rewrite IH.
Qed.

(* ================================================================== logic projection *)
Lemma bars_logic_upd s b f f' :
  (forall x, logic_of (f x) = f' (logic_of x)) ->
  bars_logic (upd_bar s b f) = updN (bars_logic s) (N.to_nat b) f'.
Proof. intros Hc. unfold bars_logic, upd_bar; cbn. now apply map_updN. Qed.

Lemma bars_logic_upd_id s b f :
  (forall x, logic_of (f x) = logic_of x) -> bars_logic (upd_bar s b f) = bars_logic s.
Proof.
  intros Hc. rewrite (bars_logic_upd s b f (fun x => x)) by exact Hc. apply updN_id.
Qed.

Lemma upd_bar_upd_bar s b f g : upd_bar (upd_bar s b f) b g = upd_bar s b (fun x => g (f x)).
Proof. unfold upd_bar; cbn. now rewrite updN_updN. Qed.

Lemma bars_logic_set_mp s m : bars_logic (set_s_mp s m) = bars_logic s.
Proof. reflexivity. Qed.
Lemma bars_logic_set_calls s c : bars_logic (set_s_calls s c) = bars_logic s.
Proof. reflexivity. Qed.

Lemma logic_of_get_bar s b : logic_of (get_bar s b) = nth (N.to_nat b) (bars_logic s) logic_default.
Proof. unfold get_bar, nthN, bars_logic, logic_default. now rewrite map_nth. Qed.

(* a field that [f] does not touch reads the same from the updated bar, in or out of range *)
Lemma get_bar_upd_field {A} (P : bar -> A) s b f :
  (forall x, P (f x) = P x) -> P (get_bar (upd_bar s b f) b) = P (get_bar s b).
Proof.
  intros HP. unfold get_bar, upd_bar, nthN; cbn. rewrite nth_updN_same.
  destruct (N.to_nat b <? length (s_bars s))%nat eqn:E.
  - apply HP.
  - apply Nat.ltb_ge in E. now rewrite nth_overflow by exact E.
Qed.

Lemma logic_set_target x t : logic_of (set_b_target x t) = logic_of x.
Proof. reflexivity. Qed.

(* drawing never touches the logic *)
Lemma bar_draw_logic W H fails s b force now :
  bars_logic (fst (bar_draw W H fails s b force now)) = bars_logic s.
Proof.
  unfold bar_draw. destruct (b_target (get_bar s b)) as [|tg|idx].
  - reflexivity.
  - destruct (tt_allow tg _ now) as [a tg1]. destruct a; cbn [negb].
    + destruct (term_draw W H fails tg1 _ _) as [[[tg2 e] c'] ok]. cbn [fst].
      rewrite bars_logic_set_calls. now apply bars_logic_upd_id.
    + cbn [fst]. now apply bars_logic_upd_id.
  - destruct (ms_draw W H fails _ _ None now _) as [[[m2 e] c'] ok]. reflexivity.
Qed.

Lemma bar_println_logic W H fails s b msg now :
  bars_logic (fst (bar_println W H fails s b msg now)) = bars_logic s.
Proof.
  unfold bar_println. destruct (b_target (get_bar s b)) as [|tg|idx].
  - reflexivity.
  - destruct (term_draw W H fails tg _ _) as [[[tg2 e] c'] ok]. cbn [fst].
    rewrite bars_logic_set_calls. now apply bars_logic_upd_id.
  - destruct (ms_draw W H fails _ _ None now _) as [[[m2 e] c'] ok]. reflexivity.
Qed.

Lemma bar_suspend_logic W H fails s b ws now :
  bars_logic (fst (bar_suspend W H fails s b ws now)) = bars_logic s.
Proof.
  unfold bar_suspend. destruct (b_target (get_bar s b)) as [|tg|idx].
  - destruct (emit_each fails _ _) as [e c']. reflexivity.
  - destruct (term_draw W H fails tg [] _) as [[[tg1 e1] c1] ok1].
    destruct (emit_each fails c1 _) as [e2 c2].
    match goal with |- context [bar_draw W H fails ?s1 b true now] =>
      pose proof (bar_draw_logic W H fails s1 b true now) as Hd;
      destruct (bar_draw W H fails s1 b true now) as [s2 e3] end.
    cbn [fst] in *. rewrite Hd, bars_logic_set_calls. now apply bars_logic_upd_id.
  - destruct (ms_suspend W H fails _ ws now _) as [[m2 e] c']. reflexivity.
Qed.

Lemma bar_set_target_logic W H fails s b t now :
  bars_logic (fst (bar_set_target W H fails s b t now)) = bars_logic s.
Proof.
  unfold bar_set_target. destruct (b_target (get_bar s b)) as [|tg|idx0].
  - cbn [fst]. now apply bars_logic_upd_id.
  - cbn [fst]. now apply bars_logic_upd_id.
  - destruct (ms_draw W H fails _ true None now _) as [[[m2 e] c'] ok]. cbn [fst].
    rewrite bars_logic_upd_id by reflexivity. reflexivity.
Qed.

Lemma logic_final_of k x : logic_of (final_of k x) = l_finish k (logic_of x).
Proof. destruct k, x as [p [l|] tk st mg pf tm onf ap tg al]; reflexivity. Qed.

Lemma bar_finish_eq W H fails s b k now :
  bar_finish W H fails s b k now = bar_draw W H fails (upd_bar s b (final_of k)) b true now.
Proof.
  reflexivity.
Qed.

Lemma bar_finish_logic W H fails s b k now :
  bars_logic (fst (bar_finish W H fails s b k now))
  = updN (bars_logic s) (N.to_nat b) (l_finish k).
Proof.
  rewrite bar_finish_eq, bar_draw_logic. apply bars_logic_upd. intros x. apply logic_final_of.
Qed.

Lemma bar_tick_logic W H fails s b now :
  bars_logic (fst (bar_tick W H fails s b now))
  = updN (bars_logic s) (N.to_nat b) (fun l => lw_tick l (sat_add64 (l_tick l) 1)).
Proof.
  unfold bar_tick. rewrite bar_draw_logic. apply bars_logic_upd. reflexivity.
Qed.

Lemma bar_pos_update_logic W H fails s b f now :
  bars_logic (fst (bar_pos_update W H fails s b f now))
  = updN (bars_logic s) (N.to_nat b) (l_pos_update f now).
Proof.
  unfold bar_pos_update.
  rewrite (get_bar_upd_field b_ap s b (fun x => set_b_pos x (f (b_pos x)))) by reflexivity.
  assert (Hap : b_ap (get_bar s b) = l_ap (nth (N.to_nat b) (bars_logic s) logic_default))
    by (rewrite <- logic_of_get_bar; reflexivity).
  destruct (ap_allow (b_ap (get_bar s b)) now) as [a ap'] eqn:Eap.
  destruct a.
  - rewrite bar_tick_logic.
    rewrite (bars_logic_upd _ b _ (fun l => lw_ap l ap')) by reflexivity.
    rewrite (bars_logic_upd s b _ (fun l => lw_pos l (f (l_pos l)))) by reflexivity.
    rewrite !updN_updN. apply updN_ext_at with (d := logic_default). intros _.
    unfold l_pos_update. cbn [l_ap lw_pos]. rewrite <- Hap, Eap. reflexivity.
  - cbn [fst].
    rewrite (bars_logic_upd _ b _ (fun l => lw_ap l ap')) by reflexivity.
    rewrite (bars_logic_upd s b _ (fun l => lw_pos l (f (l_pos l)))) by reflexivity.
    rewrite !updN_updN. apply updN_ext_at with (d := logic_default). intros _.
    unfold l_pos_update. cbn [l_ap lw_pos]. rewrite <- Hap, Eap. reflexivity.
Qed.

Lemma mark_zombie_logic W s b : bars_logic (mark_zombie W s b) = bars_logic s.
Proof. unfold mark_zombie. destruct (b_target (get_bar s b)); reflexivity. Qed.

Lemma bar_drop_logic W H fails s b now :
  bars_logic (fst (bar_drop W H fails s b now))
  = updN (bars_logic s) (N.to_nat b) (lstep_bar now (ODrop b)).
Proof.
  unfold bar_drop.
  assert (Hfin : finished (get_bar s b) = l_finished (nth (N.to_nat b) (bars_logic s) logic_default))
    by (rewrite <- logic_of_get_bar; reflexivity).
  assert (Hon : b_on_finish (get_bar s b) = l_on_finish (nth (N.to_nat b) (bars_logic s) logic_default))
    by (rewrite <- logic_of_get_bar; reflexivity).
  destruct (finished (get_bar s b)) eqn:Ef.
  - cbn [fst]. rewrite (bars_logic_upd _ b _ (fun l => lw_alive l false)) by reflexivity.
    rewrite mark_zombie_logic. apply updN_ext_at with (d := logic_default). intros _.
    cbn [lstep_bar]. now rewrite <- Hfin.
  - pose proof (bar_finish_logic W H fails s b (b_on_finish (get_bar s b)) now) as Hf.
    destruct (bar_finish W H fails s b (b_on_finish (get_bar s b)) now) as [s1 e]. cbn [fst] in *.
    rewrite (bars_logic_upd _ b _ (fun l => lw_alive l false)) by reflexivity.
    rewrite mark_zombie_logic, Hf, updN_updN.
    apply updN_ext_at with (d := logic_default). intros _.
    cbn [lstep_bar]. now rewrite <- Hfin, <- Hon.
Qed.

(** THE projection theorem: the logic after a call is [lstep] of the logic before it - whatever
    the targets, the terminal size, the MultiProgress state and the fault oracle are. *)
Theorem step_logic W H fails s now o :
  bars_logic (fst (fst (step W H fails s now o))) = lstep now o (bars_logic s).
Proof.
  destruct o; cbn [step lstep op_bar lstep_bar fst snd];
    try (rewrite updN_id);
    try reflexivity;
    try (rewrite bar_draw_logic; apply bars_logic_upd; reflexivity);
    try (apply bars_logic_upd; reflexivity).
  - apply bar_tick_logic.
  - apply bar_pos_update_logic.
  - apply bar_pos_update_logic.
  - apply bar_pos_update_logic.
  - apply bar_println_logic.
  - apply bar_suspend_logic.
  - apply bar_finish_logic.
  - rewrite bar_finish_logic. apply updN_ext_at with (d := logic_default). intros _.
    rewrite <- logic_of_get_bar. reflexivity.
  - apply bar_draw_logic.
  - apply bar_draw_logic.
  - apply bar_drop_logic.
  - (* OInsert *)
    match goal with |- context [match ?X with Some _ => _ | None => _ end] => destruct X as [[m1 idx]|] end.
    + cbn [fst]. rewrite bar_set_target_logic. reflexivity.
    + reflexivity.
  - (* ORemove *)
    destruct (b_target (get_bar s b)) as [|tg|idx]; try reflexivity.
    destruct (ms_draw W H fails _ true None now _) as [[[m2 e] c'] ok]. cbn [fst].
    rewrite bars_logic_set_calls, bars_logic_set_mp. now apply bars_logic_upd_id.
  - destruct (ms_draw W H fails _ true _ now _) as [[[m2 e] c'] ok]. reflexivity.
  - destruct (ms_suspend W H fails _ _ now _) as [[m2 e] c']. reflexivity.
  - destruct (ms_clear W H fails _ _) as [[[m2 e] c'] ok]. reflexivity.
Qed.

Theorem run_logics_spec W H fails ops : forall s,
  run_logics W H fails s ops = ltrace (bars_logic s) ops.
Proof.
  induction ops as [|[now o] r IH]; intros s; cbn [run_logics ltrace]; [reflexivity|].
  pose proof (step_logic W H fails s now o) as Hs.
  destruct (step W H fails s now o) as [[s1 e] ok]. cbn [fst] in Hs.
  rewrite IH, Hs. reflexivity.
Qed.

(** C06_equiv / C18_state in one: two systems with the same logic - whatever their targets,
    terminals, MultiProgress states and fault oracles - have the same logic after every op of
    the same timed history. *)
Theorem logic_simulation W1 H1 f1 W2 H2 f2 s1 s2 ops :
  bars_logic s1 = bars_logic s2 ->
  run_logics W1 H1 f1 s1 ops = run_logics W2 H2 f2 s2 ops.
Proof. intros Heq. rewrite !run_logics_spec, Heq. reflexivity. Qed.

Lemma hide_all_logic s : bars_logic (hide_all s) = bars_logic s.
Proof. unfold bars_logic, hide_all; cbn. rewrite map_map. apply map_ext. reflexivity. Qed.
Lemma hide_mp_logic s : bars_logic (hide_mp s) = bars_logic s.
Proof. reflexivity. Qed.

Lemma hide_all_hidden s : all_hidden (hide_all s).
Proof.
  split; [reflexivity|]. unfold hide_all; cbn. apply Forall_forall. intros x Hx.
  apply in_map_iff in Hx. destruct Hx as [y [<- _]]. reflexivity.
Qed.

(* the getters in terms of the logic record *)
Lemma getters_of_logic b :
  b_pos b = l_pos (logic_of b) /\ b_len b = l_len (logic_of b) /\ b_msg b = l_msg (logic_of b)
  /\ b_prefix b = l_prefix (logic_of b) /\ finished b = l_finished (logic_of b)
  /\ b_tick b = l_tick (logic_of b) /\ b_ap b = l_ap (logic_of b) /\ b_alive b = l_alive (logic_of b).
Proof. repeat split. Qed.

(* ================================================================== fault oracle plumbing *)
Lemma emit_each_count fails ops : forall c, snd (emit_each fails c ops) = c + N.of_nat (length ops).
Proof.
  induction ops as [|o r IH]; intros c; cbn [emit_each length].
  - cbn. lia.
  - specialize (IH (c + 1)). destruct (emit_each fails (c + 1) r) as [e c'].
    cbn [snd] in *. destruct (fails c); cbn [snd]; lia.
Qed.

Lemma emit_each_nil fails c : emit_each fails c [] = ([], c).
Proof. reflexivity. Qed.

(* emit: the counter advances by the number of calls attempted; Ok iff none of them failed;
   the calls that reach the terminal are a prefix of the planned ones (all of them when Ok) *)
Lemma emit_spec fails ops : forall c e c' ok,
  emit fails c ops = (e, c', ok) ->
  c <= c' /\ c' <= c + N.of_nat (length ops) /\
  (ok = true -> e = ops /\ c' = c + N.of_nat (length ops)) /\
  (ok = false <-> exists k, c <= k < c' /\ fails k = true) /\
  (forall k, c <= k < c' - 1 -> fails k = false) /\
  e = firstn (length e) ops.
Proof.
  induction ops as [|o r IH]; intros c e c' ok Hem; cbn [emit] in Hem.
  - inversion Hem; subst. cbn [length].
    split; [lia|]. split; [lia|]. split; [intros _; split; [reflexivity|lia]|].
    split; [split; [discriminate|intros [k [Hk _]]; lia]|].
    split; [intros k Hk; lia|reflexivity].
  - destruct (fails c) eqn:Ec.
    + inversion Hem; subst. cbn [length].
      split; [lia|]. split; [lia|]. split; [discriminate|].
      split; [split; [intros _; exists c; split; [lia|exact Ec]|reflexivity]|].
      split; [intros k Hk; lia|reflexivity].
    + destruct (emit fails (c + 1) r) as [[e1 c1] ok1] eqn:E1. inversion Hem; subst.
      destruct (IH _ _ _ _ E1) as (Hle & Hub & Hok & Hiff & Hpre & Hfn).
      cbn [length].
      split; [lia|]. split; [lia|].
      split; [intros Ht; destruct (Hok Ht) as [-> ->]; split; [reflexivity|lia]|].
      split; [split|].
      * intros Hf. apply Hiff in Hf. destruct Hf as [k [Hk Hfk]]. exists k. split; [lia|exact Hfk].
      * intros [k [Hk Hfk]]. apply Hiff. exists k. split; [|exact Hfk].
        assert (k <> c) by (intros ->; congruence). lia.
      * split.
        -- intros k Hk. destruct (N.eq_dec k c) as [->|Hne]; [exact Ec|]. apply Hpre. lia.
        -- cbn [firstn]. f_equal. exact Hfn.
Qed.

Lemma emit_no_faults ops c : emit no_faults c ops = (ops, c + N.of_nat (length ops), true).
Proof.
  revert c; induction ops as [|o r IH]; intros c; cbn [emit length].
  - f_equal. f_equal. lia.
  - unfold no_faults at 1. rewrite IH. f_equal. f_equal. lia.
Qed.

(* ================================================================== C06: silence *)
Lemma ms_eta m : set_ms_target m (ms_target m) = m.
Proof. destruct m; reflexivity. Qed.

Lemma ms_draw_hidden W H fails m force extra now c :
  is_term (ms_target m) = false -> ms_draw W H fails m force extra now c = (m, [], c, true).
Proof. unfold ms_draw. destruct (ms_target m); [reflexivity|discriminate|reflexivity]. Qed.

Lemma ms_clear_hidden W H fails m c :
  is_term (ms_target m) = false -> ms_clear W H fails m c = (m, [], c, true).
Proof. unfold ms_clear. destruct (ms_target m); [reflexivity|discriminate|reflexivity]. Qed.

Lemma ms_suspend_hidden W H fails m ws now c :
  is_term (ms_target m) = false ->
  ms_suspend W H fails m ws now c
  = (m, fst (emit_each fails c (map TLine ws)), snd (emit_each fails c (map TLine ws))).
Proof.
  intros Hh. unfold ms_suspend. rewrite ms_clear_hidden by exact Hh.
  assert (Hm : set_ms_target m (match ms_target m with
                               | TTerm tg => TTerm (mktt 0 (tt_rl tg) (tt_align tg) (tt_below tg))
                               | t => t end) = m).
  { destruct m as [a b c0 d e f tgt]; destruct tgt; try reflexivity; discriminate. }
  rewrite Hm. destruct (emit_each fails c (map TLine ws)) as [e2 c2].
  rewrite ms_draw_hidden by exact Hh. cbn [fst snd]. now rewrite app_nil_r.
Qed.

Lemma bar_hidden_upd s b f :
  (forall x, b_target (f x) = b_target x) -> bar_hidden (upd_bar s b f) b = bar_hidden s b.
Proof.
  intros Hf. unfold bar_hidden.
  rewrite (get_bar_upd_field b_target s b f Hf). reflexivity.
Qed.

(* a draw on a hidden bar: no call, the call counter does not move *)
Lemma bar_draw_hidden W H fails s b force now :
  bar_hidden s b = true ->
  snd (bar_draw W H fails s b force now) = [] /\
  s_calls (fst (bar_draw W H fails s b force now)) = s_calls s.
Proof.
  unfold bar_hidden, bar_draw. destruct (b_target (get_bar s b)) as [|tg|idx]; intros Hh.
  - split; reflexivity.
  - discriminate.
  - rewrite ms_draw_hidden by (cbn; now destruct (ms_target (s_mp s))). split; reflexivity.
Qed.

Lemma bar_println_hidden W H fails s b msg now :
  bar_hidden s b = true ->
  snd (bar_println W H fails s b msg now) = [] /\
  s_calls (fst (bar_println W H fails s b msg now)) = s_calls s.
Proof.
  unfold bar_hidden, bar_println. destruct (b_target (get_bar s b)) as [|tg|idx]; intros Hh.
  - split; reflexivity.
  - discriminate.
  - rewrite ms_draw_hidden by (cbn; now destruct (ms_target (s_mp s))). split; reflexivity.
Qed.

Lemma bar_suspend_hidden W H fails s b ws now :
  bar_hidden s b = true ->
  snd (bar_suspend W H fails s b ws now) = fst (emit_each fails (s_calls s) (map TLine ws)) /\
  s_calls (fst (bar_suspend W H fails s b ws now)) = s_calls s + N.of_nat (length ws).
Proof.
  unfold bar_hidden, bar_suspend. destruct (b_target (get_bar s b)) as [|tg|idx]; intros Hh.
  - pose proof (emit_each_count fails (map TLine ws) (s_calls s)) as Hc.
    destruct (emit_each fails (s_calls s) (map TLine ws)) as [e c']. cbn [fst snd] in *.
    rewrite map_length in Hc. split; [reflexivity|exact Hc].
  - discriminate.
  - rewrite ms_suspend_hidden by (now destruct (ms_target (s_mp s))).
    pose proof (emit_each_count fails (map TLine ws) (s_calls s)) as Hc.
    rewrite map_length in Hc. cbn [fst snd]. split; [reflexivity|exact Hc].
Qed.

Lemma upd_draw_hidden W H fails s b f fo now :
  bar_hidden s b = true -> (forall x, b_target (f x) = b_target x) ->
  snd (bar_draw W H fails (upd_bar s b f) b fo now) = [] /\
  s_calls (fst (bar_draw W H fails (upd_bar s b f) b fo now)) = s_calls s.
Proof.
  intros Hh Hf.
  destruct (bar_draw_hidden W H fails (upd_bar s b f) b fo now) as [He Hc].
  - now rewrite bar_hidden_upd.
  - split; [exact He|exact Hc].
Qed.

Lemma bar_pos_update_hidden W H fails s b f now :
  bar_hidden s b = true ->
  snd (bar_pos_update W H fails s b f now) = [] /\
  s_calls (fst (bar_pos_update W H fails s b f now)) = s_calls s.
Proof.
  intros Hh. unfold bar_pos_update.
  destruct (ap_allow _ now) as [a ap']. destruct a; [|split; reflexivity].
  unfold bar_tick. rewrite !upd_bar_upd_bar.
  apply upd_draw_hidden; [exact Hh|reflexivity].
Qed.

Lemma final_of_target k x : b_target (final_of k x) = b_target x.
Proof. destruct k, x as [p [l|] tk st mg pf tm onf ap tg al]; reflexivity. Qed.

Lemma bar_finish_hidden W H fails s b k now :
  bar_hidden s b = true ->
  snd (bar_finish W H fails s b k now) = [] /\
  s_calls (fst (bar_finish W H fails s b k now)) = s_calls s.
Proof.
  intros Hh. rewrite bar_finish_eq. apply upd_draw_hidden; [exact Hh|apply final_of_target].
Qed.

Lemma mark_zombie_calls W s b : s_calls (mark_zombie W s b) = s_calls s.
Proof. unfold mark_zombie. destruct (b_target (get_bar s b)); reflexivity. Qed.

Lemma bar_drop_hidden W H fails s b now :
  bar_hidden s b = true ->
  snd (bar_drop W H fails s b now) = [] /\
  s_calls (fst (bar_drop W H fails s b now)) = s_calls s.
Proof.
  intros Hh. unfold bar_drop. destruct (finished (get_bar s b)).
  - cbn [fst snd]. split; [reflexivity|]. cbn [upd_bar set_s_bars s_calls]. apply mark_zombie_calls.
  - destruct (bar_finish_hidden W H fails s b (b_on_finish (get_bar s b)) now Hh) as [He Hc].
    destruct (bar_finish W H fails s b (b_on_finish (get_bar s b)) now) as [s1 e].
    cbn [fst snd] in *. split; [exact He|]. cbn [upd_bar set_s_bars s_calls].
    rewrite mark_zombie_calls. exact Hc.
Qed.

Lemma ms_remove_idx_target m idx : ms_target (ms_remove_idx m idx) = ms_target m.
Proof. unfold ms_remove_idx. destruct (memN idx (ms_free m)); reflexivity. Qed.

Lemma ms_insert_target m l m1 idx : ms_insert m l = Some (m1, idx) -> ms_target m1 = ms_target m.
Proof.
  unfold ms_insert. destruct (ms_free m) as [|i fr]; destruct l; cbn;
    repeat match goal with |- context [posN ?r ?o] => destruct (posN r o) end;
    intros Heq; inversion Heq; reflexivity.
Qed.

Lemma bar_set_target_hidden W H fails s b t now :
  bar_hidden s b = true ->
  snd (bar_set_target W H fails s b t now) = [] /\
  s_calls (fst (bar_set_target W H fails s b t now)) = s_calls s.
Proof.
  unfold bar_hidden, bar_set_target. destruct (b_target (get_bar s b)) as [|tg|idx0]; intros Hh.
  - split; reflexivity.
  - discriminate.
  - rewrite ms_draw_hidden by (cbn; now destruct (ms_target (s_mp s))). split; reflexivity.
Qed.

Definition subject_hidden (s : sys) (o : op) : bool :=
  match op_bar o with Some b => bar_hidden s b | None => mp_hidden s end.

(** One call whose subject (the bar it is made on, or the MultiProgress itself) is hidden:
    the only TermLike calls are the ones the closure of a suspend makes itself, the call counter
    advances by exactly those, and the call reports Ok. *)
Theorem step_silent W H fails s now o :
  subject_hidden s o = true ->
  snd (fst (step W H fails s now o)) = fst (emit_each fails (s_calls s) (closure_writes o)) /\
  s_calls (fst (fst (step W H fails s now o))) = s_calls s + N.of_nat (length (closure_writes o)) /\
  snd (step W H fails s now o) = true.
Proof.
  unfold subject_hidden.
  assert (Hz : forall c : N, c = c + N.of_nat 0) by (intros; lia).
  destruct o; cbn [op_bar step closure_writes fst snd emit_each length]; intros Hh;
    try (split; [reflexivity|split; [apply Hz|reflexivity]]);
    try (match goal with |- context [bar_draw ?W0 ?H0 ?f0 (upd_bar ?s0 ?b0 ?f) ?b0 ?fo ?n0] =>
           destruct (upd_draw_hidden W0 H0 f0 s0 b0 f fo n0 Hh) as [He Hc]; [reflexivity|];
           rewrite He, Hc; split; [reflexivity|split; [apply Hz|reflexivity]] end).
  - (* OTick *) unfold bar_tick.
    match goal with |- context [bar_draw ?W0 ?H0 ?f0 (upd_bar ?s0 ?b0 ?f) ?b0 ?fo ?n0] =>
           destruct (upd_draw_hidden W0 H0 f0 s0 b0 f fo n0 Hh) as [He Hc]; [reflexivity|] end.
    rewrite He, Hc. split; [reflexivity|split; [apply Hz|reflexivity]].
  - destruct (bar_pos_update_hidden W H fails s b (fun p => wadd64 p d) now Hh) as [He Hc].
    rewrite He, Hc. split; [reflexivity|split; [apply Hz|reflexivity]].
  - destruct (bar_pos_update_hidden W H fails s b (fun p => wsub64 p d) now Hh) as [He Hc].
    rewrite He, Hc. split; [reflexivity|split; [apply Hz|reflexivity]].
  - destruct (bar_pos_update_hidden W H fails s b (fun _ => p) now Hh) as [He Hc].
    rewrite He, Hc. split; [reflexivity|split; [apply Hz|reflexivity]].
  - (* OPrintln *) destruct (bar_println_hidden W H fails s b m now Hh) as [He Hc].
    rewrite He, Hc. split; [reflexivity|split; [apply Hz|reflexivity]].
  - (* OSuspend *) destruct (bar_suspend_hidden W H fails s b ws now Hh) as [He Hc].
    rewrite He, Hc, map_length. split; [reflexivity|split; reflexivity].
  - destruct (bar_finish_hidden W H fails s b k now Hh) as [He Hc].
    rewrite He, Hc. split; [reflexivity|split; [apply Hz|reflexivity]].
  - destruct (bar_finish_hidden W H fails s b (b_on_finish (get_bar s b)) now Hh) as [He Hc].
    rewrite He, Hc. split; [reflexivity|split; [apply Hz|reflexivity]].
  - destruct (bar_draw_hidden W H fails s b true now Hh) as [He Hc].
    rewrite He, Hc. split; [reflexivity|split; [apply Hz|reflexivity]].
  - destruct (bar_draw_hidden W H fails s b true now Hh) as [He Hc].
    rewrite He, Hc. split; [reflexivity|split; [apply Hz|reflexivity]].
  - destruct (bar_drop_hidden W H fails s b now Hh) as [He Hc].
    rewrite He, Hc. split; [reflexivity|split; [apply Hz|reflexivity]].
  - (* OInsert *)
    match goal with |- context [match ?X with Some l => ms_insert (s_mp s) l | None => None end] =>
      destruct X as [l|] end; [|split; [reflexivity|split; [apply Hz|reflexivity]]].
    destruct (ms_insert (s_mp s) l) as [[m1 idx]|] eqn:Ei;
      [|split; [reflexivity|split; [apply Hz|reflexivity]]].
    destruct (bar_set_target_hidden W H fails (set_s_mp s m1) b (TMulti idx) now) as [He Hc].
    { unfold bar_hidden in *. cbn [s_mp set_s_mp]. change (get_bar (set_s_mp s m1) b) with (get_bar s b).
      rewrite (ms_insert_target _ _ _ _ Ei). exact Hh. }
    cbn [fst snd]. rewrite He, Hc. split; [reflexivity|split; [apply Hz|reflexivity]].
  - (* ORemove *)
    unfold bar_hidden in Hh. destruct (b_target (get_bar s b)) as [|tg|idx];
      [split; [reflexivity|split; [apply Hz|reflexivity]]|discriminate|].
    rewrite ms_draw_hidden by (cbn; rewrite ms_remove_idx_target; now destruct (ms_target (s_mp s))).
    split; [reflexivity|split; [apply Hz|reflexivity]].
  - (* OMPrintln *) unfold mp_hidden in Hh.
    rewrite ms_draw_hidden by (now destruct (ms_target (s_mp s))).
    split; [reflexivity|split; [apply Hz|reflexivity]].
  - (* OMSuspend *) unfold mp_hidden in Hh.
    rewrite ms_suspend_hidden by (now destruct (ms_target (s_mp s))).
    pose proof (emit_each_count fails (map TLine ws) (s_calls s)) as Hc. rewrite map_length in *.
    cbn [fst snd s_calls set_s_calls]. split; [reflexivity|split; [exact Hc|reflexivity]].
  - (* OMClear *) unfold mp_hidden in Hh.
    rewrite ms_clear_hidden by (now destruct (ms_target (s_mp s))).
    split; [reflexivity|split; [apply Hz|reflexivity]].
Qed.
