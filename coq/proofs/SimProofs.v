(** Simulation / case-split theorems over Sys.v for C06 (hidden targets), C18 (I/O faults)
    and C04 (finishing paints the final state).  Statements are re-exported in props/C06.v,
    props/C18.v, props/C04.v. *)
From IndModel Require Import Base Text Draw Sys SimSpec.
From Coq Require Import List NArith Bool Lia ZifyBool ZifyNat ZifyN.
Import ListNotations.
Open Scope N_scope.
Arguments N.add : simpl never.
Arguments N.sub : simpl never.
Arguments N.mul : simpl never.
Arguments N.div : simpl never.
Arguments N.modulo : simpl never.

(* ================================================================== list helpers *)
Lemma updN_id {A} (l : list A) i : updN l i (fun x => x) = l.
Proof. revert i; induction l as [|x l IH]; intros [|i]; cbn; try reflexivity. now rewrite IH. Qed.

Lemma updN_updN {A} (l : list A) i f g : updN (updN l i f) i g = updN l i (fun x => g (f x)).
Proof. revert i; induction l as [|x l IH]; intros [|i]; cbn; try reflexivity. now rewrite IH. Qed.

Lemma updN_length {A} (l : list A) i f : length (updN l i f) = length l.
Proof. revert i; induction l as [|x l IH]; intros [|i]; cbn; try reflexivity. now rewrite IH. Qed.

Lemma updN_ext_at {A} (l : list A) i f g d :
  ((i < length l)%nat -> f (nth i l d) = g (nth i l d)) -> updN l i f = updN l i g.
Proof.
  revert i; induction l as [|x l IH]; intros [|i] Hfg; cbn in *; try reflexivity.
  - rewrite Hfg by lia. reflexivity.
  - rewrite (IH i). reflexivity. intros Hlt. apply Hfg. lia.
Qed.

Lemma nth_updN_same {A} (l : list A) i f d :
  nth i (updN l i f) d = if (i <? length l)%nat then f (nth i l d) else d.
Proof.
  revert i; induction l as [|x l IH]; intros [|i]; cbn; try reflexivity.
  rewrite IH. reflexivity.
Qed.

Lemma nth_updN_other {A} (l : list A) i j f d : i <> j -> nth j (updN l i f) d = nth j l d.
Proof.
  revert i j; induction l as [|x l IH]; intros [|i] [|j] Hne; cbn; try reflexivity; try congruence.
  apply IH. congruence.
Qed.

Lemma map_updN {A B} (h : A -> B) (l : list A) i f f' :
  (forall x, h (f x) = f' (h x)) -> map h (updN l i f) = updN (map h l) i f'.
Proof.
  intros Hc. revert i; induction l as [|x l IH]; intros [|i]; cbn; try reflexivity.
  - now rewrite Hc.
  - now rewrite IH.
Qed.

(* ================================================================== logic projection *)
Lemma bars_logic_upd s b f f' :
  (forall x, logic_of (f x) = f' (logic_of x)) ->
  bars_logic (upd_bar s b f) = updN (bars_logic s) (N.to_nat b) f'.
Proof. intros Hc. unfold bars_logic, upd_bar; cbn. now apply map_updN. Qed.

Lemma bars_logic_upd_id s b f :
  (forall x, logic_of (f x) = logic_of x) -> bars_logic (upd_bar s b f) = bars_logic s.
Proof.
  intros Hc. rewrite (bars_logic_upd s b f (fun x => x)) by exact Hc. apply updN_id.
Qed.

Lemma upd_bar_upd_bar s b f g : upd_bar (upd_bar s b f) b g = upd_bar s b (fun x => g (f x)).
Proof. unfold upd_bar; cbn. now rewrite updN_updN. Qed.

Lemma bars_logic_set_mp s m : bars_logic (set_s_mp s m) = bars_logic s.
Proof. reflexivity. Qed.
Lemma bars_logic_set_calls s c : bars_logic (set_s_calls s c) = bars_logic s.
Proof. reflexivity. Qed.

Lemma logic_of_get_bar s b : logic_of (get_bar s b) = nth (N.to_nat b) (bars_logic s) logic_default.
Proof. unfold get_bar, nthN, bars_logic, logic_default. now rewrite map_nth. Qed.

(* a field that [f] does not touch reads the same from the updated bar, in or out of range *)
Lemma get_bar_upd_field {A} (P : bar -> A) s b f :
  (forall x, P (f x) = P x) -> P (get_bar (upd_bar s b f) b) = P (get_bar s b).
Proof.
  intros HP. unfold get_bar, upd_bar, nthN; cbn. rewrite nth_updN_same.
  destruct (N.to_nat b <? length (s_bars s))%nat eqn:E.
  - apply HP.
  - apply Nat.ltb_ge in E. now rewrite nth_overflow by exact E.
Qed.

Lemma logic_set_target x t : logic_of (set_b_target x t) = logic_of x.
Proof. reflexivity. Qed.

(* drawing never touches the logic *)
Lemma bar_draw_logic W H fails s b force now :
  bars_logic (fst (bar_draw W H fails s b force now)) = bars_logic s.
Proof.
  unfold bar_draw. destruct (b_target (get_bar s b)) as [|tg|idx].
  - reflexivity.
  - destruct (tt_allow tg _ now) as [a tg1]. destruct a; cbn [negb].
    + destruct (term_draw W H fails tg1 _ _) as [[[tg2 e] c'] ok]. cbn [fst].
      rewrite bars_logic_set_calls. now apply bars_logic_upd_id.
    + cbn [fst]. now apply bars_logic_upd_id.
  - destruct (ms_draw W H fails _ _ None now _) as [[[m2 e] c'] ok]. reflexivity.
Qed.

Lemma bar_println_logic W H fails s b msg now :
  bars_logic (fst (bar_println W H fails s b msg now)) = bars_logic s.
Proof.
  unfold bar_println. destruct (b_target (get_bar s b)) as [|tg|idx].
  - reflexivity.
  - destruct (term_draw W H fails tg _ _) as [[[tg2 e] c'] ok]. cbn [fst].
    rewrite bars_logic_set_calls. now apply bars_logic_upd_id.
  - destruct (ms_draw W H fails _ _ None now _) as [[[m2 e] c'] ok]. reflexivity.
Qed.

Lemma bar_suspend_logic W H fails s b ws now :
  bars_logic (fst (bar_suspend W H fails s b ws now)) = bars_logic s.
Proof.
  unfold bar_suspend. destruct (b_target (get_bar s b)) as [|tg|idx].
  - destruct (emit_each fails _ _) as [e c']. reflexivity.
  - destruct (term_draw W H fails tg [] _) as [[[tg1 e1] c1] ok1].
    destruct (emit_each fails c1 _) as [e2 c2].
    match goal with |- context [bar_draw W H fails ?s1 b true now] =>
      pose proof (bar_draw_logic W H fails s1 b true now) as Hd;
      destruct (bar_draw W H fails s1 b true now) as [s2 e3] end.
    cbn [fst] in *. rewrite Hd, bars_logic_set_calls. now apply bars_logic_upd_id.
  - destruct (ms_suspend W H fails _ ws now _) as [[m2 e] c']. reflexivity.
Qed.

Lemma bar_set_target_logic W H fails s b t now :
  bars_logic (fst (bar_set_target W H fails s b t now)) = bars_logic s.
Proof.
  unfold bar_set_target. destruct (b_target (get_bar s b)) as [|tg|idx0].
  - cbn [fst]. now apply bars_logic_upd_id.
  - cbn [fst]. now apply bars_logic_upd_id.
  - destruct (ms_draw W H fails _ true None now _) as [[[m2 e] c'] ok]. cbn [fst].
    rewrite bars_logic_upd_id by reflexivity. reflexivity.
Qed.

Lemma logic_final_of k x : logic_of (final_of k x) = l_finish k (logic_of x).
Proof. destruct k, x as [p [l|] tk st mg pf tm onf ap tg al]; reflexivity. Qed.

Lemma bar_finish_eq W H fails s b k now :
  bar_finish W H fails s b k now = bar_draw W H fails (upd_bar s b (final_of k)) b true now.
Proof.
  reflexivity.
Qed.

Lemma bar_finish_logic W H fails s b k now :
  bars_logic (fst (bar_finish W H fails s b k now))
  = updN (bars_logic s) (N.to_nat b) (l_finish k).
Proof.
  rewrite bar_finish_eq, bar_draw_logic. apply bars_logic_upd. intros x. apply logic_final_of.
Qed.

Lemma bar_tick_logic W H fails s b now :
  bars_logic (fst (bar_tick W H fails s b now))
  = updN (bars_logic s) (N.to_nat b) (fun l => lw_tick l (sat_add64 (l_tick l) 1)).
Proof.
  unfold bar_tick. rewrite bar_draw_logic. apply bars_logic_upd. reflexivity.
Qed.

Lemma bar_pos_update_logic W H fails s b f now :
  bars_logic (fst (bar_pos_update W H fails s b f now))
  = updN (bars_logic s) (N.to_nat b) (l_pos_update f now).
Proof.
  unfold bar_pos_update.
  rewrite (get_bar_upd_field b_ap s b (fun x => set_b_pos x (f (b_pos x)))) by reflexivity.
  assert (Hap : b_ap (get_bar s b) = l_ap (nth (N.to_nat b) (bars_logic s) logic_default))
    by (rewrite <- logic_of_get_bar; reflexivity).
  destruct (ap_allow (b_ap (get_bar s b)) now) as [a ap'] eqn:Eap.
  destruct a.
  - rewrite bar_tick_logic.
    rewrite (bars_logic_upd _ b _ (fun l => lw_ap l ap')) by reflexivity.
    rewrite (bars_logic_upd s b _ (fun l => lw_pos l (f (l_pos l)))) by reflexivity.
    rewrite !updN_updN. apply updN_ext_at with (d := logic_default). intros _.
    unfold l_pos_update. cbn [l_ap lw_pos]. rewrite <- Hap, Eap. reflexivity.
  - cbn [fst].
    rewrite (bars_logic_upd _ b _ (fun l => lw_ap l ap')) by reflexivity.
    rewrite (bars_logic_upd s b _ (fun l => lw_pos l (f (l_pos l)))) by reflexivity.
    rewrite !updN_updN. apply updN_ext_at with (d := logic_default). intros _.
    unfold l_pos_update. cbn [l_ap lw_pos]. rewrite <- Hap, Eap. reflexivity.
Qed.

Lemma mark_zombie_logic W s b : bars_logic (mark_zombie W s b) = bars_logic s.
Proof. unfold mark_zombie. destruct (b_target (get_bar s b)); reflexivity. Qed.

Lemma bar_drop_logic W H fails s b now :
  bars_logic (fst (bar_drop W H fails s b now))
  = updN (bars_logic s) (N.to_nat b) (lstep_bar now (ODrop b)).
Proof.
  unfold bar_drop.
  assert (Hfin : finished (get_bar s b) = l_finished (nth (N.to_nat b) (bars_logic s) logic_default))
    by (rewrite <- logic_of_get_bar; reflexivity).
  assert (Hon : b_on_finish (get_bar s b) = l_on_finish (nth (N.to_nat b) (bars_logic s) logic_default))
    by (rewrite <- logic_of_get_bar; reflexivity).
  destruct (finished (get_bar s b)) eqn:Ef.
  - cbn [fst]. rewrite (bars_logic_upd _ b _ (fun l => lw_alive l false)) by reflexivity.
    rewrite mark_zombie_logic. apply updN_ext_at with (d := logic_default). intros _.
    cbn [lstep_bar]. now rewrite <- Hfin.
  - pose proof (bar_finish_logic W H fails s b (b_on_finish (get_bar s b)) now) as Hf.
    destruct (bar_finish W H fails s b (b_on_finish (get_bar s b)) now) as [s1 e]. cbn [fst] in *.
    rewrite (bars_logic_upd _ b _ (fun l => lw_alive l false)) by reflexivity.
    rewrite mark_zombie_logic, Hf, updN_updN.
    apply updN_ext_at with (d := logic_default). intros _.
    cbn [lstep_bar]. now rewrite <- Hfin, <- Hon.
Qed.

(** THE projection theorem: the logic after a call is [lstep] of the logic before it - whatever
    the targets, the terminal size, the MultiProgress state and the fault oracle are. *)
Theorem step_logic W H fails s now o :
  bars_logic (fst (fst (step W H fails s now o))) = lstep now o (bars_logic s).
Proof.
  destruct o; cbn [step lstep op_bar lstep_bar fst snd];
    try (rewrite updN_id);
    try reflexivity;
    try (rewrite bar_draw_logic; apply bars_logic_upd; reflexivity);
    try (apply bars_logic_upd; reflexivity).
  - apply bar_tick_logic.
  - apply bar_pos_update_logic.
  - apply bar_pos_update_logic.
  - apply bar_pos_update_logic.
  - apply bar_println_logic.
  - apply bar_suspend_logic.
  - apply bar_finish_logic.
  - rewrite bar_finish_logic. apply updN_ext_at with (d := logic_default). intros _.
    rewrite <- logic_of_get_bar. reflexivity.
  - apply bar_draw_logic.
  - apply bar_draw_logic.
  - apply bar_drop_logic.
  - (* OInsert (a bar that is a member already: no effect, fix bee77c9) *)
    destruct (b_target (get_bar s b)); [| |reflexivity];
      (match goal with |- context [match ?X with Some _ => _ | None => _ end] => destruct X as [[m1 idx]|] end;
       [cbn [fst]; rewrite bar_set_target_logic; reflexivity | reflexivity]).
  - (* ORemove *)
    destruct (b_target (get_bar s b)) as [|tg|idx]; try reflexivity.
    destruct (ms_draw W H fails _ true None now _) as [[[m2 e] c'] ok]. cbn [fst].
    rewrite bars_logic_set_calls, bars_logic_set_mp. now apply bars_logic_upd_id.
  - destruct (ms_draw W H fails _ true _ now _) as [[[m2 e] c'] ok]. reflexivity.
  - destruct (ms_suspend W H fails _ _ now _) as [[m2 e] c']. reflexivity.
  - destruct (ms_clear W H fails _ _) as [[[m2 e] c'] ok]. reflexivity.
Qed.

Theorem run_logics_spec W H fails ops : forall s,
  run_logics W H fails s ops = ltrace (bars_logic s) ops.
Proof.
  induction ops as [|[now o] r IH]; intros s; cbn [run_logics ltrace]; [reflexivity|].
  pose proof (step_logic W H fails s now o) as Hs.
  destruct (step W H fails s now o) as [[s1 e] ok]. cbn [fst] in Hs.
  rewrite IH, Hs. reflexivity.
Qed.

(** C06_equiv / C18_state in one: two systems with the same logic - whatever their targets,
    terminals, MultiProgress states and fault oracles - have the same logic after every op of
    the same timed history. *)
Theorem logic_simulation W1 H1 f1 W2 H2 f2 s1 s2 ops :
  bars_logic s1 = bars_logic s2 ->
  run_logics W1 H1 f1 s1 ops = run_logics W2 H2 f2 s2 ops.
Proof. intros Heq. rewrite !run_logics_spec, Heq. reflexivity. Qed.

Lemma hide_all_logic s : bars_logic (hide_all s) = bars_logic s.
Proof. unfold bars_logic, hide_all; cbn. rewrite map_map. apply map_ext. reflexivity. Qed.
Lemma hide_mp_logic s : bars_logic (hide_mp s) = bars_logic s.
Proof. reflexivity. Qed.

Lemma hide_all_hidden s : all_hidden (hide_all s).
Proof.
  split; [reflexivity|]. unfold hide_all; cbn. apply Forall_forall. intros x Hx.
  apply in_map_iff in Hx. destruct Hx as [y [<- _]]. reflexivity.
Qed.

(* the getters in terms of the logic record *)
Lemma getters_of_logic b :
  b_pos b = l_pos (logic_of b) /\ b_len b = l_len (logic_of b) /\ b_msg b = l_msg (logic_of b)
  /\ b_prefix b = l_prefix (logic_of b) /\ finished b = l_finished (logic_of b)
  /\ b_tick b = l_tick (logic_of b) /\ b_ap b = l_ap (logic_of b) /\ b_alive b = l_alive (logic_of b).
Proof. repeat split. Qed.

(* ================================================================== fault oracle plumbing *)
Lemma emit_each_count fails ops : forall c, snd (emit_each fails c ops) = c + N.of_nat (length ops).
Proof.
  induction ops as [|o r IH]; intros c; cbn [emit_each length].
  - cbn. lia.
  - specialize (IH (c + 1)). destruct (emit_each fails (c + 1) r) as [e c'].
    cbn [snd] in *. destruct (fails c); cbn [snd]; lia.
Qed.

Lemma emit_each_nil fails c : emit_each fails c [] = ([], c).
Proof. reflexivity. Qed.

(* emit: the counter advances by the number of calls attempted; Ok iff none of them failed;
   the calls that reach the terminal are a prefix of the planned ones (all of them when Ok) *)
Lemma emit_spec fails ops : forall c e c' ok,
  emit fails c ops = (e, c', ok) ->
  c <= c' /\ c' <= c + N.of_nat (length ops) /\
  (ok = true -> e = ops /\ c' = c + N.of_nat (length ops)) /\
  (ok = false <-> exists k, c <= k < c' /\ fails k = true) /\
  (forall k, c <= k < c' - 1 -> fails k = false) /\
  e = firstn (length e) ops.
Proof.
  induction ops as [|o r IH]; intros c e c' ok Hem; cbn [emit] in Hem.
  - inversion Hem; subst. cbn [length].
    split; [lia|]. split; [lia|]. split; [intros _; split; [reflexivity|lia]|].
    split; [split; [discriminate|intros [k [Hk _]]; lia]|].
    split; [intros k Hk; lia|reflexivity].
  - destruct (fails c) eqn:Ec.
    + inversion Hem; subst. cbn [length].
      split; [lia|]. split; [lia|]. split; [discriminate|].
      split; [split; [intros _; exists c; split; [lia|exact Ec]|reflexivity]|].
      split; [intros k Hk; lia|reflexivity].
    + destruct (emit fails (c + 1) r) as [[e1 c1] ok1] eqn:E1. inversion Hem; subst.
      destruct (IH _ _ _ _ E1) as (Hle & Hub & Hok & Hiff & Hpre & Hfn).
      cbn [length].
      split; [lia|]. split; [lia|].
      split; [intros Ht; destruct (Hok Ht) as [-> ->]; split; [reflexivity|lia]|].
      split; [split|].
      * intros Hf. apply Hiff in Hf. destruct Hf as [k [Hk Hfk]]. exists k. split; [lia|exact Hfk].
      * intros [k [Hk Hfk]]. apply Hiff. exists k. split; [|exact Hfk].
        assert (k <> c) by (intros ->; congruence). lia.
      * split.
        -- intros k Hk. destruct (N.eq_dec k c) as [->|Hne]; [exact Ec|]. apply Hpre. lia.
        -- cbn [firstn]. f_equal. exact Hfn.
Qed.

Lemma emit_no_faults ops c : emit no_faults c ops = (ops, c + N.of_nat (length ops), true).
Proof.
  revert c; induction ops as [|o r IH]; intros c; cbn [emit length].
  - f_equal. f_equal. lia.
  - unfold no_faults at 1. rewrite IH. f_equal. f_equal. lia.
Qed.

(* ================================================================== C06: silence *)
Lemma ms_eta m : set_ms_target m (ms_target m) = m.
Proof. destruct m; reflexivity. Qed.

Lemma ms_draw_hidden W H fails m force extra now c :
  is_term (ms_target m) = false -> ms_draw W H fails m force extra now c = (m, [], c, true).
Proof. unfold ms_draw. destruct (ms_target m); [reflexivity|discriminate|reflexivity]. Qed.

Lemma ms_clear_hidden W H fails m c :
  is_term (ms_target m) = false -> ms_clear W H fails m c = (m, [], c, true).
Proof. unfold ms_clear. destruct (ms_target m); [reflexivity|discriminate|reflexivity]. Qed.

Lemma ms_suspend_hidden W H fails m ws now c :
  is_term (ms_target m) = false ->
  ms_suspend W H fails m ws now c
  = (m, fst (emit_each fails c (map TLine ws)), snd (emit_each fails c (map TLine ws))).
Proof.
  intros Hh. unfold ms_suspend. rewrite ms_clear_hidden by exact Hh.
  assert (Hm : set_ms_target m (match ms_target m with
                               | TTerm tg => TTerm (mktt 0 (tt_rl tg) (tt_align tg) (tt_below tg))
                               | t => t end) = m).
  { destruct m as [a b c0 d e f tgt]; destruct tgt; try reflexivity; discriminate. }
  rewrite Hm. destruct (emit_each fails c (map TLine ws)) as [e2 c2].
  rewrite ms_draw_hidden by exact Hh. cbn [fst snd]. now rewrite app_nil_r.
Qed.

Lemma bar_hidden_upd s b f :
  (forall x, b_target (f x) = b_target x) -> bar_hidden (upd_bar s b f) b = bar_hidden s b.
Proof.
  intros Hf. unfold bar_hidden.
  rewrite (get_bar_upd_field b_target s b f Hf). reflexivity.
Qed.

(* a draw on a hidden bar: no call, the call counter does not move *)
Lemma bar_draw_hidden W H fails s b force now :
  bar_hidden s b = true ->
  snd (bar_draw W H fails s b force now) = [] /\
  s_calls (fst (bar_draw W H fails s b force now)) = s_calls s.
Proof.
  unfold bar_hidden, bar_draw. destruct (b_target (get_bar s b)) as [|tg|idx]; intros Hh.
  - split; reflexivity.
  - discriminate.
  - rewrite ms_draw_hidden by (cbn; now destruct (ms_target (s_mp s))). split; reflexivity.
Qed.

Lemma bar_println_hidden W H fails s b msg now :
  bar_hidden s b = true ->
  snd (bar_println W H fails s b msg now) = [] /\
  s_calls (fst (bar_println W H fails s b msg now)) = s_calls s.
Proof.
  unfold bar_hidden, bar_println. destruct (b_target (get_bar s b)) as [|tg|idx]; intros Hh.
  - split; reflexivity.
  - discriminate.
  - rewrite ms_draw_hidden by (cbn; now destruct (ms_target (s_mp s))). split; reflexivity.
Qed.

Lemma bar_suspend_hidden W H fails s b ws now :
  bar_hidden s b = true ->
  snd (bar_suspend W H fails s b ws now) = fst (emit_each fails (s_calls s) (map TLine ws)) /\
  s_calls (fst (bar_suspend W H fails s b ws now)) = s_calls s + N.of_nat (length ws).
Proof.
  unfold bar_hidden, bar_suspend. destruct (b_target (get_bar s b)) as [|tg|idx]; intros Hh.
  - pose proof (emit_each_count fails (map TLine ws) (s_calls s)) as Hc.
    destruct (emit_each fails (s_calls s) (map TLine ws)) as [e c']. cbn [fst snd] in *.
    rewrite map_length in Hc. split; [reflexivity|exact Hc].
  - discriminate.
  - rewrite ms_suspend_hidden by (now destruct (ms_target (s_mp s))).
    pose proof (emit_each_count fails (map TLine ws) (s_calls s)) as Hc.
    rewrite map_length in Hc. cbn [fst snd]. split; [reflexivity|exact Hc].
Qed.

Lemma upd_draw_hidden W H fails s b f fo now :
  bar_hidden s b = true -> (forall x, b_target (f x) = b_target x) ->
  snd (bar_draw W H fails (upd_bar s b f) b fo now) = [] /\
  s_calls (fst (bar_draw W H fails (upd_bar s b f) b fo now)) = s_calls s.
Proof.
  intros Hh Hf.
  destruct (bar_draw_hidden W H fails (upd_bar s b f) b fo now) as [He Hc].
  - now rewrite bar_hidden_upd.
  - split; [exact He|exact Hc].
Qed.

Lemma bar_pos_update_hidden W H fails s b f now :
  bar_hidden s b = true ->
  snd (bar_pos_update W H fails s b f now) = [] /\
  s_calls (fst (bar_pos_update W H fails s b f now)) = s_calls s.
Proof.
  intros Hh. unfold bar_pos_update.
  destruct (ap_allow _ now) as [a ap']. destruct a; [|split; reflexivity].
  unfold bar_tick. rewrite !upd_bar_upd_bar.
  apply upd_draw_hidden; [exact Hh|reflexivity].
Qed.

Lemma final_of_target k x : b_target (final_of k x) = b_target x.
Proof. destruct k, x as [p [l|] tk st mg pf tm onf ap tg al]; reflexivity. Qed.

Lemma bar_finish_hidden W H fails s b k now :
  bar_hidden s b = true ->
  snd (bar_finish W H fails s b k now) = [] /\
  s_calls (fst (bar_finish W H fails s b k now)) = s_calls s.
Proof.
  intros Hh. rewrite bar_finish_eq. apply upd_draw_hidden; [exact Hh|apply final_of_target].
Qed.

Lemma mark_zombie_calls W s b : s_calls (mark_zombie W s b) = s_calls s.
Proof. unfold mark_zombie. destruct (b_target (get_bar s b)); reflexivity. Qed.

Lemma bar_drop_hidden W H fails s b now :
  bar_hidden s b = true ->
  snd (bar_drop W H fails s b now) = [] /\
  s_calls (fst (bar_drop W H fails s b now)) = s_calls s.
Proof.
  intros Hh. unfold bar_drop. destruct (finished (get_bar s b)).
  - cbn [fst snd]. split; [reflexivity|]. cbn [upd_bar set_s_bars s_calls]. apply mark_zombie_calls.
  - destruct (bar_finish_hidden W H fails s b (b_on_finish (get_bar s b)) now Hh) as [He Hc].
    destruct (bar_finish W H fails s b (b_on_finish (get_bar s b)) now) as [s1 e].
    cbn [fst snd] in *. split; [exact He|]. cbn [upd_bar set_s_bars s_calls].
    rewrite mark_zombie_calls. exact Hc.
Qed.

Lemma ms_remove_idx_target m idx : ms_target (ms_remove_idx m idx) = ms_target m.
Proof. unfold ms_remove_idx. destruct (memN idx (ms_free m)); reflexivity. Qed.

Lemma ms_insert_target m l m1 idx : ms_insert m l = Some (m1, idx) -> ms_target m1 = ms_target m.
Proof.
  unfold ms_insert. destruct (ms_free m) as [|i fr]; destruct l; cbn;
    repeat match goal with |- context [posN ?r ?o] => destruct (posN r o) end;
    intros Heq; inversion Heq; reflexivity.
Qed.

Lemma bar_set_target_hidden W H fails s b t now :
  bar_hidden s b = true ->
  snd (bar_set_target W H fails s b t now) = [] /\
  s_calls (fst (bar_set_target W H fails s b t now)) = s_calls s.
Proof.
  unfold bar_hidden, bar_set_target. destruct (b_target (get_bar s b)) as [|tg|idx0]; intros Hh.
  - split; reflexivity.
  - discriminate.
  - rewrite ms_draw_hidden by (cbn; now destruct (ms_target (s_mp s))). split; reflexivity.
Qed.

(** One call whose subject (the bar it is made on, or the MultiProgress itself) is hidden:
    the only TermLike calls are the ones the closure of a suspend makes itself, the call counter
    advances by exactly those, and the call reports Ok. *)
Theorem step_silent W H fails s now o :
  subject_hidden s o = true ->
  snd (fst (step W H fails s now o)) = fst (emit_each fails (s_calls s) (closure_writes o)) /\
  s_calls (fst (fst (step W H fails s now o))) = s_calls s + N.of_nat (length (closure_writes o)) /\
  snd (step W H fails s now o) = true.
Proof.
  unfold subject_hidden.
  assert (Hz : forall c : N, c = c + N.of_nat 0) by (intros; lia).
  destruct o; cbn [op_bar step closure_writes fst snd emit_each length]; intros Hh;
    try (split; [reflexivity|split; [apply Hz|reflexivity]]);
    try (match goal with |- context [bar_draw ?W0 ?H0 ?f0 (upd_bar ?s0 ?b0 ?f) ?b0 ?fo ?n0] =>
           destruct (upd_draw_hidden W0 H0 f0 s0 b0 f fo n0 Hh) as [He Hc]; [reflexivity|];
           rewrite He, Hc; split; [reflexivity|split; [apply Hz|reflexivity]] end).
  - (* OTick *) unfold bar_tick.
    match goal with |- context [bar_draw ?W0 ?H0 ?f0 (upd_bar ?s0 ?b0 ?f) ?b0 ?fo ?n0] =>
           destruct (upd_draw_hidden W0 H0 f0 s0 b0 f fo n0 Hh) as [He Hc]; [reflexivity|] end.
    rewrite He, Hc. split; [reflexivity|split; [apply Hz|reflexivity]].
  - destruct (bar_pos_update_hidden W H fails s b (fun p => wadd64 p d) now Hh) as [He Hc].
    rewrite He, Hc. split; [reflexivity|split; [apply Hz|reflexivity]].
  - destruct (bar_pos_update_hidden W H fails s b (fun p => wsub64 p d) now Hh) as [He Hc].
    rewrite He, Hc. split; [reflexivity|split; [apply Hz|reflexivity]].
  - destruct (bar_pos_update_hidden W H fails s b (fun _ => p) now Hh) as [He Hc].
    rewrite He, Hc. split; [reflexivity|split; [apply Hz|reflexivity]].
  - (* OPrintln *) destruct (bar_println_hidden W H fails s b m now Hh) as [He Hc].
    rewrite He, Hc. split; [reflexivity|split; [apply Hz|reflexivity]].
  - (* OSuspend *) destruct (bar_suspend_hidden W H fails s b ws now Hh) as [He Hc].
    rewrite He, Hc, map_length. split; [reflexivity|split; reflexivity].
  - destruct (bar_finish_hidden W H fails s b k now Hh) as [He Hc].
    rewrite He, Hc. split; [reflexivity|split; [apply Hz|reflexivity]].
  - destruct (bar_finish_hidden W H fails s b (b_on_finish (get_bar s b)) now Hh) as [He Hc].
    rewrite He, Hc. split; [reflexivity|split; [apply Hz|reflexivity]].
  - destruct (bar_draw_hidden W H fails s b true now Hh) as [He Hc].
    rewrite He, Hc. split; [reflexivity|split; [apply Hz|reflexivity]].
  - destruct (bar_draw_hidden W H fails s b true now Hh) as [He Hc].
    rewrite He, Hc. split; [reflexivity|split; [apply Hz|reflexivity]].
  - destruct (bar_drop_hidden W H fails s b now Hh) as [He Hc].
    rewrite He, Hc. split; [reflexivity|split; [apply Hz|reflexivity]].
  - (* OInsert (a member: no effect, fix bee77c9) *)
    destruct (b_target (get_bar s b)) eqn:Ht0.
    + idtac.
      match goal with |- context [match ?X with Some l => ms_insert (s_mp s) l | None => None end] =>
        destruct X as [l|] end; [|split; [reflexivity|split; [apply Hz|reflexivity]]].
      destruct (ms_insert (s_mp s) l) as [[m1 idx]|] eqn:Ei;
        [|split; [reflexivity|split; [apply Hz|reflexivity]]].
      destruct (bar_set_target_hidden W H fails (set_s_mp s m1) b (TMulti idx) now) as [He Hc].
      { unfold bar_hidden in *. cbn [s_mp set_s_mp]. change (get_bar (set_s_mp s m1) b) with (get_bar s b).
        rewrite (ms_insert_target _ _ _ _ Ei). exact Hh. }
      cbn [fst snd]. rewrite He, Hc. split; [reflexivity|split; [apply Hz|reflexivity]].
    + idtac.
      match goal with |- context [match ?X with Some l => ms_insert (s_mp s) l | None => None end] =>
        destruct X as [l|] end; [|split; [reflexivity|split; [apply Hz|reflexivity]]].
      destruct (ms_insert (s_mp s) l) as [[m1 idx]|] eqn:Ei;
        [|split; [reflexivity|split; [apply Hz|reflexivity]]].
      destruct (bar_set_target_hidden W H fails (set_s_mp s m1) b (TMulti idx) now) as [He Hc].
      { unfold bar_hidden in *. cbn [s_mp set_s_mp]. change (get_bar (set_s_mp s m1) b) with (get_bar s b).
        rewrite (ms_insert_target _ _ _ _ Ei). exact Hh. }
      cbn [fst snd]. rewrite He, Hc. split; [reflexivity|split; [apply Hz|reflexivity]].
    + split; [reflexivity|split; [apply Hz|reflexivity]].
  - (* ORemove *)
    unfold bar_hidden in Hh. destruct (b_target (get_bar s b)) as [|tg|idx];
      [split; [reflexivity|split; [apply Hz|reflexivity]]|discriminate|].
    rewrite ms_draw_hidden by (cbn; rewrite ms_remove_idx_target; now destruct (ms_target (s_mp s))).
    split; [reflexivity|split; [apply Hz|reflexivity]].
  - (* OMPrintln *) unfold mp_hidden in Hh.
    rewrite ms_draw_hidden by (now destruct (ms_target (s_mp s))).
    split; [reflexivity|split; [apply Hz|reflexivity]].
  - (* OMSuspend *) unfold mp_hidden in Hh.
    rewrite ms_suspend_hidden by (now destruct (ms_target (s_mp s))).
    pose proof (emit_each_count fails (map TLine ws) (s_calls s)) as Hc. rewrite map_length in *.
    cbn [fst snd s_calls set_s_calls]. split; [reflexivity|split; [exact Hc|reflexivity]].
  - (* OMClear *) unfold mp_hidden in Hh.
    rewrite ms_clear_hidden by (now destruct (ms_target (s_mp s))).
    split; [reflexivity|split; [apply Hz|reflexivity]].
Qed.

(* ------------------------------------------------------------------ no op creates a terminal target *)
Definition T (t t' : target) : Prop := t' = t \/ (is_term t = true /\ is_term t' = true).
Definition tgt_le (s s' : sys) : Prop :=
  (forall j, T (b_target (get_bar s j)) (b_target (get_bar s' j))) /\
  is_term (ms_target (s_mp s')) = is_term (ms_target (s_mp s)).

Lemma T_refl t : T t t. Proof. now left. Qed.
Lemma T_trans a b c : T a b -> T b c -> T a c.
Proof.
  intros [->|[Ha Hb]] [->|[Hb' Hc]]; try (now left); try (right; split; assumption).
Qed.
Lemma tgt_le_refl s : tgt_le s s. Proof. split; [intros; apply T_refl|reflexivity]. Qed.
Lemma tgt_le_trans a b c : tgt_le a b -> tgt_le b c -> tgt_le a c.
Proof.
  intros [H1 K1] [H2 K2]. split; [intros j; eapply T_trans; [apply H1|apply H2]|congruence].
Qed.

Lemma get_bar_upd_other s b f j : j <> b -> get_bar (upd_bar s b f) j = get_bar s j.
Proof.
  intros Hne. unfold get_bar, upd_bar, nthN; cbn. apply nth_updN_other. lia.
Qed.
Lemma get_bar_upd_same s b f :
  get_bar (upd_bar s b f) b
  = if (N.to_nat b <? length (s_bars s))%nat then f (get_bar s b) else get_bar s b.
Proof.
  unfold get_bar, upd_bar, nthN, set_s_bars; cbn [s_bars]. rewrite nth_updN_same.
  destruct (N.to_nat b <? length (s_bars s))%nat eqn:E; [reflexivity|].
  apply Nat.ltb_ge in E. now rewrite nth_overflow by exact E.
Qed.

Lemma tgt_le_upd_at s b f :
  T (b_target (get_bar s b)) (b_target (f (get_bar s b))) -> tgt_le s (upd_bar s b f).
Proof.
  intros HT. split; [|reflexivity]. intros j. destruct (N.eq_dec j b) as [->|Hne].
  - rewrite get_bar_upd_same. destruct (_ <? _)%nat; [exact HT|apply T_refl].
  - rewrite get_bar_upd_other by exact Hne. apply T_refl.
Qed.

Lemma tgt_le_upd_keep s b f :
  (forall x, b_target (f x) = b_target x) -> tgt_le s (upd_bar s b f).
Proof. intros Hf. apply tgt_le_upd_at. rewrite Hf. apply T_refl. Qed.

Lemma tgt_le_mp_calls s m c :
  is_term (ms_target m) = is_term (ms_target (s_mp s)) -> tgt_le s (set_s_calls (set_s_mp s m) c).
Proof. intros Hk. split; [intros j; apply T_refl|exact Hk]. Qed.

Lemma fold_remove_target zs : forall m, ms_target (fold_left ms_remove_idx zs m) = ms_target m.
Proof.
  induction zs as [|z r IH]; intros m; cbn [fold_left]; [reflexivity|].
  rewrite IH. apply ms_remove_idx_target.
Qed.

Lemma term_draw_kind W H fails tg ls c :
  forall tg' e c' ok, term_draw W H fails tg ls c = (tg', e, c', ok) ->
  tt_rl tg' = tt_rl tg /\ tt_align tg' = tt_align tg.
Proof.
  intros tg' e c' ok. unfold term_draw.
  destruct (draw_to_term ls (tt_n tg) (tt_align tg) (tt_below tg) W H) as [[ops n'] below'].
  destruct (emit fails c ops) as [[e0 c0] ok0]. intros Heq; inversion Heq; subst. split; reflexivity.
Qed.

Lemma ms_draw_kind W H fails m force extra now c :
  is_term (ms_target (fst (fst (fst (ms_draw W H fails m force extra now c))))) = is_term (ms_target m).
Proof.
  unfold ms_draw. destruct (ms_target m) as [|tg|i] eqn:Et; cbn [fst]; try (rewrite Et; reflexivity).
  match goal with |- context [if ?c then (tt_adjust_clear tg ?z, 0) else (tg, ?z')] =>
    destruct c end.
  all: match goal with |- context [tt_allow ?t ?f ?n] => destruct (tt_allow t f n) as [a tg2] end;
    destruct a; cbn [negb fst]; try reflexivity;
    match goal with |- context [term_draw ?W0 ?H0 ?f0 ?t ?l ?c0] =>
      destruct (term_draw W0 H0 f0 t l c0) as [[[tg3 e] c'] ok] end; cbn [fst].
  - rewrite fold_remove_target. reflexivity.
  - cbn [set_ms_zombie_lines set_ms_target ms_target]. rewrite fold_remove_target. reflexivity.
Qed.

Lemma ms_clear_kind W H fails m c :
  is_term (ms_target (fst (fst (fst (ms_clear W H fails m c))))) = is_term (ms_target m).
Proof.
  unfold ms_clear. destruct (ms_target m) as [|tg|i] eqn:Et; cbn [fst]; try (rewrite Et; reflexivity).
  destruct (term_draw W H fails _ [] c) as [[[tg2 e] c'] ok]. reflexivity.
Qed.

Lemma ms_suspend_kind W H fails m ws now c :
  is_term (ms_target (fst (fst (ms_suspend W H fails m ws now c)))) = is_term (ms_target m).
Proof.
  unfold ms_suspend. pose proof (ms_clear_kind W H fails m c) as Hc.
  destruct (ms_clear W H fails m c) as [[[m1 e1] c1] ok1]. cbn [fst] in Hc.
  destruct (emit_each fails c1 (map TLine ws)) as [e2 c2].
  match goal with |- context [ms_draw W H fails ?mm true None now c2] =>
    pose proof (ms_draw_kind W H fails mm true None now c2) as Hd;
    destruct (ms_draw W H fails mm true None now c2) as [[[m3 e3] c3] ok3] end.
  cbn [fst] in *. rewrite Hd. cbn [ms_target set_ms_target]. rewrite <- Hc.
  destruct (ms_target m1); reflexivity.
Qed.

Lemma ms_mark_zombie_kind W m idx :
  is_term (ms_target (ms_mark_zombie W m idx)) = is_term (ms_target m).
Proof.
  unfold ms_mark_zombie. destruct (ms_order m) as [|first r]; [reflexivity|].
  destruct (negb (idx =? first)); [reflexivity|].
  rewrite ms_remove_idx_target. cbn [ms_target set_ms_target].
  unfold target_adjust_keep. destruct (ms_target m); reflexivity.
Qed.

Lemma bar_draw_tgt W H fails s b force now : tgt_le s (fst (bar_draw W H fails s b force now)).
Proof.
  unfold bar_draw. destruct (b_target (get_bar s b)) as [|tg|idx] eqn:Et.
  - apply tgt_le_refl.
  - destruct (tt_allow tg _ now) as [a tg1]. destruct a; cbn [negb].
    + destruct (term_draw W H fails tg1 _ _) as [[[tg2 e] c'] ok]. cbn [fst].
      eapply tgt_le_trans; [apply (tgt_le_upd_at s b (fun x => set_b_target x (TTerm tg2)))|].
      * rewrite Et. right. split; reflexivity.
      * split; [intros j; apply T_refl|reflexivity].
    + cbn [fst]. apply tgt_le_upd_at. rewrite Et. right. split; reflexivity.
  - match goal with |- context [ms_draw W H fails ?mm ?f None now ?c] =>
      pose proof (ms_draw_kind W H fails mm f None now c) as Hd;
      destruct (ms_draw W H fails mm f None now c) as [[[m2 e] c'] ok] end.
    cbn [fst] in *. apply tgt_le_mp_calls. exact Hd.
Qed.

Lemma bar_println_tgt W H fails s b msg now : tgt_le s (fst (bar_println W H fails s b msg now)).
Proof.
  unfold bar_println. destruct (b_target (get_bar s b)) as [|tg|idx] eqn:Et.
  - apply tgt_le_refl.
  - destruct (term_draw W H fails tg _ _) as [[[tg2 e] c'] ok]. cbn [fst].
    eapply tgt_le_trans; [apply (tgt_le_upd_at s b (fun x => set_b_target x (TTerm tg2)))|].
    + rewrite Et. right. split; reflexivity.
    + split; [intros j; apply T_refl|reflexivity].
  - match goal with |- context [ms_draw W H fails ?mm ?f None now ?c] =>
      pose proof (ms_draw_kind W H fails mm f None now c) as Hd;
      destruct (ms_draw W H fails mm f None now c) as [[[m2 e] c'] ok] end.
    cbn [fst] in *. apply tgt_le_mp_calls. exact Hd.
Qed.

Lemma bar_suspend_tgt W H fails s b ws now : tgt_le s (fst (bar_suspend W H fails s b ws now)).
Proof.
  unfold bar_suspend. destruct (b_target (get_bar s b)) as [|tg|idx] eqn:Et.
  - destruct (emit_each fails _ _) as [e c']. cbn [fst]. split; [intros j; apply T_refl|reflexivity].
  - destruct (term_draw W H fails tg [] _) as [[[tg1 e1] c1] ok1].
    destruct (emit_each fails c1 _) as [e2 c2].
    match goal with |- context [bar_draw W H fails ?s1 b true now] =>
      pose proof (bar_draw_tgt W H fails s1 b true now) as Hd;
      destruct (bar_draw W H fails s1 b true now) as [s2 e3] end.
    cbn [fst] in *. eapply tgt_le_trans; [|exact Hd].
    eapply tgt_le_trans; [apply (tgt_le_upd_at s b (fun x => set_b_target x (TTerm tg1)))|].
    + rewrite Et. right. split; reflexivity.
    + split; [intros j; apply T_refl|reflexivity].
  - pose proof (ms_suspend_kind W H fails (s_mp s) ws now (s_calls s)) as Hk.
    destruct (ms_suspend W H fails _ ws now _) as [[m2 e] c']. cbn [fst] in *.
    apply tgt_le_mp_calls. exact Hk.
Qed.

Lemma bar_finish_tgt W H fails s b k now : tgt_le s (fst (bar_finish W H fails s b k now)).
Proof.
  rewrite bar_finish_eq. eapply tgt_le_trans; [|apply bar_draw_tgt].
  apply tgt_le_upd_keep. apply final_of_target.
Qed.

Lemma mark_zombie_tgt W s b : tgt_le s (mark_zombie W s b).
Proof.
  unfold mark_zombie. destruct (b_target (get_bar s b)); try apply tgt_le_refl.
  split; [intros j; apply T_refl|]. cbn [s_mp set_s_mp]. apply ms_mark_zombie_kind.
Qed.

Lemma bar_drop_tgt W H fails s b now : tgt_le s (fst (bar_drop W H fails s b now)).
Proof.
  unfold bar_drop. destruct (finished (get_bar s b)).
  - cbn [fst]. eapply tgt_le_trans; [apply mark_zombie_tgt|]. now apply tgt_le_upd_keep.
  - pose proof (bar_finish_tgt W H fails s b (b_on_finish (get_bar s b)) now) as Hf.
    destruct (bar_finish W H fails s b (b_on_finish (get_bar s b)) now) as [s1 e]. cbn [fst] in *.
    eapply tgt_le_trans; [exact Hf|]. eapply tgt_le_trans; [apply mark_zombie_tgt|].
    now apply tgt_le_upd_keep.
Qed.

Lemma bar_pos_update_tgt W H fails s b f now : tgt_le s (fst (bar_pos_update W H fails s b f now)).
Proof.
  unfold bar_pos_update. destruct (ap_allow _ now) as [a ap']. destruct a.
  - unfold bar_tick. rewrite !upd_bar_upd_bar. eapply tgt_le_trans; [|apply bar_draw_tgt].
    now apply tgt_le_upd_keep.
  - cbn [fst]. rewrite upd_bar_upd_bar. now apply tgt_le_upd_keep.
Qed.

Lemma bar_set_target_tgt W H fails s b t now :
  let s' := fst (bar_set_target W H fails s b t now) in
  is_term (ms_target (s_mp s')) = is_term (ms_target (s_mp s)) /\
  forall j, T (b_target (get_bar s j)) (b_target (get_bar s' j)) \/ (j = b /\ b_target (get_bar s' j) = t).
Proof.
  unfold bar_set_target.
  assert (Hgen : forall s1, tgt_le s s1 ->
     is_term (ms_target (s_mp (upd_bar s1 b (fun x => set_b_target x t)))) = is_term (ms_target (s_mp s)) /\
     forall j, T (b_target (get_bar s j)) (b_target (get_bar (upd_bar s1 b (fun x => set_b_target x t)) j))
               \/ (j = b /\ b_target (get_bar (upd_bar s1 b (fun x => set_b_target x t)) j) = t)).
  { intros s1 [Hj Hk]. split; [exact Hk|]. intros j. destruct (N.eq_dec j b) as [->|Hne].
    - rewrite get_bar_upd_same. destruct (_ <? _)%nat; [right; split; reflexivity|left; apply Hj].
    - rewrite get_bar_upd_other by exact Hne. left. apply Hj. }
  destruct (b_target (get_bar s b)) as [|tg|idx0]; cbn [fst].
  - apply Hgen, tgt_le_refl.
  - apply Hgen, tgt_le_refl.
  - match goal with |- context [ms_draw W H fails ?mm true None now ?c] =>
      pose proof (ms_draw_kind W H fails mm true None now c) as Hd;
      destruct (ms_draw W H fails mm true None now c) as [[[m2 e] c'] ok] end.
    cbn [fst] in *. apply Hgen. apply tgt_le_mp_calls. exact Hd.
Qed.

(** target kinds along one call: the MultiProgress' own target keeps its kind; a bar's target
    stays what it is (a terminal target only changes its counters), except that
    MultiProgress::remove hides the bar and add/insert attaches it to the MultiProgress. *)
Theorem step_targets W H fails s now o :
  let s' := fst (fst (step W H fails s now o)) in
  is_term (ms_target (s_mp s')) = is_term (ms_target (s_mp s)) /\
  forall j, T (b_target (get_bar s j)) (b_target (get_bar s' j))
            \/ (o = ORemove j /\ b_target (get_bar s' j) = THidden)
            \/ (exists l idx, o = OInsert l j /\ b_target (get_bar s' j) = TMulti idx).
Proof.
  assert (Hle : forall s', tgt_le s s' ->
    is_term (ms_target (s_mp s')) = is_term (ms_target (s_mp s)) /\
    forall j, T (b_target (get_bar s j)) (b_target (get_bar s' j))
            \/ (o = ORemove j /\ b_target (get_bar s' j) = THidden)
            \/ (exists l idx, o = OInsert l j /\ b_target (get_bar s' j) = TMulti idx)).
  { intros s' [Hj Hk]. split; [exact Hk|]. intros j. left. apply Hj. }
  destruct o; cbn [step fst snd];
    try (lazymatch goal with
         | |- context [ms_insert] => fail
         | |- context [ms_remove_idx] => fail
         | _ => apply Hle end);
    try apply tgt_le_refl;
    try (eapply tgt_le_trans; [|apply bar_draw_tgt]; now apply tgt_le_upd_keep);
    try (now apply tgt_le_upd_keep);
    try apply bar_pos_update_tgt; try apply bar_finish_tgt; try apply bar_draw_tgt.
  - apply bar_println_tgt.
  - apply bar_suspend_tgt.
  - apply bar_drop_tgt.
  - (* OInsert (a member: no effect, fix bee77c9) *)
    destruct (b_target (get_bar s b)) eqn:Ht0.
    + idtac.
      match goal with |- context [match ?X with Some l => ms_insert (s_mp s) l | None => None end] =>
        destruct X as [l|] end; [|apply Hle, tgt_le_refl].
      destruct (ms_insert (s_mp s) l) as [[m1 idx]|] eqn:Ei; [|apply Hle, tgt_le_refl].
      cbn [fst].
      destruct (bar_set_target_tgt W H fails (set_s_mp s m1) b (TMulti idx) now) as [Hk Hj].
      cbn [s_mp set_s_mp] in Hk. rewrite (ms_insert_target _ _ _ _ Ei) in Hk.
      split; [exact Hk|]. intros j. destruct (Hj j) as [HT|[-> Ht]].
      * left. exact HT.
      * right. right. exists loc, idx. split; [reflexivity|exact Ht].
    + idtac.
      match goal with |- context [match ?X with Some l => ms_insert (s_mp s) l | None => None end] =>
        destruct X as [l|] end; [|apply Hle, tgt_le_refl].
      destruct (ms_insert (s_mp s) l) as [[m1 idx]|] eqn:Ei; [|apply Hle, tgt_le_refl].
      cbn [fst].
      destruct (bar_set_target_tgt W H fails (set_s_mp s m1) b (TMulti idx) now) as [Hk Hj].
      cbn [s_mp set_s_mp] in Hk. rewrite (ms_insert_target _ _ _ _ Ei) in Hk.
      split; [exact Hk|]. intros j. destruct (Hj j) as [HT|[-> Ht]].
      * left. exact HT.
      * right. right. exists loc, idx. split; [reflexivity|exact Ht].
    + apply Hle, tgt_le_refl.
  - (* ORemove *)
    destruct (b_target (get_bar s b)) as [|tg|idx] eqn:Et; try (apply Hle, tgt_le_refl).
    match goal with |- context [ms_draw W H fails ?mm true None now ?c] =>
      pose proof (ms_draw_kind W H fails mm true None now c) as Hd;
      destruct (ms_draw W H fails mm true None now c) as [[[m2 e] c'] ok] end.
    cbn [fst s_mp set_s_mp set_s_calls upd_bar set_s_bars] in *.
    rewrite ms_remove_idx_target in Hd. split; [exact Hd|].
    intros j.
    change (get_bar (set_s_calls (set_s_mp (upd_bar s b (fun x => set_b_target x THidden)) m2) c') j)
      with (get_bar (upd_bar s b (fun x => set_b_target x THidden)) j).
    destruct (N.eq_dec j b) as [->|Hne].
    + rewrite get_bar_upd_same. destruct (_ <? _)%nat.
      * right. left. split; reflexivity.
      * left. apply T_refl.
    + rewrite get_bar_upd_other by exact Hne. left. apply T_refl.
  - (* OMPrintln *)
    match goal with |- context [ms_draw W H fails ?mm true ?ex now ?c] =>
      pose proof (ms_draw_kind W H fails mm true ex now c) as Hd;
      destruct (ms_draw W H fails mm true ex now c) as [[[m2 e] c'] ok] end.
    cbn [fst] in *. apply tgt_le_mp_calls. exact Hd.
  - pose proof (ms_suspend_kind W H fails (s_mp s) ws now (s_calls s)) as Hk.
    destruct (ms_suspend W H fails _ ws now _) as [[m2 e] c']. cbn [fst] in *.
    apply tgt_le_mp_calls. exact Hk.
  - pose proof (ms_clear_kind W H fails (s_mp s) (s_calls s)) as Hk.
    destruct (ms_clear W H fails _ _) as [[[m2 e] c'] ok]. cbn [fst] in *.
    apply tgt_le_mp_calls. exact Hk.
  - split; [intros j; apply T_refl|reflexivity].
Qed.

Lemma all_hidden_bar s j : all_hidden s -> bar_hidden s j = true.
Proof.
  intros [Hm Hb]. unfold bar_hidden, get_bar, nthN.
  destruct (Nat.lt_ge_cases (N.to_nat j) (length (s_bars s))) as [Hlt|Hge].
  - rewrite Forall_forall in Hb. specialize (Hb _ (nth_In _ bar_default Hlt)).
    destruct (b_target (nth (N.to_nat j) (s_bars s) bar_default)); [reflexivity|discriminate|exact Hm].
  - rewrite nth_overflow by exact Hge. reflexivity.
Qed.

Lemma all_hidden_subject s o : all_hidden s -> subject_hidden s o = true.
Proof.
  intros Hh. unfold subject_hidden. destruct (op_bar o); [now apply all_hidden_bar|apply Hh].
Qed.

Lemma step_length W H fails s now o :
  length (bars_logic (fst (fst (step W H fails s now o)))) = length (bars_logic s).
Proof.
  rewrite step_logic. unfold lstep. destruct (op_bar o); [apply updN_length|reflexivity].
Qed.

(** a hidden bar stays hidden until it is added to a MultiProgress (which may be visible) *)
Theorem hidden_preserved W H fails s now o j :
  bar_hidden s j = true -> (forall l, o <> OInsert l j) ->
  bar_hidden (fst (fst (step W H fails s now o))) j = true.
Proof.
  intros Hh Hni. destruct (step_targets W H fails s now o) as [Hk Hj].
  cbv zeta in *. unfold bar_hidden in *.
  destruct (Hj j) as [[Heq|[Ht _]]|[[_ Hr]|[l [idx [Ho _]]]]].
  - rewrite Heq. destruct (b_target (get_bar s j)); [reflexivity|discriminate|]. now rewrite Hk.
  - destruct (b_target (get_bar s j)); discriminate.
  - now rewrite Hr.
  - exfalso. exact (Hni l Ho).
Qed.

(** ... and a system in which nothing can draw stays one: no call attaches a terminal *)
Theorem all_hidden_preserved W H fails s now o :
  all_hidden s -> all_hidden (fst (fst (step W H fails s now o))).
Proof.
  intros Hh. destruct (step_targets W H fails s now o) as [Hk Hj]. cbv zeta in *.
  split; [unfold mp_hidden; rewrite Hk; apply Hh|].
  apply Forall_forall. intros x Hx. destruct (In_nth _ _ bar_default Hx) as [i [Hi Hn]].
  pose proof (all_hidden_bar s (N.of_nat i) Hh) as Hb. unfold bar_hidden in Hb.
  specialize (Hj (N.of_nat i)). unfold get_bar, nthN in Hj, Hb. rewrite Nat2N.id in Hj, Hb.
  rewrite Hn in Hj.
  destruct Hj as [[Heq|[Ht _]]|[[_ Hr]|[l [idx [_ Hr]]]]].
  - rewrite Heq. destruct (b_target (nth i (s_bars s) bar_default)); [reflexivity|discriminate|reflexivity].
  - destruct (b_target (nth i (s_bars s) bar_default)); discriminate.
  - now rewrite Hr.
  - now rewrite Hr.
Qed.

(** C06_silent over histories: from a state in which every target is hidden, a history whose
    suspend closures write nothing themselves emits no TermLike call at all, the call counter
    does not move, and the system is still all-hidden. *)
Theorem run_all_hidden_silent W H fails ops : forall s,
  all_hidden s ->
  Forall (fun to => closure_writes (snd to) = []) ops ->
  snd (run W H fails s ops) = [] /\
  s_calls (fst (run W H fails s ops)) = s_calls s /\
  all_hidden (fst (run W H fails s ops)).
Proof.
  induction ops as [|[now o] r IH]; intros s Hh Hcl; cbn [run].
  - repeat split; try reflexivity; apply Hh.
  - inversion Hcl as [|? ? Ho Hr]; subst. cbn [snd] in Ho.
    destruct (step_silent W H fails s now o (all_hidden_subject s o Hh)) as (He & Hc & _).
    pose proof (all_hidden_preserved W H fails s now o Hh) as Hp.
    destruct (step W H fails s now o) as [[s1 e] ok]. cbn [fst snd] in *.
    destruct (IH s1 Hp Hr) as (He2 & Hc2 & Hh2).
    destruct (run W H fails s1 r) as [s2 e2]. cbn [fst snd] in *.
    rewrite Ho in He, Hc. cbn in He, Hc. subst e e2.
    split; [reflexivity|]. split; [rewrite Hc2, Hc; lia|exact Hh2].
Qed.

(** the general form (closures may write): every step's calls are exactly what its closure
    wrote itself *)
Theorem run_all_hidden_steps W H fails ops : forall s,
  all_hidden s ->
  Forall (fun '(s0, o, e) => e = fst (emit_each fails (s_calls s0) (closure_writes o)))
         (run_steps W H fails s ops).
Proof.
  induction ops as [|[now o] r IH]; intros s Hh; cbn [run_steps]; [constructor|].
  destruct (step_silent W H fails s now o (all_hidden_subject s o Hh)) as (He & _ & _).
  pose proof (all_hidden_preserved W H fails s now o Hh) as Hp.
  destruct (step W H fails s now o) as [[s1 e] ok]. cbn [fst snd] in *.
  constructor; [exact He|apply IH; exact Hp].
Qed.

(** the mixed statement: a hidden bar next to visible ones never contributes a call, for as
    long as it is not added to a MultiProgress *)
Theorem hidden_bar_never_draws W H fails b ops : forall s,
  bar_hidden s b = true ->
  Forall (fun to => forall l, snd to <> OInsert l b) ops ->
  Forall (fun '(s0, o, e) => op_bar o = Some b ->
            e = fst (emit_each fails (s_calls s0) (closure_writes o)))
         (run_steps W H fails s ops).
Proof.
  induction ops as [|[now o] r IH]; intros s Hh Hni; cbn [run_steps]; [constructor|].
  inversion Hni as [|? ? Ho Hr]; subst. cbn [snd] in Ho.
  pose proof (hidden_preserved W H fails s now o b Hh Ho) as Hp.
  pose proof (step_silent W H fails s now o) as Hs.
  destruct (step W H fails s now o) as [[s1 e] ok]. cbn [fst snd] in *.
  constructor; [|apply IH; assumption].
  intros Hb. apply Hs. unfold subject_hidden. now rewrite Hb.
Qed.

(* ================================================================== C18: reporting *)
Lemma term_draw_emit W H fails tg ls c tg' e c' ok :
  term_draw W H fails tg ls c = (tg', e, c', ok) ->
  emit fails c (draw_calls ls (tt_n tg) (tt_align tg) (tt_below tg) W H) = (e, c', ok) /\
  tg' = mktt (if ok then draw_n ls (tt_n tg) (tt_align tg) (tt_below tg) W H else N.min (tt_n tg) H)
             (tt_rl tg) (tt_align tg)
             (if ok then draw_below ls (tt_n tg) (tt_align tg) (tt_below tg) W H else tt_below tg).
Proof.
  unfold term_draw, draw_calls, draw_n, draw_below.
  destruct (draw_to_term ls (tt_n tg) (tt_align tg) (tt_below tg) W H) as [[ops n'] below'].
  cbn [fst snd]. destruct (emit fails c ops) as [[e0 c0] ok0].
  intros Heq; inversion Heq; subst. split; reflexivity.
Qed.

Lemma term_draw_report W H fails tg ls c tg' e c' ok :
  term_draw W H fails tg ls c = (tg', e, c', ok) ->
  c <= c' /\ (ok = false <-> exists k, c <= k < c' /\ fails k = true).
Proof.
  intros Htd. destruct (term_draw_emit _ _ _ _ _ _ _ _ _ _ Htd) as [Hem _].
  destruct (emit_spec _ _ _ _ _ _ Hem) as (Hle & _ & _ & Hiff & _). split; assumption.
Qed.

Lemma ms_draw_forced_report W H fails m extra now c m' e c' ok :
  ms_draw W H fails m true extra now c = (m', e, c', ok) ->
  c <= c' /\ (ok = false <-> exists k, c <= k < c' /\ fails k = true).
Proof.
  assert (Hnone : forall c0 : N, c0 <= c0 /\ (true = false <-> exists k, c0 <= k < c0 /\ fails k = true)).
  { intros c0. split; [lia|]. split; [discriminate|]. intros [k [Hk _]]. lia. }
  unfold ms_draw. destruct (ms_target m) as [|tg|i];
    try (intros Heq; inversion Heq; subst; apply Hnone).
  match goal with |- context [if ?cnd then (tt_adjust_clear tg ?z, 0) else (tg, ?z')] =>
    destruct cnd end; cbn [orb tt_allow negb];
  match goal with |- context [term_draw W H fails ?t ?l c] =>
    destruct (term_draw W H fails t l c) as [[[tg3 e3] c3] ok3] eqn:Etd end;
  intros Heq; inversion Heq; subst; exact (term_draw_report _ _ _ _ _ _ _ _ _ _ Etd).
Qed.

Lemma ms_clear_report W H fails m c m' e c' ok :
  ms_clear W H fails m c = (m', e, c', ok) ->
  c <= c' /\ (ok = false <-> exists k, c <= k < c' /\ fails k = true).
Proof.
  assert (Hnone : forall c0 : N, c0 <= c0 /\ (true = false <-> exists k, c0 <= k < c0 /\ fails k = true)).
  { intros c0. split; [lia|]. split; [discriminate|]. intros [k [Hk _]]. lia. }
  unfold ms_clear. destruct (ms_target m) as [|tg|i];
    try (intros Heq; inversion Heq; subst; apply Hnone).
  match goal with |- context [term_draw W H fails ?t ?l c] =>
    destruct (term_draw W H fails t l c) as [[[tg3 e3] c3] ok3] eqn:Etd end.
  intros Heq; inversion Heq; subst. exact (term_draw_report _ _ _ _ _ _ _ _ _ _ Etd).
Qed.

(** C18_reports: a call returns Err exactly when it is MultiProgress::println / clear and one of
    the TermLike calls it made itself (numbers s_calls s .. s_calls s' - 1) failed; every other
    call returns (): the io::Result of its draw is discarded. *)
Theorem step_reports W H fails s now o :
  let '(s', e, ok) := step W H fails s now o in
  (ok = false <->
   is_reporting o = true /\ exists k, s_calls s <= k < s_calls s' /\ fails k = true) /\
  (is_reporting o = true -> s_calls s <= s_calls s').
Proof.
  assert (Hnr : forall s' : sys,
    (true = false <-> false = true /\ exists k, s_calls s <= k < s_calls s' /\ fails k = true) /\
    (false = true -> s_calls s <= s_calls s')).
  { intros s'. split; [split; [discriminate|intros [Hf _]; discriminate]|discriminate]. }
  destruct o; cbn [step is_reporting]; try apply Hnr.
  - (* OInsert *)
    destruct (b_target (get_bar s b)); [| |apply Hnr];
      (match goal with |- context [match ?X with Some l => ms_insert (s_mp s) l | None => None end] =>
         destruct X as [l|] end; [|apply Hnr];
       match goal with |- context [ms_insert (s_mp s) ?l0] =>
         destruct (ms_insert (s_mp s) l0) as [[m1 idx]|]; [|apply Hnr] end; cbn [fst snd]; apply Hnr).
  - (* ORemove *)
    destruct (b_target (get_bar s b)); try apply Hnr.
    destruct (ms_draw W H fails _ true None now _) as [[[m2 e] c'] ok]. apply Hnr.
  - (* OMPrintln *)
    destruct (ms_draw W H fails (s_mp s) true _ now (s_calls s)) as [[[m2 e] c'] ok] eqn:Ed.
    destruct (ms_draw_forced_report _ _ _ _ _ _ _ _ _ _ _ Ed) as [Hle Hiff].
    cbn [s_calls set_s_calls]. split; [|intros _; exact Hle].
    rewrite Hiff. split; [intros Hk; split; [reflexivity|exact Hk]|intros [_ Hk]; exact Hk].
  - (* OMSuspend *)
    destruct (ms_suspend W H fails (s_mp s) ws now (s_calls s)) as [[m2 e] c']. apply Hnr.
  - (* OMClear *)
    destruct (ms_clear W H fails (s_mp s) (s_calls s)) as [[[m2 e] c'] ok] eqn:Ed.
    destruct (ms_clear_report _ _ _ _ _ _ _ _ _ Ed) as [Hle Hiff].
    cbn [s_calls set_s_calls]. split; [|intros _; exact Hle].
    rewrite Hiff. split; [intros Hk; split; [reflexivity|exact Hk]|intros [_ Hk]; exact Hk].
Qed.

(* ================================================================== C04: the final frame *)
Lemma target_in_range s b : b_target (get_bar s b) <> THidden -> (N.to_nat b < length (s_bars s))%nat.
Proof.
  intros Hne. destruct (Nat.lt_ge_cases (N.to_nat b) (length (s_bars s))) as [Hlt|Hge]; [exact Hlt|].
  exfalso. apply Hne. unfold get_bar, nthN. now rewrite nth_overflow by exact Hge.
Qed.

Lemma get_bar_upd_in s b f :
  (N.to_nat b < length (s_bars s))%nat -> get_bar (upd_bar s b f) b = f (get_bar s b).
Proof. intros Hlt. rewrite get_bar_upd_same. apply Nat.ltb_lt in Hlt. now rewrite Hlt. Qed.

(** what a finish variant defines as the final state: position = length (when known) for the
    finish family and unchanged for the abandon family, the supplied message if any, everything
    else untouched, finished; the clearing variant shows nothing, the others the rendering of
    that final state *)
Lemma final_of_spec k x :
  b_pos (final_of k x) = (if fin_is_finish k then match b_len x with Some l => l | None => b_pos x end
                          else b_pos x) /\
  b_msg (final_of k x) = (match fin_msg k with Some m => m | None => b_msg x end) /\
  b_len (final_of k x) = b_len x /\ b_prefix (final_of k x) = b_prefix x /\
  b_tmpl (final_of k x) = b_tmpl x /\ b_tick (final_of k x) = b_tick x /\
  b_target (final_of k x) = b_target x /\ b_alive (final_of k x) = b_alive x /\
  finished (final_of k x) = true /\
  frame_of (final_of k x) = (match k with FAndClear => [] | _ => render (final_of k x) end).
Proof. destruct k, x as [p [l|] tk st mg pf tm onf ap tg al]; cbn; repeat split. Qed.

Lemma finished_set_target x t : finished (set_b_target x t) = finished x.
Proof. reflexivity. Qed.
Lemma render_parts_ext ps b b' :
  (forall p, expand p b = expand p b') ->
  forall cur acc, render_parts ps b cur acc = render_parts ps b' cur acc.
Proof.
  intros He. induction ps as [|p r IH]; intros cur acc; cbn [render_parts]; [reflexivity|].
  destruct p; rewrite ?IH; try reflexivity; now rewrite He.
Qed.
Lemma frame_of_set_target x t : frame_of (set_b_target x t) = frame_of x.
Proof.
  unfold frame_of, render. change (b_status (set_b_target x t)) with (b_status x).
  change (b_tmpl (set_b_target x t)) with (b_tmpl x).
  destruct (b_status x); try reflexivity; apply render_parts_ext; intros p; destruct p; reflexivity.
Qed.

(* a forced, fault-free draw of a standalone bar *)
Lemma bar_draw_forced_term W H s b tg now :
  b_target (get_bar s b) = TTerm tg ->
  let ls := frame_of (get_bar s b) in
  let tg' := mktt (draw_n ls (tt_n tg) (tt_align tg) (tt_below tg) W H) (tt_rl tg) (tt_align tg)
                  (draw_below ls (tt_n tg) (tt_align tg) (tt_below tg) W H) in
  let calls := draw_calls ls (tt_n tg) (tt_align tg) (tt_below tg) W H in
  bar_draw W H no_faults s b true now
  = (set_s_calls (upd_bar s b (fun x => set_b_target x (TTerm tg'))) (s_calls s + N.of_nat (length calls)),
     calls).
Proof.
  intros Ht. cbv zeta. unfold bar_draw. rewrite Ht. cbn [orb tt_allow negb].
  destruct (term_draw W H no_faults tg (frame_of (get_bar s b)) (s_calls s)) as [[[tg2 e] c'] ok] eqn:Etd.
  destruct (term_draw_emit _ _ _ _ _ _ _ _ _ _ Etd) as [Hem Htg].
  rewrite emit_no_faults in Hem. inversion Hem; subst e c' ok. rewrite Htg. reflexivity.
Qed.

(** C04_final_frame, standalone bar: whatever the history left behind (any state [s], any
    limiter state in [tg] and [b_ap], any time [now]), finish / finish_with_message /
    finish_and_clear / abandon / abandon_with_message paint: the calls are exactly those of a
    draw of the final state's frame. *)
Theorem finish_paints_standalone W H s b tg k now :
  b_target (get_bar s b) = TTerm tg ->
  let fb := final_of k (get_bar s b) in
  let ls := frame_of fb in
  let calls := draw_calls ls (tt_n tg) (tt_align tg) (tt_below tg) W H in
  let tg' := mktt (draw_n ls (tt_n tg) (tt_align tg) (tt_below tg) W H) (tt_rl tg) (tt_align tg)
                  (draw_below ls (tt_n tg) (tt_align tg) (tt_below tg) W H) in
  let '(s', e, ok) := step W H no_faults s now (OFinish b k) in
  e = calls /\ ok = true /\
  get_bar s' b = set_b_target fb (TTerm tg') /\
  finished (get_bar s' b) = true /\
  s_calls s' = s_calls s + N.of_nat (length calls) /\
  s_mp s' = s_mp s /\ (forall j, j <> b -> get_bar s' j = get_bar s j).
Proof.
  intros Ht. cbv zeta. cbn [step]. rewrite bar_finish_eq.
  assert (Hin : (N.to_nat b < length (s_bars s))%nat) by (apply target_in_range; rewrite Ht; discriminate).
  assert (Hg : get_bar (upd_bar s b (final_of k)) b = final_of k (get_bar s b)) by now apply get_bar_upd_in.
  assert (Ht' : b_target (get_bar (upd_bar s b (final_of k)) b) = TTerm tg)
    by (rewrite Hg, final_of_target; exact Ht).
  rewrite (bar_draw_forced_term W H _ b tg now Ht'). rewrite Hg. cbn [fst snd].
  rewrite upd_bar_upd_bar.
  split; [reflexivity|]. split; [reflexivity|].
  split; [|split; [|split; [reflexivity|split; [reflexivity|]]]].
  - change (get_bar (set_s_calls ?x _) b) with (get_bar x b). now rewrite get_bar_upd_in.
  - change (get_bar (set_s_calls ?x _) b) with (get_bar x b). rewrite get_bar_upd_in by exact Hin.
    rewrite finished_set_target. apply final_of_spec.
  - intros j Hne. change (get_bar (set_s_calls ?x _) j) with (get_bar x j).
    now apply get_bar_upd_other.
Qed.

(** finish_using_style() (and with it ProgressBarIter::next returning None on an unfinished
    bar, src/iter.rs:120-130) is finish with the stored ProgressFinish *)
Theorem finish_using_style_eq W H fails s b now :
  step W H fails s now (OFinishUsingStyle b)
  = step W H fails s now (OFinish b (b_on_finish (get_bar s b))).
Proof. reflexivity. Qed.

(** dropping the last handle of an unfinished bar: the same calls as finish_using_style, the
    same final logic, and the bar is gone *)
Theorem drop_unfinished_eq W H fails s b now :
  finished (get_bar s b) = false ->
  let '(s1, e1, _) := step W H fails s now (OFinishUsingStyle b) in
  step W H fails s now (ODrop b)
  = (upd_bar (mark_zombie W s1 b) b (fun x => set_b_alive x false), e1, true).
Proof.
  intros Hf. cbn [step]. unfold bar_drop. rewrite Hf.
  destruct (bar_finish W H fails s b (b_on_finish (get_bar s b)) now) as [s1 e]. reflexivity.
Qed.

(** C04_drop_finished_silent: dropping an already finished bar makes no TermLike call; the
    only state change is the handle going away plus, for a member of a MultiProgress, the slot
    bookkeeping of mark_zombie *)
Theorem drop_finished_silent W H fails s b now :
  finished (get_bar s b) = true ->
  step W H fails s now (ODrop b)
  = (upd_bar (mark_zombie W s b) b (fun x => set_b_alive x false), [], true).
Proof. intros Hf. cbn [step]. unfold bar_drop. rewrite Hf. reflexivity. Qed.

Lemma mark_zombie_standalone W s b :
  (forall idx, b_target (get_bar s b) <> TMulti idx) -> mark_zombie W s b = s.
Proof.
  intros Hn. unfold mark_zombie. destruct (b_target (get_bar s b)) as [| |idx]; try reflexivity.
  exfalso. now apply (Hn idx).
Qed.

Lemma mark_zombie_member W s b idx :
  b_target (get_bar s b) = TMulti idx -> mark_zombie W s b = set_s_mp s (ms_mark_zombie W (s_mp s) idx).
Proof. intros Ht. unfold mark_zombie. now rewrite Ht. Qed.

(* mark_zombie is pure bookkeeping: no line content changes, rows only move from "to be erased
   by the next draw" (last_line_count) to "kept" (zombie_lines_count) *)
Lemma ms_mark_zombie_spec W m idx :
  let m' := ms_mark_zombie W m idx in
  ms_orphans m' = ms_orphans m /\ ms_align m' = ms_align m /\
  is_term (ms_target m') = is_term (ms_target m) /\
  ms_zombie_lines m' + target_n (ms_target m') = ms_zombie_lines m + target_n (ms_target m) /\
  (ms_order m' = ms_order m \/
   ms_order m' = filter (fun x => negb (x =? idx)) (ms_order m)) /\
  (forall j, j <> idx -> nthN (ms_members m') j member_default = nthN (ms_members m) j member_default).
Proof.
  cbv zeta. unfold ms_mark_zombie. destruct (ms_order m) as [|first r] eqn:Eo.
  - rewrite Eo. repeat split; try reflexivity. now left.
  - destruct (negb (idx =? first)) eqn:En.
    + cbn [ms_orphans ms_align ms_target ms_zombie_lines ms_order ms_members set_ms_members].
      rewrite Eo. repeat split; try reflexivity; [now left|].
      intros j Hne. unfold nthN. apply nth_updN_other. lia.
    + unfold ms_remove_idx.
      set (lc := N.min _ (target_n (ms_target m))).
      assert (Hlc : lc <= target_n (ms_target m)) by (unfold lc; lia).
      assert (Hn : target_n (target_adjust_keep (ms_target m) lc) = target_n (ms_target m) - lc).
      { destruct (ms_target m); cbn; try lia. }
      assert (Hk : is_term (target_adjust_keep (ms_target m) lc) = is_term (ms_target m))
        by (destruct (ms_target m); reflexivity).
      destruct (memN idx _);
        cbn [ms_orphans ms_align ms_target ms_zombie_lines ms_order ms_members
             set_ms_members set_ms_target set_ms_zombie_lines set_ms_free set_ms_order];
        rewrite ?Eo, ?Hn.
      * repeat split; try reflexivity; try exact Hk; [lia|now left].
      * repeat split; try reflexivity; try exact Hk; [lia|now right|].
        intros j Hne. unfold nthN. apply nth_updN_other. lia.
Qed.

(* a forced, fault-free draw of the MultiProgress without extra lines *)
Lemma ms_draw_forced_calls W H m tg now c :
  ms_target m = TTerm tg ->
  let n1 := match ms_orphans m with [] => tt_n tg | _ => tt_n tg + ms_zombie_lines m end in
  let calls := draw_calls (ms_compose m) n1 (ms_align m) (tt_below tg) W H in
  snd (fst (fst (ms_draw W H no_faults m true None now c))) = calls /\
  snd (fst (ms_draw W H no_faults m true None now c)) = c + N.of_nat (length calls) /\
  snd (ms_draw W H no_faults m true None now c) = true.
Proof.
  intros Ht. cbv zeta. unfold ms_draw. rewrite Ht. cbn [orb].
  destruct (ms_orphans m) as [|o1 orest] eqn:Eo; cbn [negb orb tt_allow app].
  - match goal with |- context [term_draw W H no_faults ?t ?l c] =>
      destruct (term_draw W H no_faults t l c) as [[[tg3 e3] c3] ok3] eqn:Etd end.
    destruct (term_draw_emit _ _ _ _ _ _ _ _ _ _ Etd) as [Hem _]. rewrite emit_no_faults in Hem.
    inversion Hem; subst. cbn [fst snd tt_n tt_align tt_below].
    unfold ms_compose. rewrite Eo. cbn [app]. repeat split.
  - match goal with |- context [term_draw W H no_faults ?t ?l c] =>
      destruct (term_draw W H no_faults t l c) as [[[tg3 e3] c3] ok3] eqn:Etd end.
    destruct (term_draw_emit _ _ _ _ _ _ _ _ _ _ Etd) as [Hem _]. rewrite emit_no_faults in Hem.
    inversion Hem; subst. cbn [fst snd tt_n tt_align tt_below tt_adjust_clear].
    unfold ms_compose. rewrite Eo. repeat split.
Qed.

Lemma member_lines_store_same mems idx fr :
  (N.to_nat idx < length mems)%nat ->
  member_lines (updN mems (N.to_nat idx) (fun mem => mkmem (Some fr) (m_zombie mem))) idx = fr.
Proof.
  intros Hlt. unfold member_lines, nthN. rewrite nth_updN_same.
  apply Nat.ltb_lt in Hlt. rewrite Hlt. reflexivity.
Qed.
Lemma member_lines_store_other mems idx f j :
  j <> idx -> member_lines (updN mems (N.to_nat idx) f) j = member_lines mems j.
Proof. intros Hne. unfold member_lines, nthN. rewrite nth_updN_other by lia. reflexivity. Qed.

Lemma map_member_lines_other mems idx f l :
  ~ In idx l -> map (member_lines (updN mems (N.to_nat idx) f)) l = map (member_lines mems) l.
Proof.
  intros Hn. apply map_ext_in. intros j Hj. apply member_lines_store_other. intros ->. now apply Hn.
Qed.

(** where the member's frame sits in the line list the MultiProgress draws: at the member's
    place in the ordering, between the frames of the members before and after it *)
Lemma compose_store m idx fr pre post :
  (N.to_nat idx < length (ms_members m))%nat ->
  ms_order m = pre ++ idx :: post -> ~ In idx pre -> ~ In idx post ->
  ms_compose (ms_store m idx [] fr)
  = ms_orphans m ++ concat (map (member_lines (ms_members m)) pre) ++ fr
    ++ concat (map (member_lines (ms_members m)) post).
Proof.
  intros Hlt Ho Hpre Hpost. unfold ms_compose, ms_store.
  cbn [ms_orphans ms_members ms_order set_ms_orphans set_ms_members].
  rewrite app_nil_r, Ho, map_app, concat_app. cbn [map concat].
  rewrite member_lines_store_same by exact Hlt.
  rewrite !map_member_lines_other by assumption. reflexivity.
Qed.

(** C04_final_frame, member of a visible MultiProgress: the finish call paints - a forced draw
    of the whole MultiProgress whose line list carries the final frame at the member's place *)
Theorem finish_paints_member W H s b idx tg k now :
  b_target (get_bar s b) = TMulti idx -> ms_target (s_mp s) = TTerm tg ->
  let fb := final_of k (get_bar s b) in
  let m1 := ms_store (s_mp s) idx [] (frame_of fb) in
  let n1 := match ms_orphans (s_mp s) with [] => tt_n tg | _ => tt_n tg + ms_zombie_lines (s_mp s) end in
  let calls := draw_calls (ms_compose m1) n1 (ms_align (s_mp s)) (tt_below tg) W H in
  let '(s', e, ok) := step W H no_faults s now (OFinish b k) in
  e = calls /\ ok = true /\ get_bar s' b = fb /\ finished (get_bar s' b) = true /\
  s_calls s' = s_calls s + N.of_nat (length calls) /\
  (forall j, j <> b -> get_bar s' j = get_bar s j).
Proof.
  intros Ht Hm. cbv zeta. cbn [step]. rewrite bar_finish_eq.
  assert (Hin : (N.to_nat b < length (s_bars s))%nat) by (apply target_in_range; rewrite Ht; discriminate).
  assert (Hg : get_bar (upd_bar s b (final_of k)) b = final_of k (get_bar s b)) by now apply get_bar_upd_in.
  unfold bar_draw. rewrite Hg, final_of_target, Ht.
  cbn [s_mp upd_bar set_s_bars s_calls]. unfold ms_width. rewrite Hm.
  assert (Hfin : finished (final_of k (get_bar s b)) = true) by apply final_of_spec.
  rewrite Hfin. cbn [orb].
  set (m1 := ms_store (s_mp s) idx [] (frame_of (final_of k (get_bar s b)))).
  assert (Hm1 : ms_target m1 = TTerm tg) by exact Hm.
  destruct (ms_draw_forced_calls W H m1 tg now (s_calls s) Hm1) as (He & Hc & Hok).
  destruct (ms_draw W H no_faults m1 true None now (s_calls s)) as [[[m2 e] c'] ok].
  cbn [fst snd] in *. subst e c' ok.
  assert (Hor : ms_orphans m1 = ms_orphans (s_mp s)) by (unfold m1, ms_store; cbn; apply app_nil_r).
  assert (Hal : ms_align m1 = ms_align (s_mp s)) by reflexivity.
  assert (Hz : ms_zombie_lines m1 = ms_zombie_lines (s_mp s)) by reflexivity.
  rewrite Hor, Hal, Hz.
  split; [reflexivity|]. split; [reflexivity|].
  split; [exact Hg|]. split; [change (finished (get_bar (upd_bar s b (final_of k)) b) = true); now rewrite Hg|].
  split; [reflexivity|].
  intros j Hne. change (get_bar (upd_bar s b (final_of k)) j = get_bar s j). now apply get_bar_upd_other.
Qed.

(** the hidden twins of C06_equiv: hiding every target (standalone bars) or only the
    MultiProgress' target (members) changes no getter, ever *)
Theorem hidden_twins W H fails W2 H2 f2 s ops :
  run_logics W H fails s ops = run_logics W2 H2 f2 (hide_all s) ops /\
  run_logics W H fails s ops = run_logics W2 H2 f2 (hide_mp s) ops.
Proof.
  split; apply logic_simulation; [now rewrite hide_all_logic|now rewrite hide_mp_logic].
Qed.

(** C18_state: the logic after every op does not depend on the fault oracle *)
Theorem faults_do_not_touch_logic W H fails s ops :
  run_logics W H fails s ops = run_logics W H no_faults s ops.
Proof. now apply logic_simulation. Qed.

Theorem drop_finished_standalone W H fails s b now :
  finished (get_bar s b) = true -> (forall idx, b_target (get_bar s b) <> TMulti idx) ->
  step W H fails s now (ODrop b) = (upd_bar s b (fun x => set_b_alive x false), [], true).
Proof.
  intros Hf Hn. rewrite drop_finished_silent by exact Hf. now rewrite mark_zombie_standalone.
Qed.

Theorem drop_finished_member W H fails s b idx now :
  finished (get_bar s b) = true -> b_target (get_bar s b) = TMulti idx ->
  step W H fails s now (ODrop b)
  = (upd_bar (set_s_mp s (ms_mark_zombie W (s_mp s) idx)) b (fun x => set_b_alive x false), [], true).
Proof.
  intros Hf Ht. rewrite drop_finished_silent by exact Hf. now rewrite (mark_zombie_member W s b idx Ht).
Qed.

(* ------------------------------------------------------------------ C04_kept (partial): the drop phase *)
Lemma mark_zombie_bars W s b : s_bars (mark_zombie W s b) = s_bars s.
Proof. unfold mark_zombie. destruct (b_target (get_bar s b)); reflexivity. Qed.

Lemma mark_zombie_rows W s b : kept_plus_live (mark_zombie W s b) = kept_plus_live s.
Proof.
  unfold mark_zombie, kept_plus_live. destruct (b_target (get_bar s b)) as [| |idx]; try reflexivity.
  cbn [s_mp set_s_mp]. apply (ms_mark_zombie_spec W (s_mp s) idx).
Qed.

Lemma drop_finished_effects W H fails s b now :
  finished (get_bar s b) = true ->
  let s' := fst (fst (step W H fails s now (ODrop b))) in
  snd (fst (step W H fails s now (ODrop b))) = [] /\
  s_calls s' = s_calls s /\ kept_plus_live s' = kept_plus_live s /\
  ms_orphans (s_mp s') = ms_orphans (s_mp s) /\
  (forall j, finished (get_bar s' j) = finished (get_bar s j)).
Proof.
  intros Hf. cbv zeta. rewrite drop_finished_silent by exact Hf. cbn [fst snd].
  split; [reflexivity|]. split; [apply mark_zombie_calls|]. split; [apply mark_zombie_rows|].
  split.
  - cbn [s_mp upd_bar set_s_bars]. unfold mark_zombie. destruct (b_target (get_bar s b)) as [| |idx]; try reflexivity.
    apply (ms_mark_zombie_spec W (s_mp s) idx).
  - intros j.
    assert (Hg : forall i, get_bar (mark_zombie W s b) i = get_bar s i)
      by (intros i; unfold get_bar; now rewrite mark_zombie_bars).
    destruct (N.eq_dec j b) as [->|Hne].
    + rewrite get_bar_upd_same. destruct (_ <? _)%nat; rewrite Hg; reflexivity.
    + rewrite get_bar_upd_other by exact Hne. now rewrite Hg.
Qed.

(** C04_kept (partial): once every bar is finished, dropping the handles - any bars, any order,
    any times - makes no TermLike call at all, so whatever the finishing draws painted stays on
    the screen untouched; the bookkeeping conserves kept rows + rows the next draw would erase,
    and no orphan line is lost. *)
Theorem drops_of_finished_silent W H fails ops : forall s,
  Forall (fun to => exists b, snd to = ODrop b /\ finished (get_bar s b) = true) ops ->
  snd (run W H fails s ops) = [] /\
  s_calls (fst (run W H fails s ops)) = s_calls s /\
  kept_plus_live (fst (run W H fails s ops)) = kept_plus_live s /\
  ms_orphans (s_mp (fst (run W H fails s ops))) = ms_orphans (s_mp s).
Proof.
  induction ops as [|[now o] r IH]; intros s Hall; cbn [run].
  - repeat split.
  - inversion Hall as [|? ? [b [Ho Hf]] Hr]; subst. cbn [snd] in Ho. subst o.
    destruct (drop_finished_effects W H fails s b now Hf) as (He & Hc & Hk & Hor & Hfin).
    destruct (step W H fails s now (ODrop b)) as [[s1 e] ok]. cbn [fst snd] in *.
    assert (Hr' : Forall (fun to => exists b0, snd to = ODrop b0 /\ finished (get_bar s1 b0) = true) r).
    { eapply Forall_impl; [|exact Hr]. intros [t o] [b0 [Ho0 Hf0]]. exists b0. split; [exact Ho0|].
      now rewrite Hfin. }
    destruct (IH s1 Hr') as (He2 & Hc2 & Hk2 & Hor2).
    destruct (run W H fails s1 r) as [s2 e2]. cbn [fst snd] in *. subst e e2.
    repeat split; congruence.
Qed.

(** ProgressBarIter::next returning None: nothing at all on a finished bar, finish with the
    stored ProgressFinish otherwise *)
Theorem iter_none_spec W H fails s now b :
  (finished (get_bar s b) = true -> iter_none_step W H fails s now b = (s, [], true)) /\
  (finished (get_bar s b) = false ->
   iter_none_step W H fails s now b = step W H fails s now (OFinish b (b_on_finish (get_bar s b)))).
Proof. unfold iter_none_step. split; intros ->; reflexivity. Qed.

(** the end of a wrapped iterator on the logic projection: like [lstep], no target, terminal,
    MultiProgress state or fault oracle is read - so the hidden/visible twin equality extends to
    iterator-driven completion *)
Theorem iter_none_logic W H fails s now b :
  bars_logic (fst (fst (iter_none_step W H fails s now b)))
  = updN (bars_logic s) (N.to_nat b) l_iter_none.
Proof.
  unfold iter_none_step.
  assert (Hfin : finished (get_bar s b) = l_finished (nth (N.to_nat b) (bars_logic s) logic_default))
    by (rewrite <- logic_of_get_bar; reflexivity).
  destruct (finished (get_bar s b)) eqn:Ef.
  - cbn [fst]. rewrite <- (updN_id (bars_logic s) (N.to_nat b)) at 1.
    apply updN_ext_at with (d := logic_default). intros _. unfold l_iter_none. now rewrite <- Hfin.
  - rewrite step_logic. cbn [lstep op_bar lstep_bar].
    apply updN_ext_at with (d := logic_default). intros _. unfold l_iter_none. now rewrite <- Hfin.
Qed.

Theorem iter_none_twins W1 H1 f1 W2 H2 f2 s1 s2 now b :
  bars_logic s1 = bars_logic s2 ->
  bars_logic (fst (fst (iter_none_step W1 H1 f1 s1 now b)))
  = bars_logic (fst (fst (iter_none_step W2 H2 f2 s2 now b))).
Proof. intros Heq. rewrite !iter_none_logic, Heq. reflexivity. Qed.

(* ... and it is silent on a hidden bar *)
Theorem iter_none_silent W H fails s now b :
  bar_hidden s b = true ->
  snd (fst (iter_none_step W H fails s now b)) = [] /\
  s_calls (fst (fst (iter_none_step W H fails s now b))) = s_calls s.
Proof.
  intros Hh. unfold iter_none_step. destruct (finished (get_bar s b)); [split; reflexivity|].
  destruct (step_silent W H fails s now (OFinishUsingStyle b)) as (He & Hc & _).
  { unfold subject_hidden. exact Hh. }
  cbn [closure_writes emit_each length fst] in He, Hc. split; [exact He|]. rewrite Hc. lia.
Qed.
