(** C18_structure: everything in the system state except last_line_count, cursor_below,
    zombie_lines_count and the call counter - i.e. the logic of all bars, BOTH limiters, target
    kinds, alignment, the MultiProgress' members / free list / ordering / orphan lines - evolves
    independently of the fault oracle ([erase_io] forgets exactly those four). *)
From IndModel Require Import Base Text Draw Sys SimSpec.
From IndProofs Require Import SimProofs.
From Coq Require Import List NArith Bool Lia ZifyBool ZifyNat ZifyN.
Import ListNotations.
Open Scope N_scope.
Arguments N.add : simpl never.
Arguments N.sub : simpl never.
Arguments N.mul : simpl never.
Arguments N.div : simpl never.
Arguments N.modulo : simpl never.

Definition Rt (t1 t2 : target) : Prop := erase_target t1 = erase_target t2.
Definition Rm (m1 m2 : mstate) : Prop := erase_ms m1 = erase_ms m2.
Definition Rb (x1 x2 : bar) : Prop := erase_bar x1 = erase_bar x2.
Definition Rs (s1 s2 : sys) : Prop := erase_io s1 = erase_io s2.

Lemma Rt_cases t1 t2 : Rt t1 t2 ->
  (t1 = t2 /\ is_term t1 = false) \/
  exists a b, t1 = TTerm a /\ t2 = TTerm b /\ tt_rl a = tt_rl b /\ tt_align a = tt_align b.
Proof.
  unfold Rt. destruct t1 as [|a|i], t2 as [|b|j]; cbn; intros Heq; try discriminate.
  - left; split; reflexivity.
  - right. exists a, b. inversion Heq. repeat split; assumption.
  - left. inversion Heq. split; reflexivity.
Qed.

Lemma Rt_term a b : tt_rl a = tt_rl b -> tt_align a = tt_align b -> Rt (TTerm a) (TTerm b).
Proof. intros H1 H2. unfold Rt, erase_target, erase_tt. now rewrite H1, H2. Qed.

Lemma Rt_is_term t1 t2 : Rt t1 t2 -> is_term t1 = is_term t2.
Proof. intros Hr. destruct (Rt_cases _ _ Hr) as [[-> _]|(a & b & -> & -> & _)]; reflexivity. Qed.

Lemma Rm_iff m1 m2 : Rm m1 m2 <->
  ms_members m1 = ms_members m2 /\ ms_free m1 = ms_free m2 /\ ms_order m1 = ms_order m2 /\
  ms_align m1 = ms_align m2 /\ ms_orphans m1 = ms_orphans m2 /\ Rt (ms_target m1) (ms_target m2).
Proof.
  destruct m1, m2. unfold Rm, erase_ms, Rt; cbn. split.
  - intros Heq. inversion Heq. repeat split; assumption.
  - intros (-> & -> & -> & -> & -> & ->). reflexivity.
Qed.

Lemma Rb_iff x1 x2 : Rb x1 x2 <-> logic_of x1 = logic_of x2 /\ Rt (b_target x1) (b_target x2).
Proof.
  destruct x1, x2. unfold Rb, erase_bar, Rt, logic_of; cbn. split.
  - intros Heq. inversion Heq. split; reflexivity.
  - intros [Hl Ht]. inversion Hl. now rewrite Ht.
Qed.

Lemma Rs_iff s1 s2 : Rs s1 s2 <->
  map erase_bar (s_bars s1) = map erase_bar (s_bars s2) /\ Rm (s_mp s1) (s_mp s2).
Proof.
  destruct s1 as [b1 m1 c1], s2 as [b2 m2 c2]. unfold Rs, erase_io, Rm; cbn. split.
  - intros Heq. split; [exact (f_equal s_bars Heq)|exact (f_equal s_mp Heq)].
  - intros [-> ->]. reflexivity.
Qed.

(* ------------------------------------------------------------------ limiter / draw *)
Lemma tt_allow_rel a b f now :
  tt_rl a = tt_rl b ->
  fst (tt_allow a f now) = fst (tt_allow b f now) /\
  tt_rl (snd (tt_allow a f now)) = tt_rl (snd (tt_allow b f now)) /\
  tt_align (snd (tt_allow a f now)) = tt_align a /\ tt_align (snd (tt_allow b f now)) = tt_align b.
Proof.
  intros Hrl. unfold tt_allow. destruct f; [cbn [fst snd]; repeat split; assumption|].
  rewrite Hrl. destruct (tt_rl b) as [r|] eqn:Eb; [|cbn [fst snd]; repeat split; congruence].
  destruct (rl_allow r now) as [al r']. cbn [fst snd tt_rl tt_align]. repeat split.
Qed.

Lemma erase_remove m i : erase_ms (ms_remove_idx m i) = ms_remove_idx (erase_ms m) i.
Proof.
  destruct m as [me fr od al orp z t]. unfold ms_remove_idx.
  change (ms_free (erase_ms (mkms me fr od al orp z t))) with fr. cbn [ms_free].
  destruct (memN i fr); reflexivity.
Qed.

Lemma erase_fold_remove zs : forall m,
  erase_ms (fold_left ms_remove_idx zs m) = fold_left ms_remove_idx zs (erase_ms m).
Proof. induction zs as [|z r IH]; intros m; cbn [fold_left]; [reflexivity|]. now rewrite IH, erase_remove. Qed.

Lemma erase_keep m k z :
  erase_ms (set_ms_zombie_lines (set_ms_target m (target_adjust_keep (ms_target m) k)) z) = erase_ms m.
Proof. destruct m as [a b c d e f t]; destruct t; reflexivity. Qed.

Lemma erase_keep2 m k z :
  erase_ms (set_ms_target (set_ms_zombie_lines m z) (target_adjust_keep (ms_target m) k)) = erase_ms m.
Proof. destruct m as [a b c d e f t]; destruct t; reflexivity. Qed.

Lemma ms_draw_rel W H f1 f2 m1 m2 force extra now c1 c2 :
  Rm m1 m2 ->
  Rm (fst (fst (fst (ms_draw W H f1 m1 force extra now c1))))
     (fst (fst (fst (ms_draw W H f2 m2 force extra now c2)))).
Proof.
  intros HR. pose proof HR as HR0. apply Rm_iff in HR. destruct HR as (Hmem & Hfr & Hord & Hal & Horp & Ht).
  unfold ms_draw. destruct (Rt_cases _ _ Ht) as [[Heq Hnt]|(a & b & Ha & Hb & Hrl & Halg)].
  - rewrite <- Heq. destruct (ms_target m1); try discriminate; exact HR0.
  - rewrite Ha, Hb, Hmem, Hord, Horp, Hal.
    set (ht := (match extra with Some _ => true | None => false end
                || negb match ms_orphans m2 with [] => true | _ :: _ => false end)).
    set (fo := force || (0 <? visual_line_count (ms_orphans m2) W)).
    destruct ht.
    + assert (Hrl' : tt_rl (tt_adjust_clear a (ms_zombie_lines m1)) = tt_rl (tt_adjust_clear b (ms_zombie_lines m2)))
        by exact Hrl.
      destruct (tt_allow_rel _ _ fo now Hrl') as (Hf & Hr2 & Hal1 & Hal2).
      destruct (tt_allow (tt_adjust_clear a (ms_zombie_lines m1)) fo now) as [al1 a2].
      destruct (tt_allow (tt_adjust_clear b (ms_zombie_lines m2)) fo now) as [al2 b2].
      cbn [fst snd] in *. subst al2. destruct al1; cbn [negb].
      * match goal with |- context [term_draw W H f1 ?t ?l c1] =>
          destruct (term_draw W H f1 t l c1) as [[[a3 e1] c1'] ok1] eqn:E1 end.
        match goal with |- context [term_draw W H f2 ?t ?l c2] =>
          destruct (term_draw W H f2 t l c2) as [[[b3 e2] c2'] ok2] eqn:E2 end.
        destruct (term_draw_kind _ _ _ _ _ _ _ _ _ _ E1) as [K1 K2].
        destruct (term_draw_kind _ _ _ _ _ _ _ _ _ _ E2) as [K3 K4].
        cbn [fst tt_rl tt_align] in *. unfold Rm. rewrite !erase_fold_remove. f_equal.
        apply Rm_iff; cbn. repeat split; try assumption. apply Rt_term; congruence.
      * cbn [fst]. apply Rm_iff; cbn. repeat split; try assumption.
        apply Rt_term; [exact Hr2|]. rewrite Hal1, Hal2. exact Halg.
    + destruct (tt_allow_rel a b fo now Hrl) as (Hf & Hr2 & Hal1 & Hal2).
      destruct (tt_allow a fo now) as [al1 a2]. destruct (tt_allow b fo now) as [al2 b2].
      cbn [fst snd] in *. subst al2. destruct al1; cbn [negb].
      * match goal with |- context [term_draw W H f1 ?t ?l c1] =>
          destruct (term_draw W H f1 t l c1) as [[[a3 e1] c1'] ok1] eqn:E1 end.
        match goal with |- context [term_draw W H f2 ?t ?l c2] =>
          destruct (term_draw W H f2 t l c2) as [[[b3 e2] c2'] ok2] eqn:E2 end.
        destruct (term_draw_kind _ _ _ _ _ _ _ _ _ _ E1) as [K1 K2].
        destruct (term_draw_kind _ _ _ _ _ _ _ _ _ _ E2) as [K3 K4].
        cbn [fst tt_rl tt_align] in *. unfold Rm. rewrite !erase_keep, !erase_fold_remove. f_equal.
        apply Rm_iff; cbn. repeat split; try assumption. apply Rt_term; congruence.
      * cbn [fst]. apply Rm_iff; cbn. repeat split; try assumption.
        apply Rt_term; [exact Hr2|]. rewrite Hal1, Hal2. exact Halg.
Qed.

Lemma ms_clear_rel W H f1 f2 m1 m2 c1 c2 :
  Rm m1 m2 ->
  Rm (fst (fst (fst (ms_clear W H f1 m1 c1)))) (fst (fst (fst (ms_clear W H f2 m2 c2)))).
Proof.
  intros HR. pose proof HR as HR0. apply Rm_iff in HR. destruct HR as (Hmem & Hfr & Hord & Hal & Horp & Ht).
  unfold ms_clear. destruct (Rt_cases _ _ Ht) as [[Heq Hnt]|(a & b & Ha & Hb & Hrl & Halg)].
  - rewrite <- Heq. destruct (ms_target m1); try discriminate; exact HR0.
  - rewrite Ha, Hb.
    match goal with |- context [term_draw W H f1 ?t ?l c1] =>
      destruct (term_draw W H f1 t l c1) as [[[a3 e1] c1'] ok1] eqn:E1 end.
    match goal with |- context [term_draw W H f2 ?t ?l c2] =>
      destruct (term_draw W H f2 t l c2) as [[[b3 e2] c2'] ok2] eqn:E2 end.
    destruct (term_draw_kind _ _ _ _ _ _ _ _ _ _ E1) as [K1 K2].
    destruct (term_draw_kind _ _ _ _ _ _ _ _ _ _ E2) as [K3 K4].
    cbn [fst tt_rl tt_align tt_adjust_clear] in *.
    apply Rm_iff; cbn. repeat split; try assumption. apply Rt_term; congruence.
Qed.

Lemma suspend_reset_rel m1 m2 :
  Rm m1 m2 ->
  Rm (set_ms_target m1 (match ms_target m1 with
                        | TTerm tg => TTerm (mktt 0 (tt_rl tg) (tt_align tg) (tt_below tg)) | t => t end))
     (set_ms_target m2 (match ms_target m2 with
                        | TTerm tg => TTerm (mktt 0 (tt_rl tg) (tt_align tg) (tt_below tg)) | t => t end)).
Proof.
  intros HR. apply Rm_iff in HR. destruct HR as (Hmem & Hfr & Hord & Hal & Horp & Ht).
  apply Rm_iff; cbn. repeat split; try assumption.
  destruct (Rt_cases _ _ Ht) as [[Heq Hnt]|(a & b & Ha & Hb & Hrl & Halg)].
  - rewrite <- Heq. destruct (ms_target m1); try discriminate; reflexivity.
  - rewrite Ha, Hb. apply Rt_term; assumption.
Qed.

Lemma ms_suspend_rel W H f1 f2 m1 m2 ws now c1 c2 :
  Rm m1 m2 ->
  Rm (fst (fst (ms_suspend W H f1 m1 ws now c1))) (fst (fst (ms_suspend W H f2 m2 ws now c2))).
Proof.
  intros HR. unfold ms_suspend.
  pose proof (ms_clear_rel W H f1 f2 m1 m2 c1 c2 HR) as Hc.
  destruct (ms_clear W H f1 m1 c1) as [[[m1' e1] c1'] ok1].
  destruct (ms_clear W H f2 m2 c2) as [[[m2' e2] c2'] ok2]. cbn [fst] in Hc.
  destruct (emit_each f1 c1' (map TLine ws)) as [e1' c1''].
  destruct (emit_each f2 c2' (map TLine ws)) as [e2' c2''].
  pose proof (ms_draw_rel W H f1 f2 _ _ true None now c1'' c2'' (suspend_reset_rel _ _ Hc)) as Hd.
  match goal with |- context [ms_draw W H f1 ?x true None now c1''] =>
    destruct (ms_draw W H f1 x true None now c1'') as [[[m13 e13] c13] ok13] end.
  match goal with |- context [ms_draw W H f2 ?x true None now c2''] =>
    destruct (ms_draw W H f2 x true None now c2'') as [[[m23 e23] c23] ok23] end.
  exact Hd.
Qed.

Lemma ms_remove_idx_rel m1 m2 i : Rm m1 m2 -> Rm (ms_remove_idx m1 i) (ms_remove_idx m2 i).
Proof. unfold Rm. intros HR. now rewrite !erase_remove, HR. Qed.

Lemma ms_store_rel m1 m2 idx ts bs : Rm m1 m2 -> Rm (ms_store m1 idx ts bs) (ms_store m2 idx ts bs).
Proof.
  intros HR. apply Rm_iff in HR. destruct HR as (Hmem & Hfr & Hord & Hal & Horp & Ht).
  apply Rm_iff; unfold ms_store; cbn. rewrite Hmem, Horp. repeat split; assumption.
Qed.

Lemma ms_width_rel W m1 m2 : Rm m1 m2 -> ms_width W m1 = ms_width W m2.
Proof.
  intros HR. apply Rm_iff in HR. destruct HR as (_ & _ & _ & _ & _ & Ht). unfold ms_width.
  destruct (Rt_cases _ _ Ht) as [[Heq Hnt]|(a & b & Ha & Hb & _)]; [now rewrite Heq|now rewrite Ha, Hb].
Qed.

Lemma ms_mark_zombie_rel W m1 m2 idx :
  Rm m1 m2 -> Rm (ms_mark_zombie W m1 idx) (ms_mark_zombie W m2 idx).
Proof.
  intros HR. pose proof HR as HR0. apply Rm_iff in HR. destruct HR as (Hmem & Hfr & Hord & Hal & Horp & Ht).
  unfold ms_mark_zombie. rewrite Hord. destruct (ms_order m2) as [|first r] eqn:Eo; [exact HR0|].
  destruct (negb (idx =? first)).
  - apply Rm_iff; cbn. rewrite Hmem. repeat split; try assumption; congruence.
  - apply ms_remove_idx_rel. unfold Rm. rewrite !erase_keep2. exact HR0.
Qed.

Lemma ms_insert_rel m1 m2 l :
  Rm m1 m2 ->
  match ms_insert m1 l, ms_insert m2 l with
  | Some (a, i), Some (b, j) => i = j /\ Rm a b
  | None, None => True
  | _, _ => False
  end.
Proof.
  intros HR. apply Rm_iff in HR. destruct HR as (Hmem & Hfr & Hord & Hal & Horp & Ht).
  unfold ms_insert. rewrite Hfr, Hmem.
  destruct (ms_free m2) as [|i fr] eqn:Ef; cbn [ms_order set_ms_free set_ms_members]; rewrite Hord;
    destruct l; try (destruct (posN _ (ms_order m2)));
    try exact I; (split; [reflexivity|]); apply Rm_iff; cbn; repeat split; try assumption; congruence.
Qed.

(* ------------------------------------------------------------------ system level *)
Lemma Rb_default : erase_bar bar_default = bar_default.
Proof. reflexivity. Qed.

Lemma get_bar_rel s1 s2 b : Rs s1 s2 -> Rb (get_bar s1 b) (get_bar s2 b).
Proof.
  intros HR. apply Rs_iff in HR. destruct HR as [Hb _]. unfold Rb, get_bar, nthN.
  rewrite <- Rb_default at 1 2.
  rewrite <- (map_nth erase_bar (s_bars s1)), <- (map_nth erase_bar (s_bars s2)), Hb. reflexivity.
Qed.

Lemma map_updN_rel {A B} (e : A -> B) l1 : forall l2 i f1 f2,
  map e l1 = map e l2 ->
  (forall x1 x2, e x1 = e x2 -> e (f1 x1) = e (f2 x2)) ->
  map e (updN l1 i f1) = map e (updN l2 i f2).
Proof.
  induction l1 as [|x l1 IH]; intros [|y l2] i f1 f2 Hm Hf; cbn in Hm; try discriminate.
  - destruct i; reflexivity.
  - inversion Hm as [[Hx Hl]]. destruct i as [|i]; cbn [updN map].
    + now rewrite (Hf x y Hx), Hl.
    + now rewrite Hx, (IH l2 i f1 f2 Hl Hf).
Qed.

Lemma upd_bar_rel s1 s2 b f1 f2 :
  Rs s1 s2 -> (forall x1 x2, Rb x1 x2 -> Rb (f1 x1) (f2 x2)) -> Rs (upd_bar s1 b f1) (upd_bar s2 b f2).
Proof.
  intros HR Hf. apply Rs_iff in HR. destruct HR as [Hb Hm]. apply Rs_iff. split; [|exact Hm].
  unfold upd_bar; cbn. apply map_updN_rel; assumption.
Qed.

Lemma Rs_mp_calls s1 s2 m1 m2 c1 c2 :
  Rs s1 s2 -> Rm m1 m2 -> Rs (set_s_calls (set_s_mp s1 m1) c1) (set_s_calls (set_s_mp s2 m2) c2).
Proof. intros HR Hm. apply Rs_iff in HR. apply Rs_iff. split; [apply HR|exact Hm]. Qed.

Lemma Rs_calls s1 s2 c1 c2 : Rs s1 s2 -> Rs (set_s_calls s1 c1) (set_s_calls s2 c2).
Proof. intros HR. apply Rs_iff in HR. apply Rs_iff. exact HR. Qed.

Lemma Rb_set_target x1 x2 t1 t2 : Rb x1 x2 -> Rt t1 t2 -> Rb (set_b_target x1 t1) (set_b_target x2 t2).
Proof. intros HR Ht. apply Rb_iff in HR. apply Rb_iff. split; [apply HR|exact Ht]. Qed.

Lemma Rb_frame x1 x2 : Rb x1 x2 -> frame_of x1 = frame_of x2 /\ finished x1 = finished x2
  /\ b_on_finish x1 = b_on_finish x2 /\ b_ap x1 = b_ap x2.
Proof.
  unfold Rb. intros HR.
  rewrite <- (frame_of_set_target x1 (erase_target (b_target x1))),
          <- (frame_of_set_target x2 (erase_target (b_target x2))).
  change (set_b_target x1 (erase_target (b_target x1))) with (erase_bar x1).
  change (set_b_target x2 (erase_target (b_target x2))) with (erase_bar x2).
  change (finished x1) with (finished (erase_bar x1)). change (finished x2) with (finished (erase_bar x2)).
  change (b_on_finish x1) with (b_on_finish (erase_bar x1)). change (b_on_finish x2) with (b_on_finish (erase_bar x2)).
  change (b_ap x1) with (b_ap (erase_bar x1)). change (b_ap x2) with (b_ap (erase_bar x2)).
  rewrite HR. repeat split.
Qed.

Lemma bar_draw_rel W H f1 f2 s1 s2 b force now :
  Rs s1 s2 -> Rs (fst (bar_draw W H f1 s1 b force now)) (fst (bar_draw W H f2 s2 b force now)).
Proof.
  intros HR. pose proof (get_bar_rel s1 s2 b HR) as Hb.
  destruct (Rb_frame _ _ Hb) as (Hfr & Hfin & _ & _).
  apply Rb_iff in Hb. destruct Hb as [_ Ht]. unfold bar_draw. rewrite Hfr, Hfin.
  destruct (Rt_cases _ _ Ht) as [[Heq Hnt]|(a & b0 & Ha & Hb & Hrl & Halg)].
  - rewrite <- Heq. destruct (b_target (get_bar s1 b)) as [| |idx]; try discriminate; [exact HR|].
    pose proof HR as HR0. apply Rs_iff in HR0. destruct HR0 as [_ Hm].
    rewrite (ms_width_rel W _ _ Hm).
    match goal with |- context [ms_draw W H f1 (ms_store _ idx [] ?bs) ?fo None now _] =>
      pose proof (ms_draw_rel W H f1 f2 _ _ fo None now (s_calls s1) (s_calls s2)
                    (ms_store_rel _ _ idx [] bs Hm)) as Hd end.
    match goal with |- context [ms_draw W H f1 ?x ?fo None now ?c] =>
      destruct (ms_draw W H f1 x fo None now c) as [[[m13 e13] c13] ok13] end.
    match goal with |- context [ms_draw W H f2 ?x ?fo None now ?c] =>
      destruct (ms_draw W H f2 x fo None now c) as [[[m23 e23] c23] ok23] end.
    cbn [fst] in *. now apply Rs_mp_calls.
  - rewrite Ha, Hb.
    destruct (tt_allow_rel a b0 (force || finished (get_bar s2 b)) now Hrl) as (Hf & Hr2 & Hal1 & Hal2).
    destruct (tt_allow a _ now) as [al1 a2]. destruct (tt_allow b0 _ now) as [al2 b2].
    cbn [fst snd] in *. subst al2. destruct al1; cbn [negb].
    + match goal with |- context [term_draw W H f1 ?t ?l ?c] =>
        destruct (term_draw W H f1 t l c) as [[[a3 e1] c1'] ok1] eqn:E1 end.
      match goal with |- context [term_draw W H f2 ?t ?l ?c] =>
        destruct (term_draw W H f2 t l c) as [[[b3 e2] c2'] ok2] eqn:E2 end.
      destruct (term_draw_kind _ _ _ _ _ _ _ _ _ _ E1) as [K1 K2].
      destruct (term_draw_kind _ _ _ _ _ _ _ _ _ _ E2) as [K3 K4].
      cbn [fst]. apply Rs_calls. apply upd_bar_rel; [exact HR|].
      intros x1 x2 Hx. apply Rb_set_target; [exact Hx|apply Rt_term; congruence].
    + cbn [fst]. apply upd_bar_rel; [exact HR|].
      intros x1 x2 Hx. apply Rb_set_target; [exact Hx|apply Rt_term; congruence].
Qed.

Ltac solve_Rb :=
  let Hx := fresh "Hx" in
  intros [? [?|] ? ? ? ? ? ? ? ? ?] [? [?|] ? ? ? ? ? ? ? ? ?] Hx; unfold Rb, erase_bar in *; cbn in *;
  inversion Hx; subst; first [reflexivity|congruence].

Lemma Rb_final_of k : forall x1 x2, Rb x1 x2 -> Rb (final_of k x1) (final_of k x2).
Proof. destruct k; solve_Rb. Qed.

Lemma bar_println_rel W H f1 f2 s1 s2 b msg now :
  Rs s1 s2 -> Rs (fst (bar_println W H f1 s1 b msg now)) (fst (bar_println W H f2 s2 b msg now)).
Proof.
  intros HR. pose proof (get_bar_rel s1 s2 b HR) as Hb.
  destruct (Rb_frame _ _ Hb) as (Hfr & Hfin & _ & _).
  apply Rb_iff in Hb. destruct Hb as [_ Ht]. unfold bar_println. rewrite Hfr.
  destruct (Rt_cases _ _ Ht) as [[Heq Hnt]|(a & b0 & Ha & Hb & Hrl & Halg)].
  - rewrite <- Heq. destruct (b_target (get_bar s1 b)) as [| |idx]; try discriminate; [exact HR|].
    pose proof HR as HR0. apply Rs_iff in HR0. destruct HR0 as [_ Hm].
    rewrite (ms_width_rel W _ _ Hm).
    match goal with |- context [ms_draw W H f1 (ms_store _ idx ?ts ?bs) true None now _] =>
      pose proof (ms_draw_rel W H f1 f2 _ _ true None now (s_calls s1) (s_calls s2)
                    (ms_store_rel _ _ idx ts bs Hm)) as Hd end.
    match goal with |- context [ms_draw W H f1 ?x ?fo None now ?c] =>
      destruct (ms_draw W H f1 x fo None now c) as [[[m13 e13] c13] ok13] end.
    match goal with |- context [ms_draw W H f2 ?x ?fo None now ?c] =>
      destruct (ms_draw W H f2 x fo None now c) as [[[m23 e23] c23] ok23] end.
    cbn [fst] in *. now apply Rs_mp_calls.
  - rewrite Ha, Hb.
    match goal with |- context [term_draw W H f1 ?t ?l ?c] =>
      destruct (term_draw W H f1 t l c) as [[[a3 e1] c1'] ok1] eqn:E1 end.
    match goal with |- context [term_draw W H f2 ?t ?l ?c] =>
      destruct (term_draw W H f2 t l c) as [[[b3 e2] c2'] ok2] eqn:E2 end.
    destruct (term_draw_kind _ _ _ _ _ _ _ _ _ _ E1) as [K1 K2].
    destruct (term_draw_kind _ _ _ _ _ _ _ _ _ _ E2) as [K3 K4].
    cbn [fst]. apply Rs_calls. apply upd_bar_rel; [exact HR|].
    intros x1 x2 Hx. apply Rb_set_target; [exact Hx|apply Rt_term; congruence].
Qed.

Lemma bar_suspend_rel W H f1 f2 s1 s2 b ws now :
  Rs s1 s2 -> Rs (fst (bar_suspend W H f1 s1 b ws now)) (fst (bar_suspend W H f2 s2 b ws now)).
Proof.
  intros HR. pose proof (get_bar_rel s1 s2 b HR) as Hb.
  apply Rb_iff in Hb. destruct Hb as [_ Ht]. unfold bar_suspend.
  destruct (Rt_cases _ _ Ht) as [[Heq Hnt]|(a & b0 & Ha & Hb & Hrl & Halg)].
  - rewrite <- Heq. destruct (b_target (get_bar s1 b)) as [| |idx]; try discriminate.
    + destruct (emit_each f1 _ _) as [e1 c1']. destruct (emit_each f2 _ _) as [e2 c2'].
      cbn [fst]. now apply Rs_calls.
    + pose proof HR as HR0. apply Rs_iff in HR0. destruct HR0 as [_ Hm].
      pose proof (ms_suspend_rel W H f1 f2 _ _ ws now (s_calls s1) (s_calls s2) Hm) as Hd.
      destruct (ms_suspend W H f1 (s_mp s1) ws now (s_calls s1)) as [[m13 e13] c13].
      destruct (ms_suspend W H f2 (s_mp s2) ws now (s_calls s2)) as [[m23 e23] c23].
      cbn [fst] in *. now apply Rs_mp_calls.
  - rewrite Ha, Hb.
    destruct (term_draw W H f1 a [] (s_calls s1)) as [[[a3 e1] c1'] ok1] eqn:E1.
    destruct (term_draw W H f2 b0 [] (s_calls s2)) as [[[b3 e2] c2'] ok2] eqn:E2.
    destruct (term_draw_kind _ _ _ _ _ _ _ _ _ _ E1) as [K1 K2].
    destruct (term_draw_kind _ _ _ _ _ _ _ _ _ _ E2) as [K3 K4].
    destruct (emit_each f1 c1' _) as [e1' c1'']. destruct (emit_each f2 c2' _) as [e2' c2''].
    match goal with |- context [bar_draw W H f1 ?x b true now] =>
      match goal with |- context [bar_draw W H f2 ?y b true now] =>
        assert (Hxy : Rs x y) end end.
    { apply Rs_calls. apply upd_bar_rel; [exact HR|].
      intros x1 x2 Hx. apply Rb_set_target; [exact Hx|apply Rt_term; congruence]. }
    pose proof (bar_draw_rel W H f1 f2 _ _ b true now Hxy) as Hd.
    match goal with |- context [bar_draw W H f1 ?x b true now] =>
      destruct (bar_draw W H f1 x b true now) as [s13 e13] end.
    match goal with |- context [bar_draw W H f2 ?x b true now] =>
      destruct (bar_draw W H f2 x b true now) as [s23 e23] end.
    exact Hd.
Qed.

Lemma bar_finish_rel W H f1 f2 s1 s2 b k now :
  Rs s1 s2 -> Rs (fst (bar_finish W H f1 s1 b k now)) (fst (bar_finish W H f2 s2 b k now)).
Proof.
  intros HR. rewrite !bar_finish_eq. apply bar_draw_rel. apply upd_bar_rel; [exact HR|apply Rb_final_of].
Qed.

Lemma bar_tick_rel W H f1 f2 s1 s2 b now :
  Rs s1 s2 -> Rs (fst (bar_tick W H f1 s1 b now)) (fst (bar_tick W H f2 s2 b now)).
Proof.
  intros HR. unfold bar_tick. apply bar_draw_rel. apply upd_bar_rel; [exact HR|solve_Rb].
Qed.

Lemma b_ap_upd_pos s b f :
  b_ap (get_bar (upd_bar s b (fun x => set_b_pos x (f (b_pos x)))) b) = b_ap (get_bar s b).
Proof. apply (get_bar_upd_field b_ap). reflexivity. Qed.

Lemma bar_pos_update_rel W H f1 f2 s1 s2 b f now :
  Rs s1 s2 -> Rs (fst (bar_pos_update W H f1 s1 b f now)) (fst (bar_pos_update W H f2 s2 b f now)).
Proof.
  intros HR. unfold bar_pos_update. rewrite !b_ap_upd_pos.
  destruct (Rb_frame _ _ (get_bar_rel s1 s2 b HR)) as (_ & _ & _ & Hap). rewrite Hap.
  destruct (ap_allow (b_ap (get_bar s2 b)) now) as [al ap'].
  assert (H2 : Rs (upd_bar (upd_bar s1 b (fun x => set_b_pos x (f (b_pos x)))) b (fun x => set_b_ap x ap'))
                  (upd_bar (upd_bar s2 b (fun x => set_b_pos x (f (b_pos x)))) b (fun x => set_b_ap x ap'))).
  { apply upd_bar_rel; [apply upd_bar_rel; [exact HR|solve_Rb]|solve_Rb]. }
  destruct al; [now apply bar_tick_rel|exact H2].
Qed.

Lemma mark_zombie_rel W s1 s2 b : Rs s1 s2 -> Rs (mark_zombie W s1 b) (mark_zombie W s2 b).
Proof.
  intros HR. pose proof (get_bar_rel s1 s2 b HR) as Hb. apply Rb_iff in Hb. destruct Hb as [_ Ht].
  unfold mark_zombie. destruct (Rt_cases _ _ Ht) as [[Heq Hnt]|(a & b0 & Ha & Hb & _)].
  - rewrite <- Heq. destruct (b_target (get_bar s1 b)) as [| |idx]; try exact HR.
    pose proof HR as HR0. apply Rs_iff in HR0. destruct HR0 as [Hbars Hm].
    apply Rs_iff. split; [exact Hbars|]. cbn [s_mp set_s_mp]. now apply ms_mark_zombie_rel.
  - rewrite Ha, Hb. exact HR.
Qed.

Lemma bar_drop_rel W H f1 f2 s1 s2 b now :
  Rs s1 s2 -> Rs (fst (bar_drop W H f1 s1 b now)) (fst (bar_drop W H f2 s2 b now)).
Proof.
  intros HR. unfold bar_drop.
  destruct (Rb_frame _ _ (get_bar_rel s1 s2 b HR)) as (_ & Hfin & Hon & _). rewrite Hfin, Hon.
  destruct (finished (get_bar s2 b)).
  - cbn [fst]. apply upd_bar_rel; [now apply mark_zombie_rel|solve_Rb].
  - pose proof (bar_finish_rel W H f1 f2 s1 s2 b (b_on_finish (get_bar s2 b)) now HR) as Hf.
    destruct (bar_finish W H f1 s1 b _ now) as [s13 e13]. destruct (bar_finish W H f2 s2 b _ now) as [s23 e23].
    cbn [fst] in *. apply upd_bar_rel; [now apply mark_zombie_rel|solve_Rb].
Qed.

Lemma bar_set_target_rel W H f1 f2 s1 s2 b t now :
  Rs s1 s2 -> Rs (fst (bar_set_target W H f1 s1 b t now)) (fst (bar_set_target W H f2 s2 b t now)).
Proof.
  intros HR. pose proof (get_bar_rel s1 s2 b HR) as Hb. apply Rb_iff in Hb. destruct Hb as [_ Ht].
  assert (Hset : forall x1 x2, Rb x1 x2 -> Rb (set_b_target x1 t) (set_b_target x2 t))
    by (intros x1 x2 Hx; apply Rb_set_target; [exact Hx|reflexivity]).
  unfold bar_set_target. destruct (Rt_cases _ _ Ht) as [[Heq Hnt]|(a & b0 & Ha & Hb & _)].
  - rewrite <- Heq. destruct (b_target (get_bar s1 b)) as [| |idx]; try discriminate.
    + cbn [fst]. now apply upd_bar_rel.
    + pose proof HR as HR0. apply Rs_iff in HR0. destruct HR0 as [_ Hm].
      pose proof (ms_draw_rel W H f1 f2 _ _ true None now (s_calls s1) (s_calls s2)
                    (ms_store_rel _ _ idx [] [] Hm)) as Hd.
      destruct (ms_draw W H f1 _ true None now (s_calls s1)) as [[[m13 e13] c13] ok13].
      destruct (ms_draw W H f2 _ true None now (s_calls s2)) as [[[m23 e23] c23] ok23].
      cbn [fst] in *. apply upd_bar_rel; [now apply Rs_mp_calls|exact Hset].
  - rewrite Ha, Hb. cbn [fst]. now apply upd_bar_rel.
Qed.

(** (for add/insert* of a bar that is a member already: no effect, fix bee77c9) *)
Definition is_multi (t : target) : bool := match t with TMulti _ => true | _ => false end.
Lemma match_multi {X} (t : target) (A B : X) :
  match t with TMulti _ => A | _ => B end = if is_multi t then A else B.
Proof. destruct t; reflexivity. Qed.

(** one call: related states stay related, whatever the two fault oracles are *)
Theorem step_structure W H f1 f2 s1 s2 now o :
  Rs s1 s2 ->
  Rs (fst (fst (step W H f1 s1 now o))) (fst (fst (step W H f2 s2 now o))).
Proof.
  intros HR.
  destruct o; cbn [step fst snd];
    try exact HR;
    try (apply bar_draw_rel; apply upd_bar_rel; [exact HR|solve_Rb]);
    try (now apply bar_pos_update_rel);
    try (now apply bar_draw_rel).
  - apply upd_bar_rel; [exact HR|solve_Rb].
  - now apply bar_println_rel.
  - now apply bar_suspend_rel.
  - now apply bar_finish_rel.
  - destruct (Rb_frame _ _ (get_bar_rel s1 s2 b HR)) as (_ & _ & Hon & _). rewrite Hon.
    now apply bar_finish_rel.
  - now apply bar_drop_rel.
  - (* OInsert *)
    rewrite !match_multi.
    assert (Hmem : is_multi (b_target (get_bar s2 b)) = is_multi (b_target (get_bar s1 b))).
    { pose proof (get_bar_rel s1 s2 b HR) as Hb. apply Rb_iff in Hb. destruct Hb as [_ Ht].
      destruct (Rt_cases _ _ Ht) as [[Heq _]|(ta & tb & Ha & Hb & _)]; [now rewrite Heq | now rewrite Ha, Hb]. }
    rewrite Hmem. destruct (is_multi (b_target (get_bar s1 b))); [exact HR|].
    pose proof HR as HR0. apply Rs_iff in HR0. destruct HR0 as [Hbars Hm].
    assert (Hloc :
      match loc with
      | BEnd => Some LEnd | BIndex i => Some (LIndex i) | BFromBack i => Some (LFromBack i)
      | BAfter r => match b_target (get_bar s1 r) with TMulti i => Some (LAfter i) | _ => None end
      | BBefore r => match b_target (get_bar s1 r) with TMulti i => Some (LBefore i) | _ => None end
      end =
      match loc with
      | BEnd => Some LEnd | BIndex i => Some (LIndex i) | BFromBack i => Some (LFromBack i)
      | BAfter r => match b_target (get_bar s2 r) with TMulti i => Some (LAfter i) | _ => None end
      | BBefore r => match b_target (get_bar s2 r) with TMulti i => Some (LBefore i) | _ => None end
      end).
    { destruct loc as [| | |r|r]; try reflexivity;
        pose proof (get_bar_rel s1 s2 r HR) as Hr; apply Rb_iff in Hr; destruct Hr as [_ Hr];
        destruct (Rt_cases _ _ Hr) as [[Heq _]|(a & b0 & Ha & Hb & _)];
        [now rewrite Heq|now rewrite Ha, Hb|now rewrite Heq|now rewrite Ha, Hb]. }
    rewrite Hloc.
    match goal with |- context [match ?X with Some l => ms_insert (s_mp s2) l | None => None end] =>
      destruct X as [l|] end; [|exact HR].
    pose proof (ms_insert_rel _ _ l Hm) as Hi.
    destruct (ms_insert (s_mp s1) l) as [[m1 i1]|], (ms_insert (s_mp s2) l) as [[m2 i2]|];
      try contradiction; [|exact HR].
    destruct Hi as [-> Hm']. cbn [fst]. apply bar_set_target_rel.
    apply Rs_iff. split; [exact Hbars|exact Hm'].
  - (* ORemove *)
    pose proof (get_bar_rel s1 s2 b HR) as Hb. apply Rb_iff in Hb. destruct Hb as [_ Ht].
    destruct (Rt_cases _ _ Ht) as [[Heq Hnt]|(a & b0 & Ha & Hb & _)].
    + rewrite <- Heq. destruct (b_target (get_bar s1 b)) as [| |idx]; try exact HR.
      pose proof HR as HR0. apply Rs_iff in HR0. destruct HR0 as [_ Hm].
      pose proof (ms_draw_rel W H f1 f2 _ _ true None now (s_calls s1) (s_calls s2)
                    (ms_remove_idx_rel _ _ idx Hm)) as Hd.
      cbn [s_mp upd_bar set_s_bars s_calls].
      destruct (ms_draw W H f1 _ true None now (s_calls s1)) as [[[m13 e13] c13] ok13].
      destruct (ms_draw W H f2 _ true None now (s_calls s2)) as [[[m23 e23] c23] ok23].
      cbn [fst] in *. apply Rs_mp_calls; [|exact Hd].
      apply (upd_bar_rel s1 s2 b _ _ HR). intros x1 x2 Hx. apply Rb_set_target; [exact Hx|reflexivity].
    + rewrite Ha, Hb. exact HR.
  - (* OMPrintln *)
    pose proof HR as HR0. apply Rs_iff in HR0. destruct HR0 as [_ Hm].
    match goal with |- context [ms_draw W H f1 (s_mp s1) true ?ex now _] =>
      pose proof (ms_draw_rel W H f1 f2 _ _ true ex now (s_calls s1) (s_calls s2) Hm) as Hd;
      destruct (ms_draw W H f1 (s_mp s1) true ex now (s_calls s1)) as [[[m13 e13] c13] ok13];
      destruct (ms_draw W H f2 (s_mp s2) true ex now (s_calls s2)) as [[[m23 e23] c23] ok23] end.
    cbn [fst] in *. now apply Rs_mp_calls.
  - pose proof HR as HR0. apply Rs_iff in HR0. destruct HR0 as [_ Hm].
    pose proof (ms_suspend_rel W H f1 f2 _ _ ws now (s_calls s1) (s_calls s2) Hm) as Hd.
    destruct (ms_suspend W H f1 (s_mp s1) ws now (s_calls s1)) as [[m13 e13] c13].
    destruct (ms_suspend W H f2 (s_mp s2) ws now (s_calls s2)) as [[m23 e23] c23].
    cbn [fst] in *. now apply Rs_mp_calls.
  - pose proof HR as HR0. apply Rs_iff in HR0. destruct HR0 as [_ Hm].
    pose proof (ms_clear_rel W H f1 f2 _ _ (s_calls s1) (s_calls s2) Hm) as Hd.
    destruct (ms_clear W H f1 (s_mp s1) (s_calls s1)) as [[[m13 e13] c13] ok13].
    destruct (ms_clear W H f2 (s_mp s2) (s_calls s2)) as [[[m23 e23] c23] ok23].
    cbn [fst] in *. now apply Rs_mp_calls.
  - (* OSetAlign *)
    pose proof HR as HR0. apply Rs_iff in HR0. destruct HR0 as [Hbars Hm].
    apply Rs_iff. split; [exact Hbars|]. cbn [s_mp set_s_mp].
    apply Rm_iff in Hm. destruct Hm as (Hmem & Hfr & Hord & Hal & Horp & Ht).
    apply Rm_iff; cbn. repeat split; assumption.
Qed.

(** C18_structure over histories: the structure projection after the whole history (and,
    by induction, after every prefix) does not depend on the fault oracle. *)
Theorem run_structure W H f1 f2 ops : forall s1 s2,
  erase_io s1 = erase_io s2 ->
  erase_io (fst (run W H f1 s1 ops)) = erase_io (fst (run W H f2 s2 ops)).
Proof.
  induction ops as [|[now o] r IH]; intros s1 s2 HR; cbn [run]; [exact HR|].
  pose proof (step_structure W H f1 f2 s1 s2 now o HR) as Hs.
  destruct (step W H f1 s1 now o) as [[s1' e1] ok1]. destruct (step W H f2 s2 now o) as [[s2' e2] ok2].
  cbn [fst] in Hs. specialize (IH s1' s2' Hs).
  destruct (run W H f1 s1' r) as [s1'' e1']. destruct (run W H f2 s2' r) as [s2'' e2']. exact IH.
Qed.

Theorem faults_do_not_touch_structure W H fails s ops :
  erase_io (fst (run W H fails s ops)) = erase_io (fst (run W H no_faults s ops)).
Proof. now apply run_structure. Qed.

(* what the projection keeps: both limiters, target kinds, alignment, the whole MultiProgress
   bookkeeping except the kept-row counter *)
Lemma erase_io_keeps s :
  map logic_of (s_bars (erase_io s)) = bars_logic s /\
  map (fun b => match b_target b with TTerm t => Some (tt_rl t, tt_align t) | _ => None end) (s_bars (erase_io s))
  = map (fun b => match b_target b with TTerm t => Some (tt_rl t, tt_align t) | _ => None end) (s_bars s) /\
  ms_members (s_mp (erase_io s)) = ms_members (s_mp s) /\ ms_free (s_mp (erase_io s)) = ms_free (s_mp s) /\
  ms_order (s_mp (erase_io s)) = ms_order (s_mp s) /\ ms_orphans (s_mp (erase_io s)) = ms_orphans (s_mp s) /\
  ms_align (s_mp (erase_io s)) = ms_align (s_mp s) /\
  match ms_target (s_mp (erase_io s)), ms_target (s_mp s) with
  | TTerm a, TTerm b => tt_rl a = tt_rl b /\ tt_align a = tt_align b
  | THidden, THidden => True
  | TMulti i, TMulti j => i = j
  | _, _ => False
  end.
Proof.
  destruct s as [bars m c]. unfold erase_io, bars_logic; cbn [s_bars s_mp].
  split; [rewrite map_map; apply map_ext; intros x; destruct x; reflexivity|].
  split; [rewrite map_map; apply map_ext; intros x; destruct x as [? ? ? ? ? ? ? ? ? tg ?]; destruct tg; reflexivity|].
  destruct m as [me fr od al orp z t]; cbn. repeat split. destruct t; cbn; auto.
Qed.
