(** Proofs for model/SysPanic.v: the panic sites of the drawing system are unreachable from
    valid histories; API misuse panics exactly at the documented sites (C18 no-panic clause). *)
From IndModel Require Import Term SysPanic.
From IndProofs Require Import TermProofs TermBottomProofs MultiProofs.
From Coq Require Import Lia ZifyBool ZifyNat ZifyN Bool.
Arguments N.add : simpl never.
Arguments N.sub : simpl never.
Arguments N.mul : simpl never.
Arguments N.div : simpl never.
Arguments N.modulo : simpl never.
Arguments N.min : simpl never.
Arguments nthN {A} l i d : simpl never.
Local Open Scope N_scope.

(* ------------------------------------------------------------------ small facts *)
Lemma oob_false {A} (l : list A) i : (N.to_nat i < length l)%nat -> oob l i = false.
Proof. intros Hl. unfold oob. apply N.leb_gt. lia. Qed.

Lemma oob_true {A} (l : list A) i : (length l <= N.to_nat i)%nat -> oob l i = true.
Proof. intros Hl. unfold oob. apply N.leb_le. lia. Qed.

Lemma orelse_None a b : orelse a b = None <-> a = None /\ b = None.
Proof.
  unfold orelse. destruct a as [p|]; split; intros Hx.
  - discriminate Hx.
  - destruct Hx as [Hx _]. discriminate Hx.
  - split; [reflexivity | exact Hx].
  - apply Hx.
Qed.

(* ------------------------------------------------------------------ remove_idx / reap *)
Lemma remove_idx_np m idx : CoreInv m -> In idx (ms_order m) \/ In idx (ms_free m) ->
  ms_remove_idx_panics m idx = None.
Proof.
  intros CI Hi. unfold ms_remove_idx_panics.
  destruct (memN idx (ms_free m)) eqn:Hf; [reflexivity|].
  rewrite oob_false by (apply (ci_bound m CI); exact Hi).
  pose proof (remove_idx_core m idx CI Hi) as CI'. pose proof (ci_len _ CI') as Hl.
  destruct (Nat.ltb_spec (length (ms_members (ms_remove_idx m idx))) (length (ms_free (ms_remove_idx m idx)))); [lia|].
  destruct (Nat.eqb_spec (length (ms_members (ms_remove_idx m idx)) - length (ms_free (ms_remove_idx m idx)))
                         (length (ms_order (ms_remove_idx m idx)))); [reflexivity | lia].
Qed.

Lemma remove_idx_keeps_known m z i :
  In i (ms_order m) \/ In i (ms_free m) ->
  In i (ms_order (ms_remove_idx m z)) \/ In i (ms_free (ms_remove_idx m z)).
Proof.
  intros Hi. destruct (in_dec N.eq_dec z (ms_free m)) as [Hzf|Hzf]; [rewrite remove_idx_free; auto|].
  destruct (remove_idx_fields m z Hzf) as (_ & Ef & Eo). rewrite Ef, Eo, filter_neq_In. cbn.
  destruct (N.eq_dec i z) as [->|Hn]; [auto|]. destruct Hi; auto.
Qed.

Lemma reap_np zs : forall m, CoreInv m -> (forall i, In i zs -> In i (ms_order m) \/ In i (ms_free m)) ->
  reap_panics zs m = None.
Proof.
  induction zs as [|z r IH]; intros m CI Hz; cbn [reap_panics]; [reflexivity|].
  rewrite remove_idx_np by (auto; apply Hz; left; reflexivity).
  apply IH.
  - apply remove_idx_core; auto. apply Hz. left. reflexivity.
  - intros i Hi. apply remove_idx_keeps_known. apply Hz. right. exact Hi.
Qed.

(* ------------------------------------------------------------------ the zombie scan *)
Lemma scan_np order mems :
  (forall i, In i order -> (N.to_nat i < length mems)%nat) -> scan_panics order mems = None.
Proof.
  induction order as [|i r IH]; intros Hb; cbn [scan_panics]; [reflexivity|].
  rewrite oob_false by (apply Hb; left; reflexivity).
  destruct (negb (m_zombie (nthN mems i member_default))); [reflexivity|].
  apply IH. intros j Hj. apply Hb. right. exact Hj.
Qed.

(* ------------------------------------------------------------------ draw_to_term, every width *)
(** the guards compute with the rows of the Rust code ([wrapped_height_rs]: usize::MAX for a
    non-empty line at width 0); nothing below depends on W *)
Lemma paint_np W H : H < USIZE_MAX -> forall ls real, paint_panics ls W H real = None.
Proof.
  intros HH. induction ls as [|l r IH]; intros real; cbn [paint_panics]; [reflexivity|].
  destruct (is_bar l) eqn:Eb; cbn [andb]; [|apply IH].
  destruct (N.ltb_spec H (N.min USIZE_MAX (real + wrapped_height_rs l W))); [reflexivity|].
  destruct (N.leb_spec USIZE (real + wrapped_height_rs l W)); [|apply IH].
  unfold USIZE, USIZE_MAX, U64, U64MAX in *. lia.
Qed.

Lemma paint_real_rs_le W H : H < USIZE_MAX -> forall ls real bp, real <= H ->
  fst (paint_real_rs ls W H real bp) <= H.
Proof.
  intros HH. induction ls as [|l r IH]; intros real bp Hr; cbn [paint_real_rs fst]; [exact Hr|].
  destruct (is_bar l) eqn:Eb; cbn [andb]; [|apply IH; exact Hr].
  destruct (N.ltb_spec H (N.min USIZE_MAX (real + wrapped_height_rs l W))); [exact Hr|].
  apply IH. unfold USIZE_MAX, U64MAX in *. lia.
Qed.

Lemma dt_shift0_le ls n al W : dt_shift0 ls n al W <= n.
Proof. unfold dt_shift0. destruct al; [lia|]. destruct (_ <? _); lia. Qed.

(** the count a draw writes back, for every width: at most one screen more than before *)
Lemma dt_count_rs_le ls n al W H : H < USIZE_MAX -> dt_count_rs ls n al W H <= H + n.
Proof.
  intros HH. unfold dt_count_rs.
  pose proof (paint_real_rs_le W H HH ls 0 false ltac:(lia)) as Hr.
  destruct (paint_real_rs ls W H 0 false) as [real bp]. cbn [fst] in Hr.
  pose proof (dt_shift0_le ls n al W). destruct (_ || _); lia.
Qed.

Lemma draw_shift_le al ls n W H : draw_shift al ls n W H <= n.
Proof.
  unfold draw_shift, bottom_shift. destruct al; [lia|].
  destruct (_ && _); lia.
Qed.

Lemma draw_to_term_n_le ls n al below W H :
  snd (fst (draw_to_term ls n al below W H)) <= H + n.
Proof.
  rewrite draw_to_term_count.
  pose proof (painted_bar_rows_le W H ls 0 ltac:(lia)).
  pose proof (draw_shift_le al ls (N.min n H) W H). lia.
Qed.

Lemma full_pad_shift ls sh H : full_pad ls sh H = true -> 0 < sh.
Proof. unfold full_pad. destruct ls; [|discriminate]. intros Hx. apply andb_prop in Hx. destruct Hx as [Hx _]. apply N.ltb_lt in Hx. exact Hx. Qed.


(** since fix 7d42cff the count is capped at the height first: no hypothesis on [n] *)
Lemma dt_np ls n al below W H : H < U16 -> dt_panics ls n al below W H = None.
Proof.
  intros HH. unfold dt_panics.
  assert (HH' : H < USIZE_MAX) by (unfold U16, USIZE_MAX, U64MAX in *; lia).
  set (nc := N.min n H).
  set (in_arm := match al with Bottom => visual_line_count_rs ls W <? nc | Top => false end).
  assert (E1 : in_arm && (nc <? visual_line_count_rs ls W) = false).
  { unfold in_arm. destruct al; [reflexivity|].
    destruct (N.ltb_spec (visual_line_count_rs ls W) nc); [|reflexivity].
    cbn [andb]. apply N.ltb_ge. lia. }
  rewrite E1.
  assert (E2 : negb (starts_with_text ls) && full_pad ls (dt_shift0 ls nc al W) H && (dt_shift0 ls nc al W <? 1) = false).
  { destruct (full_pad ls (dt_shift0 ls nc al W) H) eqn:Ef; [|now rewrite andb_false_r].
    apply full_pad_shift in Ef. rewrite andb_true_r.
    assert ((dt_shift0 ls nc al W <? 1) = false) as -> by (apply N.ltb_ge; lia). apply andb_false_r. }
  rewrite E2, paint_np by exact HH'.
  pose proof (dt_count_rs_le ls nc al W H HH').
  destruct (N.leb_spec USIZE (dt_count_rs ls nc al W H)); [|reflexivity].
  unfold nc, U16, USIZE, U64 in *. lia.
Qed.

(** the arithmetic of the guards IS the model's wherever the model is faithful: for W >= 1 and
    a frame whose row count does not saturate, [dt_count_rs] is the count [Draw.draw_to_term] returns *)
Lemma vlc_rs_acc_eq ls W : 1 <= W -> forall a,
  fold_left (fun acc l => acc + wrapped_height l W) ls a <= USIZE_MAX ->
  fold_left (fun acc l => N.min USIZE_MAX (acc + wrapped_height_rs l W)) ls a
  = fold_left (fun acc l => acc + wrapped_height l W) ls a.
Proof.
  intros HW. induction ls as [|l r IH]; intros a Hle; cbn [fold_left] in *; [reflexivity|].
  assert (Hh : wrapped_height_rs l W = wrapped_height l W).
  { unfold wrapped_height_rs. destruct (N.eqb_spec W 0); [lia | reflexivity]. }
  rewrite Hh.
  assert (Hmono : a + wrapped_height l W <= fold_left (fun acc l0 => acc + wrapped_height l0 W) r (a + wrapped_height l W)).
  { rewrite visual_line_count_acc. lia. }
  rewrite N.min_r by lia. apply IH. exact Hle.
Qed.

Lemma vlc_rs_eq ls W : 1 <= W -> visual_line_count ls W <= USIZE_MAX ->
  visual_line_count_rs ls W = visual_line_count ls W.
Proof. intros HW Hle. apply vlc_rs_acc_eq; assumption. Qed.

Lemma paint_real_rs_model W H : 1 <= W -> H < USIZE_MAX -> forall ls real bp,
  paint_real_rs ls W H real bp
  = (real + bar_rows (painted ls W H real) W, bp || existsb is_bar (painted ls W H real)).
Proof.
  intros HW HH. induction ls as [|l r IH]; intros real bp; cbn [paint_real_rs painted].
  - unfold bar_rows. cbn. rewrite orb_false_r. f_equal. lia.
  - assert (Hh : wrapped_height_rs l W = wrapped_height l W).
    { unfold wrapped_height_rs. destruct (N.eqb_spec W 0); [lia | reflexivity]. }
    rewrite Hh.
    assert (Et : (H <? N.min USIZE_MAX (real + wrapped_height l W)) = (H <? real + wrapped_height l W)).
    { destruct (N.ltb_spec H (real + wrapped_height l W)); [apply N.ltb_lt | apply N.ltb_ge]; lia. }
    rewrite Et. destruct (is_bar l && (H <? real + wrapped_height l W)) eqn:E.
    + unfold bar_rows. cbn. rewrite orb_false_r. f_equal. lia.
    + rewrite IH. cbn [existsb]. unfold bar_rows. cbn [filter].
      destruct (is_bar l); [rewrite visual_line_count_cons|]; f_equal; try lia;
        now rewrite ?orb_assoc, ?orb_false_r.
Qed.

Lemma dt_count_rs_model ls n al below W H : 1 <= W -> H < USIZE_MAX ->
  visual_line_count ls W <= USIZE_MAX ->
  dt_count_rs ls (N.min n H) al W H = snd (fst (draw_to_term ls n al below W H)).
Proof.
  intros HW HH Hfull. rewrite draw_to_term_count. unfold dt_count_rs, dt_shift0.
  rewrite paint_real_rs_model, vlc_rs_eq by assumption. cbn [orb].
  unfold draw_shift, bottom_shift. destruct al.
  - destruct (_ || _); lia.
  - destruct (N.ltb_spec (visual_line_count ls W) (N.min n H)); cbn [andb];
      destruct (negb (starts_with_text ls) || existsb is_bar (painted ls W H 0)); lia.
Qed.

(* ------------------------------------------------------------------ MultiState level *)
Lemma tt_allow_keeps tg force now :
  tt_n (snd (tt_allow tg force now)) = tt_n tg
  /\ tt_align (snd (tt_allow tg force now)) = tt_align tg
  /\ tt_below (snd (tt_allow tg force now)) = tt_below tg.
Proof.
  unfold tt_allow. destruct force; [auto|]. destruct (tt_rl tg) as [r|]; [|auto].
  destruct (rl_allow r now) as [a r']. cbn. auto.
Qed.

Lemma existsb_oob_false {A} (mems : list A) order :
  (forall i, In i order -> (N.to_nat i < length mems)%nat) -> existsb (oob mems) order = false.
Proof.
  induction order as [|i r IH]; intros Hb; cbn [existsb]; [reflexivity|].
  rewrite oob_false by (apply Hb; left; reflexivity). apply IH. intros j Hj. apply Hb. right. exact Hj.
Qed.

Lemma ms_mark_np m idx : CoreInv m -> In idx (ms_order m) -> ms_mark_zombie_panics m idx = None.
Proof.
  intros CI Hi. unfold ms_mark_zombie_panics.
  rewrite oob_false by (apply (ci_bound m CI); left; exact Hi).
  destruct (ms_order m) as [|first rest] eqn:Ho; [destruct Hi|].
  destruct (negb (idx =? first)); [reflexivity|].
  apply remove_idx_np; [exact CI|]. left. rewrite Ho. exact Hi.
Qed.

Lemma ms_insert_np m loc :
  CoreInv m ->
  (forall r, loc = LAfter r \/ loc = LBefore r -> In r (ms_order m)) ->
  ms_insert_panics m loc = None /\ exists m1 idx, ms_insert m loc = Some (m1, idx).
Proof.
  intros CI Href.
  assert (Hins : exists m1 idx, ms_insert m loc = Some (m1, idx)).
  { unfold ms_insert. destruct (ms_free m) as [|i fr];
      (destruct loc as [| p | p | r | r];
       [ eexists; eexists; reflexivity | eexists; eexists; reflexivity | eexists; eexists; reflexivity
       | cbn [ms_order set_ms_free set_ms_members];
         destruct (posN_In _ _ (Href r (or_introl eq_refl))) as [q ->]; eexists; eexists; reflexivity
       | cbn [ms_order set_ms_free set_ms_members];
         destruct (posN_In _ _ (Href r (or_intror eq_refl))) as [q ->]; eexists; eexists; reflexivity ]). }
  split; [|exact Hins]. destruct Hins as (m1 & idx & Hins). unfold ms_insert_panics.
  assert (Ef : match ms_free m with i :: _ => oob (ms_members m) i | [] => false end = false).
  { destruct (ms_free m) as [|i fr] eqn:Hf; [reflexivity|]. apply oob_false, (ci_bound m CI). right. rewrite Hf. left. reflexivity. }
  rewrite Ef, Hins.
  destruct (ms_insert_spec m loc m1 idx CI Hins) as (_ & _ & CI1 & _).
  pose proof (ci_len m1 CI1) as Hl.
  destruct (Nat.ltb_spec (length (ms_members m1)) (length (ms_free m1))); [lia|].
  destruct (Nat.eqb_spec (length (ms_members m1) - length (ms_free m1)) (length (ms_order m1))); [reflexivity | lia].
Qed.

Section Ms.
  Variable W H : N.
  Variable fails : N -> bool.
  Hypothesis HH : H < U16.

  Lemma ms_draw_np m force extra now :
    CoreInv m -> extra <> Some [] -> ms_draw_panics W H m force extra now = None.
  Proof.
    intros CI Hex. unfold ms_draw_panics.
    destruct (ms_target m) as [|tg|i] eqn:Ht; try reflexivity.
    assert (Ex : match extra with Some [] => true | _ => false end = false).
    { destruct extra as [[|l r]|]; try reflexivity. congruence. }
    rewrite Ex.
    assert (Hb : forall i, In i (ms_order m) -> (N.to_nat i < length (ms_members m))%nat).
    { intros i Hi. apply (ci_bound m CI). left. exact Hi. }
    rewrite scan_np by exact Hb.
    match goal with |- context [tt_allow ?t ?f now] => destruct (tt_allow t f now) as [allowed tg2] end.
    destruct allowed; cbn [negb]; [|reflexivity].
    rewrite existsb_oob_false by exact Hb.
    rewrite dt_np by exact HH.
    apply reap_np; [exact CI|]. intros i Hi. left. eapply head_zombies_incl; eauto.
  Qed.

  Lemma ms_clear_np m : ms_clear_panics W H m = None.
  Proof.
    unfold ms_clear_panics. destruct (ms_target m) as [|tg|i]; try reflexivity. apply dt_np. exact HH.
  Qed.

  Lemma ms_suspend_np m ws now c : CoreInv m -> ms_suspend_panics W H fails m ws now c = None.
  Proof.
    intros CI. unfold ms_suspend_panics. rewrite ms_clear_np.
    unfold ms_clear. destruct (ms_target m) as [|tg|i] eqn:Ht.
    - rewrite Ht. reflexivity.
    - destruct (term_draw W H fails (tt_adjust_clear tg (ms_zombie_lines m)) [] c) as [[[tg2 e] c'] ok].
      cbn [ms_target set_ms_target set_ms_zombie_lines].
      apply ms_draw_np; [|discriminate]. eapply same_core_inv; [|exact CI]. repeat split.
    - rewrite Ht. reflexivity.
  Qed.
End Ms.

(* ------------------------------------------------------------------ bar level *)
Definition keeps_target (f : bar -> bar) : Prop := forall x, b_target (f x) = b_target x.

(** what a call through bar [b] needs: a member's slot is in the ordering *)
Definition bar_ready (s : sys) (b : N) : Prop :=
  match b_target (get_bar s b) with
  | TMulti idx => In idx (ms_order (s_mp s))
  | _ => True
  end.

Lemma target_inrange s b : b_target (get_bar s b) <> THidden -> (N.to_nat b < length (s_bars s))%nat.
Proof.
  intros Hn. destruct (Nat.lt_ge_cases (N.to_nat b) (length (s_bars s))) as [Hl|Hl]; [exact Hl|].
  rewrite get_bar_oob in Hn by exact Hl. exfalso. apply Hn. reflexivity.
Qed.

Lemma bar_ready_upd s b f : keeps_target f -> bar_ready s b -> bar_ready (upd_bar s b f) b.
Proof.
  intros Hf Hr. destruct (Nat.lt_ge_cases (N.to_nat b) (length (s_bars s))) as [Hl|Hl].
  - unfold bar_ready in *. rewrite get_upd_same by exact Hl. rewrite Hf. exact Hr.
  - rewrite upd_bar_oob by exact Hl. exact Hr.
Qed.

(** the condition on the MultiState under which its draws reach no site *)
Definition mp_ready (m : mstate) : Prop := CoreInv m.

Lemma mp_ready_store m idx texts bars :
  mp_ready m -> In idx (ms_order m) -> mp_ready (ms_store m idx texts bars).
Proof. intros CI Hi. exact (mt_core _ _ _ (ms_store_trans m idx texts bars CI Hi)). Qed.

Section BarLevel.
  Variable W H : N.
  Variable fails : N -> bool.
  Hypothesis HH : H < U16.

  Lemma bar_draw_np s b force now :
    mp_ready (s_mp s) -> bar_ready s b -> bar_draw_panics W H s b force now = None.
  Proof.
    intros MR Hr. unfold bar_draw_panics, bar_ready in *.
    destruct (b_target (get_bar s b)) as [|tg|idx]; [reflexivity| |].
    - destruct (tt_allow tg (force || finished (get_bar s b)) now) as [allowed tg1].
      destruct allowed; cbn [negb]; [|reflexivity]. apply dt_np. exact HH.
    - apply orelse_None. split.
      + unfold ms_store_panics. rewrite oob_false; [reflexivity|]. apply (ci_bound _ MR). left. exact Hr.
      + apply (ms_draw_np W H HH); [|discriminate]. apply mp_ready_store; assumption.
  Qed.

  Lemma upd_draw_np s b f force now : keeps_target f ->
    mp_ready (s_mp s) -> bar_ready s b -> bar_draw_panics W H (upd_bar s b f) b force now = None.
  Proof. intros Hf MR Hr. apply bar_draw_np; [exact MR | apply bar_ready_upd; assumption]. Qed.

  Lemma bar_println_np s b msg now :
    mp_ready (s_mp s) -> bar_ready s b -> bar_println_panics W H s b msg now = None.
  Proof.
    intros MR Hr. unfold bar_println_panics, bar_ready in *.
    destruct (b_target (get_bar s b)) as [|tg|idx]; [reflexivity| |].
    - apply dt_np. exact HH.
    - apply orelse_None. split.
      + unfold ms_store_panics. rewrite oob_false; [reflexivity|]. apply (ci_bound _ MR). left. exact Hr.
      + apply (ms_draw_np W H HH); [|discriminate]. apply mp_ready_store; assumption.
  Qed.

  Lemma bar_suspend_np s b ws now :
    mp_ready (s_mp s) -> bar_ready s b -> bar_suspend_panics W H fails s b ws now = None.
  Proof.
    intros MR Hr. unfold bar_suspend_panics. unfold bar_ready in Hr.
    destruct (b_target (get_bar s b)) as [|tg|idx] eqn:Ht; [reflexivity| |].
    - apply orelse_None. split; [apply dt_np; exact HH|].
      destruct (term_draw W H fails tg [] (s_calls s)) as [[[tg1 e1] c1] ok1].
      destruct (emit_each fails c1 (map TLine ws)) as [e2 c2].
      apply bar_draw_np; [exact MR|].
      unfold bar_ready. change (get_bar (set_s_calls ?x c2) b) with (get_bar x b).
      rewrite get_upd_same by (apply target_inrange; rewrite Ht; discriminate).
      cbn [b_target set_b_target]. exact I.
    - apply (ms_suspend_np W H fails HH). exact MR.
  Qed.
End BarLevel.

(* ------------------------------------------------------------------ one public call *)
Lemma lines_of_nonempty (m : text) : m <> [] -> lines_of m <> [].
Proof.
  assert (Haux : forall s cur, exists p q, split_nl_aux s cur = p :: q /\ (q = [] -> p = rev cur ++ s)).
  { induction s as [|c r IH]; intros cur; cbn [split_nl_aux].
    - exists (rev cur), []. split; [reflexivity|]. intros _. now rewrite app_nil_r.
    - destruct (N.eqb c NL).
      + destruct (IH []) as (p & q & E & _). exists (rev cur), (split_nl_aux r []). split; [reflexivity|].
        rewrite E. discriminate.
      + destruct (IH (c :: cur)) as (p & q & E & Hq). exists p, q. split; [exact E|].
        intros Hn. rewrite (Hq Hn). cbn [rev]. rewrite <- app_assoc. reflexivity. }
  intros Hm. unfold lines_of, split_nl. destruct (Haux m []) as (p & q & E & Hq). rewrite E.
  destruct (rev (p :: q)) as [|x r] eqn:Er.
  - discriminate.
  - destruct x as [|c x']; [|discriminate].
    intros Hr. apply (f_equal (@rev text)) in Hr. rewrite rev_involutive in Hr. cbn in Hr. subst r.
    apply (f_equal (@rev text)) in Er. rewrite rev_involutive in Er. cbn in Er.
    injection Er as -> ->. specialize (Hq eq_refl). cbn in Hq. congruence.
Qed.

Lemma keeps_finish k : keeps_target (finish_upd k).
Proof. intros x. destruct k; cbn; destruct (b_len x); reflexivity. Qed.

Section Step.
  Variable W H : N.
  Variable fails : N -> bool.
  Hypothesis HH : H < U16.

  Lemma minv_mp_ready s : MInv s -> mp_ready (s_mp s).
  Proof. apply MInv_core. Qed.

  Lemma minv_bar_ready s b : MInv s -> alive s b = true -> bar_ready s b.
  Proof.
    intros MI Ha. unfold bar_ready. destruct (b_target (get_bar s b)) as [|tg|idx] eqn:Ht; [exact I|exact I|].
    apply (proj1 (mi_alive s MI b idx Ha Ht)).
  Qed.

  Lemma insert_tail_np s b l now : MInv s ->
    (forall r, l = LAfter r \/ l = LBefore r -> In r (ms_order (s_mp s))) ->
    (forall i, b_target (get_bar s b) <> TMulti i) ->
    orelse (ms_insert_panics (s_mp s) l)
           match ms_insert (s_mp s) l with
           | Some (m1, _) => bar_set_target_panics W H (set_s_mp s m1) b now
           | None => None
           end = None.
  Proof.
    intros MI Href Hnm.
    destruct (ms_insert_np (s_mp s) l (MInv_core s MI) Href) as (Enp & m1 & idx & Eins).
    rewrite Enp, Eins. cbn [orelse]. unfold bar_set_target_panics.
    change (get_bar (set_s_mp s m1) b) with (get_bar s b).
    destruct (b_target (get_bar s b)) as [|tg|i0] eqn:Htb; try reflexivity. exfalso. eapply Hnm; reflexivity.
  Qed.

  Lemma step_np s a now o :
    MInv s -> Refines s a ->
    op_ok s o = true -> step_panics W H fails s now o = None.
  Proof.
    intros MI RF Hk.
    pose proof (minv_mp_ready s MI) as MR.
    assert (Hal : forall b, op_bar o = Some b -> alive s b = true).
    { intros b Hb. pose proof Hk as Hk'. unfold op_ok in Hk'. rewrite Hb in Hk'. apply andb_prop in Hk'. tauto. }
    assert (R1 : forall b, op_bar o = Some b -> bar_ready s b).
    { intros b Hb. apply minv_bar_ready; auto. }
    destruct o; cbn [step_panics]; try reflexivity;
      try (apply (upd_draw_np W H HH); [intros x; reflexivity | exact MR | apply R1; reflexivity]);
      try (apply (bar_draw_np W H HH); [exact MR | apply R1; reflexivity]).
    - (* inc *) unfold bar_pos_update_panics.
      destruct (ap_allow _ now) as [al ap']. destruct al; [|reflexivity].
      unfold bar_tick_panics. apply (bar_draw_np W H HH); auto.
      repeat (apply bar_ready_upd; [intros x; reflexivity|]). apply R1. reflexivity.
    - (* dec *) unfold bar_pos_update_panics.
      destruct (ap_allow _ now) as [al ap']. destruct al; [|reflexivity].
      unfold bar_tick_panics. apply (bar_draw_np W H HH); auto.
      repeat (apply bar_ready_upd; [intros x; reflexivity|]). apply R1. reflexivity.
    - (* set_position *) unfold bar_pos_update_panics.
      destruct (ap_allow _ now) as [al ap']. destruct al; [|reflexivity].
      unfold bar_tick_panics. apply (bar_draw_np W H HH); auto.
      repeat (apply bar_ready_upd; [intros x; reflexivity|]). apply R1. reflexivity.
    - (* println *) apply (bar_println_np W H HH); auto.
    - (* suspend *) apply (bar_suspend_np W H fails HH); auto.
    - (* finish *) unfold bar_finish_panics. apply (upd_draw_np W H HH); auto. apply keeps_finish.
    - (* finish_using_style *) unfold bar_finish_panics. apply (upd_draw_np W H HH); auto. apply keeps_finish.
    - (* drop *)
      assert (Ha : alive s b = true) by (apply Hal; reflexivity).
      unfold bar_drop_panics. destruct (finished (get_bar s b)) eqn:Hf.
      + unfold mark_zombie_panics. destruct (b_target (get_bar s b)) as [|tg|idx] eqn:Ht; try reflexivity.
        apply ms_mark_np; [apply MInv_core; exact MI|]. apply (mi_alive s MI b idx Ha Ht).
      + apply orelse_None. split.
        * unfold bar_finish_panics. apply (upd_draw_np W H HH); auto. apply keeps_finish.
        * destruct (nonstruct_sim W H fails s a now (OFinish b (b_on_finish (get_bar s b))) MI RF) as (r & MI1 & _).
          { unfold op_ok. cbn. rewrite Ha. reflexivity. } { reflexivity. }
          pose proof (step_bars_pres W H fails s now (OFinish b (b_on_finish (get_bar s b))) eq_refl) as BP.
          unfold MultiSpec.step_sys in MI1, BP. cbn [step fst] in MI1, BP.
          set (s1 := fst (bar_finish W H fails s b (b_on_finish (get_bar s b)) now)) in *.
          destruct (BP b) as [Ha1 Hs1]. rewrite Ha in Ha1.
          unfold mark_zombie_panics. destruct (b_target (get_bar s1 b)) as [|tg|idx] eqn:Ht; try reflexivity.
          apply ms_mark_np; [apply MInv_core; exact MI1|]. apply (mi_alive s1 MI1 b idx Ha1 Ht).
    - (* insert *)
      pose proof Hk as Hk'. unfold op_ok in Hk'. cbn [op_bar] in Hk'.
      apply andb_prop in Hk'. destruct Hk' as [Ha Href].
      apply orelse_None. split.
      { unfold insert_ref_panics. destruct loc as [|p|p|r|r]; try reflexivity;
          apply andb_prop in Href; destruct Href as [_ ->]; reflexivity. }
      destruct (b_target (get_bar s b)) as [|tg|i0] eqn:Htb; [| |reflexivity].
      all: destruct loc as [|p|p|r|r].
      all: try (apply andb_prop in Href; destruct Href as [Har Hmr];
                destruct (is_member_target s r Hmr) as [i Hi]; rewrite Hi).
      all: apply insert_tail_np; [exact MI | | rewrite Htb; discriminate].
      all: intros r' [Hc|Hc]; try discriminate Hc; injection Hc as <-; eapply (mi_alive s MI); eauto.
    - (* remove *)
      assert (Ha : alive s b = true) by (apply Hal; reflexivity).
      destruct (b_target (get_bar s b)) as [|tg|idx] eqn:Ht; try reflexivity.
      cbn [s_mp upd_bar set_s_bars].
      destruct (mi_alive s MI b idx Ha Ht) as [Hi _].
      pose proof MR as CI.
      apply orelse_None. split; [apply remove_idx_np; auto|].
      apply (ms_draw_np W H HH); [|discriminate]. apply remove_idx_core; auto.
    - (* mp.println *)
      apply (ms_draw_np W H HH); [exact MR|].
      destruct m as [|c r]; [discriminate|].
      intros Hc. injection Hc as Hc. apply map_eq_nil in Hc. revert Hc. apply lines_of_nonempty. discriminate.
    - (* mp.suspend *) apply (ms_suspend_np W H fails HH); exact MR.
    - (* mp.clear *) apply (ms_clear_np W H HH).
  Qed.
End Step.

(* ------------------------------------------------------------------ misuse, exactly *)
Lemma op_ok_split s o :
  op_ok s o = handles_alive s o && match misuse_site s o with None => true | Some _ => false end.
Proof.
  unfold op_ok, handles_alive, misuse_site.
  destruct (match op_bar o with Some b => alive s b | None => true end); cbn [andb]; [|reflexivity].
  destruct o; try reflexivity. destruct loc as [|p|p|r|r]; try reflexivity;
    destruct (alive s r), (is_member s r); reflexivity.
Qed.

Section Exact.
  Variable W H : N.
  Variable fails : N -> bool.
  Hypothesis HH : H < U16.

  Theorem step_misuse_exact s a now o :
    MInv s -> Refines s a ->
    handles_alive s o = true -> step_panics W H fails s now o = misuse_site s o.
  Proof.
    intros MI RF Hh. destruct (misuse_site s o) as [p|] eqn:Em.
    - unfold misuse_site in Em. destruct o; try discriminate Em.
      destruct loc as [|q|q|r|r]; try discriminate Em; cbn [step_panics insert_ref_panics];
        destruct (is_member s r); try discriminate Em; cbn [orelse]; exact Em.
    - apply (step_np W H fails HH s a); auto. rewrite op_ok_split, Hh, Em. reflexivity.
  Qed.
End Exact.

(* ------------------------------------------------------------------ histories *)
Section Runs.
  Variable W H : N.
  Hypothesis HH : H < U16.

  Lemma reach_inv fails s0 ops : init_ok s0 -> hist_ok W H fails s0 ops ->
    exists a, MInv (run W H fails s0 ops) /\ Refines (run W H fails s0 ops) a.
  Proof.
    intros Hi Hh. destruct (init_inv W (fun _ => false) s0 Hi) as [MI RF].
    exact (sim_run_end W H fails ops s0 _ (sim_run W H fails ops s0 _ MI RF Hh)).
  Qed.

  (** (1) + (3): the state is reached under ANY fault oracle [fails]; the next call runs under ANY
      oracle [fails'] (the same or another one) *)
  Theorem no_panic_reachable fails fails' s0 ops now o :
    init_ok s0 -> hist_ok W H fails s0 ops ->
    op_ok (run W H fails s0 ops) o = true ->
    step_panics W H fails' (run W H fails s0 ops) now o = None.
  Proof.
    intros Hi Hh Hk. destruct (reach_inv fails s0 ops Hi Hh) as (a & MI & RF).
    apply (step_np W H fails' HH _ a); assumption.
  Qed.

  (** (2): with live handles, a call panics iff it is one of the enumerated misuses, at that site *)
  Theorem misuse_panics_exactly fails fails' s0 ops now o :
    init_ok s0 -> hist_ok W H fails s0 ops ->
    handles_alive (run W H fails s0 ops) o = true ->
    step_panics W H fails' (run W H fails s0 ops) now o = misuse_site (run W H fails s0 ops) o
    /\ (step_panics W H fails' (run W H fails s0 ops) now o = None <-> op_ok (run W H fails s0 ops) o = true).
  Proof.
    intros Hi Hh Hha. destruct (reach_inv fails s0 ops Hi Hh) as (a & MI & RF).
    pose proof (step_misuse_exact W H fails' HH _ a now o MI RF Hha) as E.
    split; [exact E|]. rewrite E, op_ok_split, Hha. cbn [andb].
    destruct (misuse_site (run W H fails s0 ops) o); split; intros Hx; try reflexivity; discriminate Hx.
  Qed.

  (** whole histories: no call of a valid history panics *)
  Theorem run_no_panic fails ops : forall s a, MInv s -> Refines s a ->
    hist_ok W H fails s ops -> run_panics W H fails s ops = None.
  Proof.
    induction ops as [|[now o] rest IH]; intros s a MI RF Hh; cbn [run_panics]; [reflexivity|].
    destruct Hh as [Hk Hr].
    rewrite (step_np W H fails HH s a now o MI RF Hk).
    destruct (step_sim W H fails s a now o MI RF Hk) as (r & MI' & RF').
    rewrite (IH _ _ MI' RF' Hr). reflexivity.
  Qed.

  Theorem run_no_panic_init fails s0 ops :
    init_ok s0 -> hist_ok W H fails s0 ops -> run_panics W H fails s0 ops = None.
  Proof. intros Hi Hh. destruct (init_inv W (fun _ => false) s0 Hi) as [MI RF]. eapply run_no_panic; eauto. Qed.
End Runs.
(* ------------------------------------------------------------------ decidable hypotheses, witnesses *)
Lemma hist_ok_b_ok W H fails ops : forall s, hist_ok_b W H fails s ops = true -> hist_ok W H fails s ops.
Proof.
  induction ops as [|[now o] r IH]; intros s Hb; cbn [hist_ok hist_ok_b] in *; [exact I|].
  apply andb_prop in Hb. destruct Hb as [Hk Hr]. split; [exact Hk | apply IH; exact Hr].
Qed.

Lemma init_ok_b_ok s : init_ok_b s = true -> init_ok s.
Proof.
  unfold init_ok_b, init_ok. destruct (ms_members (s_mp s)); [|discriminate].
  destruct (ms_free (s_mp s)); [|discriminate]. destruct (ms_order (s_mp s)); [|discriminate].
  intros Hb. repeat split. intros b. unfold is_member.
  destruct (Nat.lt_ge_cases (N.to_nat b) (length (s_bars s))) as [Hl|Hl].
  - rewrite forallb_forall in Hb. specialize (Hb (get_bar s b) (nth_In _ _ Hl)).
    destruct (b_target (get_bar s b)); [reflexivity | reflexivity | discriminate Hb].
  - rewrite get_bar_oob by exact Hl. reflexivity.
Qed.

(** FINDING (zero-width terminal): the clause fails at W = 0.  Two dropped bars with non-empty
    frames at the head of the ordering: the zombie scan of the next draw adds usize::MAX twice. *)

(** REGRESSION (finding D31, fixed by /repo f8fa07f).  On a zero-width terminal the OLD guard
    ([step_panics_pre_f8fa07f]: `adjust += line_count`) fires after [np_ops] - two dropped bars with
    non-empty frames at the head of the ordering, usize::MAX rows each -; the guards of the current
    code do not, and the whole history (and [np_ops2] under faults) runs without reaching a site at
    W = 0 as well *)
Lemma zero_width_regression :
  init_ok np_sys /\ hist_ok 0 10 np_nofail np_sys (np_ops ++ [(6, OTick 3)])
  /\ run_panics_pre_f8fa07f 0 10 np_nofail np_sys (np_ops ++ [(6, OTick 3)]) = Some (14%nat, P_draw_adjust_add)
  /\ step_panics_pre_f8fa07f 0 10 np_nofail (run 0 10 np_nofail np_sys np_ops) 6 (OMPrintln [104]) = Some P_draw_adjust_add
  /\ run_panics_pre_f8fa07f 1 10 np_nofail np_sys (np_ops ++ [(6, OTick 3)]) = None
  /\ run_panics 0 10 np_nofail np_sys (np_ops ++ [(6, OTick 3)]) = None
  /\ step_panics 0 10 np_nofail (run 0 10 np_nofail np_sys np_ops) 6 (OMPrintln [104]) = None.
Proof.
  split; [apply init_ok_b_ok; vm_compute; reflexivity|].
  split; [apply hist_ok_b_ok; vm_compute; reflexivity|].
  repeat split; vm_compute; reflexivity.
Qed.

(** non-vacuity of the positive theorems: a valid history with faults that goes through
    insert_after / insert_before / insert_from_back, a re-add, suspend, remove, mark_zombie at the
    head, a flagged zombie reaped by a later draw, clear - the history is valid,
    on a 7x4 terminal and on a ZERO-WIDTH one *)
Lemma nonvacuous_history :
  init_ok np_sys /\ hist_ok 7 4 np_fails2 np_sys np_ops2
  /\ run_panics 7 4 np_fails2 np_sys np_ops2 = None
  /\ hist_ok 0 4 np_fails2 np_sys np_ops2
  /\ run_panics 0 4 np_fails2 np_sys np_ops2 = None
  /\ map (fun k => ms_order (s_mp (run 7 4 np_fails2 np_sys (firstn k np_ops2)))) [4; 13; 16; 17; 19; 21]%nat
     = [[2; 0; 3; 1]; [2; 0; 1]; [2; 0; 1]; [0; 1]; [1]; []]
  /\ s_calls (run 7 4 np_fails2 np_sys np_ops2) <> s_calls (run 7 4 np_nofail np_sys np_ops2).
Proof.
  split; [apply init_ok_b_ok; vm_compute; reflexivity|].
  split; [apply hist_ok_b_ok; vm_compute; reflexivity|].
  split; [vm_compute; reflexivity|].
  split; [apply hist_ok_b_ok; vm_compute; reflexivity|].
  split; [vm_compute; reflexivity|]. split; [vm_compute; reflexivity|]. vm_compute. discriminate.
Qed.

(** a misuse that yields a site: insert_after relative to a bar that was never added *)
Lemma misuse_example :
  let s := run 5 10 np_nofail np_sys [(0, OInsert BEnd 0)] in
  handles_alive s (OInsert (BAfter 2) 1) = true /\ op_ok s (OInsert (BAfter 2) 1) = false
  /\ step_panics 5 10 np_nofail s 1 (OInsert (BAfter 2) 1) = Some P_insert_after_index_unwrap
  /\ step_panics 5 10 np_nofail s 1 (OInsert (BBefore 2) 0) = Some P_insert_before_index_unwrap
  /\ step_panics 5 10 np_nofail s 1 (OInsert (BAfter 0) 1) = None.
Proof. vm_compute. repeat split; reflexivity. Qed.
