(** Proofs for model/SysPanic.v: the panic sites of the drawing system are unreachable from
    valid histories; API misuse panics exactly at the documented sites (C18 no-panic clause). *)
From IndModel Require Import Term SysPanic.
From IndProofs Require Import TermProofs TermBottomProofs MultiProofs.
From Coq Require Import Lia ZifyBool ZifyNat ZifyN Bool.
Arguments N.add : simpl never.
Arguments N.sub : simpl never.
Arguments N.mul : simpl never.
Arguments N.div : simpl never.
Arguments N.modulo : simpl never.
Arguments N.min : simpl never.
Arguments nthN {A} l i d : simpl never.
Local Open Scope N_scope.

(* ------------------------------------------------------------------ small facts *)
Lemma oob_false {A} (l : list A) i : (N.to_nat i < length l)%nat -> oob l i = false.
Proof. intros Hl. unfold oob. apply N.leb_gt. lia. Qed.

Lemma oob_true {A} (l : list A) i : (length l <= N.to_nat i)%nat -> oob l i = true.
Proof. intros Hl. unfold oob. apply N.leb_le. lia. Qed.

Lemma orelse_None a b : orelse a b = None <-> a = None /\ b = None.
Proof.
  unfold orelse. destruct a as [p|]; split; intros Hx.
  - discriminate Hx.
  - destruct Hx as [Hx _]. discriminate Hx.
  - split; [reflexivity | exact Hx].
  - apply Hx.
Qed.

(* ------------------------------------------------------------------ remove_idx / reap *)
Lemma remove_idx_np m idx : CoreInv m -> In idx (ms_order m) \/ In idx (ms_free m) ->
  ms_remove_idx_panics m idx = None.
Proof.
  intros CI Hi. unfold ms_remove_idx_panics.
  destruct (memN idx (ms_free m)) eqn:Hf; [reflexivity|].
  rewrite oob_false by (apply (ci_bound m CI); exact Hi).
  pose proof (remove_idx_core m idx CI Hi) as CI'. pose proof (ci_len _ CI') as Hl.
  destruct (Nat.ltb_spec (length (ms_members (ms_remove_idx m idx))) (length (ms_free (ms_remove_idx m idx)))); [lia|].
  destruct (Nat.eqb_spec (length (ms_members (ms_remove_idx m idx)) - length (ms_free (ms_remove_idx m idx)))
                         (length (ms_order (ms_remove_idx m idx)))); [reflexivity | lia].
Qed.

Lemma remove_idx_keeps_known m z i :
  In i (ms_order m) \/ In i (ms_free m) ->
  In i (ms_order (ms_remove_idx m z)) \/ In i (ms_free (ms_remove_idx m z)).
Proof.
  intros Hi. destruct (in_dec N.eq_dec z (ms_free m)) as [Hzf|Hzf]; [rewrite remove_idx_free; auto|].
  destruct (remove_idx_fields m z Hzf) as (_ & Ef & Eo). rewrite Ef, Eo, filter_neq_In. cbn.
  destruct (N.eq_dec i z) as [->|Hn]; [auto|]. destruct Hi; auto.
Qed.

Lemma reap_np zs : forall m, CoreInv m -> (forall i, In i zs -> In i (ms_order m) \/ In i (ms_free m)) ->
  reap_panics zs m = None.
Proof.
  induction zs as [|z r IH]; intros m CI Hz; cbn [reap_panics]; [reflexivity|].
  rewrite remove_idx_np by (auto; apply Hz; left; reflexivity).
  apply IH.
  - apply remove_idx_core; auto. apply Hz. left. reflexivity.
  - intros i Hi. apply remove_idx_keeps_known. apply Hz. right. exact Hi.
Qed.

(* ------------------------------------------------------------------ the zombie scan *)
Lemma scan_np order mems :
  (forall i, In i order -> (N.to_nat i < length mems)%nat) -> scan_panics order mems = None.
Proof.
  induction order as [|i r IH]; intros Hb; cbn [scan_panics]; [reflexivity|].
  rewrite oob_false by (apply Hb; left; reflexivity).
  destruct (negb (m_zombie (nthN mems i member_default))); [reflexivity|].
  apply IH. intros j Hj. apply Hb. right. exact Hj.
Qed.

(* ------------------------------------------------------------------ draw_to_term, every width *)
(** the guards compute with the rows of the Rust code ([wrapped_height_rs]: usize::MAX for a
    non-empty line at width 0); nothing below depends on W *)
Lemma paint_np W H : H < USIZE_MAX -> forall ls real, paint_panics ls W H real = None.
Proof.
  intros HH. induction ls as [|l r IH]; intros real; cbn [paint_panics]; [reflexivity|].
  destruct (is_bar l) eqn:Eb; cbn [andb]; [|apply IH].
  destruct (N.ltb_spec H (N.min USIZE_MAX (real + wrapped_height_rs l W))); [reflexivity|].
  destruct (N.leb_spec USIZE (real + wrapped_height_rs l W)); [|apply IH].
  unfold USIZE, USIZE_MAX, U64, U64MAX in *. lia.
Qed.

Lemma paint_real_rs_le W H : H < USIZE_MAX -> forall ls real bp, real <= H ->
  fst (paint_real_rs ls W H real bp) <= H.
Proof.
  intros HH. induction ls as [|l r IH]; intros real bp Hr; cbn [paint_real_rs fst]; [exact Hr|].
  destruct (is_bar l) eqn:Eb; cbn [andb]; [|apply IH; exact Hr].
  destruct (N.ltb_spec H (N.min USIZE_MAX (real + wrapped_height_rs l W))); [exact Hr|].
  apply IH. unfold USIZE_MAX, U64MAX in *. lia.
Qed.

Lemma dt_shift0_le ls n al W : dt_shift0 ls n al W <= n.
Proof. unfold dt_shift0. destruct al; [lia|]. destruct (_ <? _); lia. Qed.

(** the count a draw writes back, for every width: at most one screen more than before *)
Lemma dt_count_rs_le ls n al W H : H < USIZE_MAX -> dt_count_rs ls n al W H <= H + n.
Proof.
  intros HH. unfold dt_count_rs.
  pose proof (paint_real_rs_le W H HH ls 0 false ltac:(lia)) as Hr.
  destruct (paint_real_rs ls W H 0 false) as [real bp]. cbn [fst] in Hr.
  pose proof (dt_shift0_le ls n al W). destruct (_ || _); lia.
Qed.

Lemma draw_shift_le al ls n W H : draw_shift al ls n W H <= n.
Proof.
  unfold draw_shift, bottom_shift. destruct al; [lia|].
  destruct (_ && _); lia.
Qed.

Lemma draw_to_term_n_le ls n al below W H :
  snd (fst (draw_to_term ls n al below W H)) <= H + n.
Proof.
  rewrite draw_to_term_count.
  pose proof (painted_bar_rows_le W H ls 0 ltac:(lia)).
  pose proof (draw_shift_le al ls (N.min n H) W H). lia.
Qed.

Lemma full_pad_shift ls sh H : full_pad ls sh H = true -> 0 < sh.
Proof. unfold full_pad. destruct ls; [|discriminate]. intros Hx. apply andb_prop in Hx. destruct Hx as [Hx _]. apply N.ltb_lt in Hx. exact Hx. Qed.


Lemma dt_np ls n al below W H : H < U16 -> n + U16 <= USIZE ->
  dt_panics ls n al below W H = None.
Proof.
  intros HH Hn. unfold dt_panics.
  assert (HH' : H < USIZE_MAX) by (unfold U16, USIZE_MAX, U64MAX in *; lia).
  set (in_arm := match al with Bottom => visual_line_count_rs ls W <? n | Top => false end).
  assert (E1 : in_arm && (n <? visual_line_count_rs ls W) = false).
  { unfold in_arm. destruct al; [reflexivity|].
    destruct (N.ltb_spec (visual_line_count_rs ls W) n); [|reflexivity].
    cbn [andb]. apply N.ltb_ge. lia. }
  rewrite E1.
  assert (E2 : negb (starts_with_text ls) && full_pad ls (dt_shift0 ls n al W) H && (dt_shift0 ls n al W <? 1) = false).
  { destruct (full_pad ls (dt_shift0 ls n al W) H) eqn:Ef; [|now rewrite andb_false_r].
    apply full_pad_shift in Ef. rewrite andb_true_r.
    assert ((dt_shift0 ls n al W <? 1) = false) as -> by (apply N.ltb_ge; lia). apply andb_false_r. }
  rewrite E2, paint_np by exact HH'.
  pose proof (dt_count_rs_le ls n al W H HH').
  destruct (N.leb_spec USIZE (dt_count_rs ls n al W H)); [|reflexivity].
  unfold U16, USIZE, U64 in *. lia.
Qed.

(** the arithmetic of the guards IS the model's wherever the model is faithful: for W >= 1 and
    a frame whose row count does not saturate, [dt_count_rs] is the count [Draw.draw_to_term] returns *)
Lemma vlc_rs_acc_eq ls W : 1 <= W -> forall a,
  fold_left (fun acc l => acc + wrapped_height l W) ls a <= USIZE_MAX ->
  fold_left (fun acc l => N.min USIZE_MAX (acc + wrapped_height_rs l W)) ls a
  = fold_left (fun acc l => acc + wrapped_height l W) ls a.
Proof.
  intros HW. induction ls as [|l r IH]; intros a Hle; cbn [fold_left] in *; [reflexivity|].
  assert (Hh : wrapped_height_rs l W = wrapped_height l W).
  { unfold wrapped_height_rs. destruct (N.eqb_spec W 0); [lia | reflexivity]. }
  rewrite Hh.
  assert (Hmono : a + wrapped_height l W <= fold_left (fun acc l0 => acc + wrapped_height l0 W) r (a + wrapped_height l W)).
  { rewrite visual_line_count_acc. lia. }
  rewrite N.min_r by lia. apply IH. exact Hle.
Qed.

Lemma vlc_rs_eq ls W : 1 <= W -> visual_line_count ls W <= USIZE_MAX ->
  visual_line_count_rs ls W = visual_line_count ls W.
Proof. intros HW Hle. apply vlc_rs_acc_eq; assumption. Qed.

Lemma paint_real_rs_model W H : 1 <= W -> H < USIZE_MAX -> forall ls real bp,
  paint_real_rs ls W H real bp
  = (real + bar_rows (painted ls W H real) W, bp || existsb is_bar (painted ls W H real)).
Proof.
  intros HW HH. induction ls as [|l r IH]; intros real bp; cbn [paint_real_rs painted].
  - unfold bar_rows. cbn. rewrite orb_false_r. f_equal. lia.
  - assert (Hh : wrapped_height_rs l W = wrapped_height l W).
    { unfold wrapped_height_rs. destruct (N.eqb_spec W 0); [lia | reflexivity]. }
    rewrite Hh.
    assert (Et : (H <? N.min USIZE_MAX (real + wrapped_height l W)) = (H <? real + wrapped_height l W)).
    { destruct (N.ltb_spec H (real + wrapped_height l W)); [apply N.ltb_lt | apply N.ltb_ge]; lia. }
    rewrite Et. destruct (is_bar l && (H <? real + wrapped_height l W)) eqn:E.
    + unfold bar_rows. cbn. rewrite orb_false_r. f_equal. lia.
    + rewrite IH. cbn [existsb]. unfold bar_rows. cbn [filter].
      destruct (is_bar l); [rewrite visual_line_count_cons|]; f_equal; try lia;
        now rewrite ?orb_assoc, ?orb_false_r.
Qed.

Lemma dt_count_rs_model ls n al below W H : 1 <= W -> H < USIZE_MAX ->
  visual_line_count ls W <= USIZE_MAX ->
  dt_count_rs ls (N.min n H) al W H = snd (fst (draw_to_term ls n al below W H)).
Proof.
  intros HW HH Hfull. rewrite draw_to_term_count. unfold dt_count_rs, dt_shift0.
  rewrite paint_real_rs_model, vlc_rs_eq by assumption. cbn [orb].
  unfold draw_shift, bottom_shift. destruct al.
  - destruct (_ || _); lia.
  - destruct (N.ltb_spec (visual_line_count ls W) (N.min n H)); cbn [andb];
      destruct (negb (starts_with_text ls) || existsb is_bar (painted ls W H 0)); lia.
Qed.

(* ------------------------------------------------------------------ MultiState level *)
Lemma tt_allow_keeps tg force now :
  tt_n (snd (tt_allow tg force now)) = tt_n tg
  /\ tt_align (snd (tt_allow tg force now)) = tt_align tg
  /\ tt_below (snd (tt_allow tg force now)) = tt_below tg.
Proof.
  unfold tt_allow. destruct force; [auto|]. destruct (tt_rl tg) as [r|]; [|auto].
  destruct (rl_allow r now) as [a r']. cbn. auto.
Qed.

Lemma existsb_oob_false {A} (mems : list A) order :
  (forall i, In i order -> (N.to_nat i < length mems)%nat) -> existsb (oob mems) order = false.
Proof.
  induction order as [|i r IH]; intros Hb; cbn [existsb]; [reflexivity|].
  rewrite oob_false by (apply Hb; left; reflexivity). apply IH. intros j Hj. apply Hb. right. exact Hj.
Qed.

(** the counters of the MultiProgress target leave room for one more screen *)
Definition mp_fits (m : mstate) : Prop :=
  forall tg, ms_target m = TTerm tg -> tt_n tg + ms_zombie_lines m + U16 <= USIZE.

Lemma ms_mark_np m idx : CoreInv m -> In idx (ms_order m) -> ms_mark_zombie_panics m idx = None.
Proof.
  intros CI Hi. unfold ms_mark_zombie_panics.
  rewrite oob_false by (apply (ci_bound m CI); left; exact Hi).
  destruct (ms_order m) as [|first rest] eqn:Ho; [destruct Hi|].
  destruct (negb (idx =? first)); [reflexivity|].
  apply remove_idx_np; [exact CI|]. left. rewrite Ho. exact Hi.
Qed.

Lemma ms_insert_np m loc :
  CoreInv m ->
  (forall r, loc = LAfter r \/ loc = LBefore r -> In r (ms_order m)) ->
  ms_insert_panics m loc = None /\ exists m1 idx, ms_insert m loc = Some (m1, idx).
Proof.
  intros CI Href.
  assert (Hins : exists m1 idx, ms_insert m loc = Some (m1, idx)).
  { unfold ms_insert. destruct (ms_free m) as [|i fr];
      (destruct loc as [| p | p | r | r];
       [ eexists; eexists; reflexivity | eexists; eexists; reflexivity | eexists; eexists; reflexivity
       | cbn [ms_order set_ms_free set_ms_members];
         destruct (posN_In _ _ (Href r (or_introl eq_refl))) as [q ->]; eexists; eexists; reflexivity
       | cbn [ms_order set_ms_free set_ms_members];
         destruct (posN_In _ _ (Href r (or_intror eq_refl))) as [q ->]; eexists; eexists; reflexivity ]). }
  split; [|exact Hins]. destruct Hins as (m1 & idx & Hins). unfold ms_insert_panics.
  assert (Ef : match ms_free m with i :: _ => oob (ms_members m) i | [] => false end = false).
  { destruct (ms_free m) as [|i fr] eqn:Hf; [reflexivity|]. apply oob_false, (ci_bound m CI). right. rewrite Hf. left. reflexivity. }
  rewrite Ef, Hins.
  destruct (ms_insert_spec m loc m1 idx CI Hins) as (_ & _ & CI1 & _).
  pose proof (ci_len m1 CI1) as Hl.
  destruct (Nat.ltb_spec (length (ms_members m1)) (length (ms_free m1))); [lia|].
  destruct (Nat.eqb_spec (length (ms_members m1) - length (ms_free m1)) (length (ms_order m1))); [reflexivity | lia].
Qed.

Section Ms.
  Variable W H : N.
  Variable fails : N -> bool.
  Hypothesis HH : H < U16.

  Lemma ms_draw_np m force extra now :
    CoreInv m -> extra <> Some [] -> mp_fits m -> ms_draw_panics W H m force extra now = None.
  Proof.
    intros CI Hex Hfit. unfold ms_draw_panics.
    destruct (ms_target m) as [|tg|i] eqn:Ht; try reflexivity.
    assert (Ex : match extra with Some [] => true | _ => false end = false).
    { destruct extra as [[|l r]|]; try reflexivity. congruence. }
    rewrite Ex.
    assert (Hb : forall i, In i (ms_order m) -> (N.to_nat i < length (ms_members m))%nat).
    { intros i Hi. apply (ci_bound m CI). left. exact Hi. }
    rewrite scan_np by exact Hb.
    set (ht := _ || _).
    set (tg1 := if ht then tt_adjust_clear tg (ms_zombie_lines m) else tg).
    destruct (tt_allow_keeps tg1 (force || (0 <? visual_line_count (ms_orphans m) W)) now) as (En & _ & _).
    destruct (tt_allow tg1 (force || (0 <? visual_line_count (ms_orphans m) W)) now) as [allowed tg2].
    cbn [snd] in En. destruct allowed; cbn [negb]; [|reflexivity].
    rewrite existsb_oob_false by exact Hb.
    rewrite dt_np; [| exact HH |].
    - apply reap_np; [exact CI|]. intros i Hi. left. eapply head_zombies_incl; eauto.
    - rewrite En. specialize (Hfit tg Ht). unfold tg1. destruct ht; cbn [tt_adjust_clear tt_n]; lia.
  Qed.

  Lemma ms_clear_np m : mp_fits m -> ms_clear_panics W H m = None.
  Proof.
    intros Hfit. unfold ms_clear_panics. destruct (ms_target m) as [|tg|i] eqn:Ht; try reflexivity.
    apply dt_np; [exact HH|]. specialize (Hfit tg Ht). cbn [tt_adjust_clear tt_n]. lia.
  Qed.

  Lemma ms_suspend_np m ws now c :
    CoreInv m -> mp_fits m -> ms_suspend_panics W H fails m ws now c = None.
  Proof.
    intros CI Hfit. unfold ms_suspend_panics. rewrite ms_clear_np by exact Hfit.
    unfold ms_clear. destruct (ms_target m) as [|tg|i] eqn:Ht.
    - rewrite Ht. reflexivity.
    - destruct (term_draw W H fails (tt_adjust_clear tg (ms_zombie_lines m)) [] c) as [[[tg2 e] c'] ok].
      cbn [ms_target set_ms_target set_ms_zombie_lines].
      apply ms_draw_np.
      + eapply same_core_inv; [|exact CI]. repeat split.
      + discriminate.
      + intros tg' Ht'. cbn in Ht'. injection Ht' as <-. cbn. unfold U16, USIZE, U64. lia.
    - rewrite Ht. reflexivity.
  Qed.
End Ms.

(* ------------------------------------------------------------------ bar level *)
Definition keeps_target (f : bar -> bar) : Prop := forall x, b_target (f x) = b_target x.

(** what a call through bar [b] needs: a member's slot is in the ordering; a terminal of its own
    has a counter with room for [k] more screens *)
Definition bar_ready (k : N) (s : sys) (b : N) : Prop :=
  match b_target (get_bar s b) with
  | TMulti idx => In idx (ms_order (s_mp s))
  | TTerm tg => tt_n tg + k * U16 <= USIZE
  | THidden => True
  end.

Lemma target_inrange s b : b_target (get_bar s b) <> THidden -> (N.to_nat b < length (s_bars s))%nat.
Proof.
  intros Hn. destruct (Nat.lt_ge_cases (N.to_nat b) (length (s_bars s))) as [Hl|Hl]; [exact Hl|].
  rewrite get_bar_oob in Hn by exact Hl. exfalso. apply Hn. reflexivity.
Qed.

Lemma bar_ready_upd k s b f : keeps_target f -> bar_ready k s b -> bar_ready k (upd_bar s b f) b.
Proof.
  intros Hf Hr. destruct (Nat.lt_ge_cases (N.to_nat b) (length (s_bars s))) as [Hl|Hl].
  - unfold bar_ready in *. rewrite get_upd_same by exact Hl. rewrite Hf. exact Hr.
  - rewrite upd_bar_oob by exact Hl. exact Hr.
Qed.

(** the conditions on the MultiState under which its draws reach no site *)
Definition mp_ready (m : mstate) : Prop := CoreInv m /\ mp_fits m.

Lemma mp_ready_store m idx texts bars :
  mp_ready m -> In idx (ms_order m) -> mp_ready (ms_store m idx texts bars).
Proof.
  intros (CI & Hfit) Hi. split; [exact (mt_core _ _ _ (ms_store_trans m idx texts bars CI Hi)) | exact Hfit].
Qed.

Section BarLevel.
  Variable W H : N.
  Variable fails : N -> bool.
  Hypothesis HH : H < U16.

  Lemma bar_draw_np s b force now :
    mp_ready (s_mp s) -> bar_ready 1 s b -> bar_draw_panics W H s b force now = None.
  Proof.
    intros MR Hr. unfold bar_draw_panics, bar_ready in *.
    destruct (b_target (get_bar s b)) as [|tg|idx]; [reflexivity| |].
    - destruct (tt_allow_keeps tg (force || finished (get_bar s b)) now) as (En & _ & _).
      destruct (tt_allow tg (force || finished (get_bar s b)) now) as [allowed tg1]. cbn [snd] in En.
      destruct allowed; cbn [negb]; [|reflexivity]. apply dt_np; [exact HH | lia].
    - apply orelse_None. split.
      + unfold ms_store_panics. rewrite oob_false; [reflexivity|]. apply (ci_bound _ (proj1 MR)). left. exact Hr.
      + destruct (mp_ready_store (s_mp s) idx []
                    (match ms_width W (s_mp s) with Some _ => frame_of (get_bar s b) | None => [] end) MR Hr)
          as (CI' & Hfit').
        apply (ms_draw_np W H fails HH); auto. discriminate.
  Qed.

  Lemma upd_draw_np s b f force now : keeps_target f ->
    mp_ready (s_mp s) -> bar_ready 1 s b -> bar_draw_panics W H (upd_bar s b f) b force now = None.
  Proof. intros Hf MR Hr. apply bar_draw_np; [exact MR | apply bar_ready_upd; assumption]. Qed.

  Lemma bar_println_np s b msg now :
    mp_ready (s_mp s) -> bar_ready 1 s b -> bar_println_panics W H s b msg now = None.
  Proof.
    intros MR Hr. unfold bar_println_panics, bar_ready in *.
    destruct (b_target (get_bar s b)) as [|tg|idx]; [reflexivity| |].
    - apply dt_np; [exact HH | lia].
    - apply orelse_None. split.
      + unfold ms_store_panics. rewrite oob_false; [reflexivity|]. apply (ci_bound _ (proj1 MR)). left. exact Hr.
      + destruct (mp_ready_store (s_mp s) idx (text_lines msg)
                    (match ms_width W (s_mp s) with Some _ => frame_of (get_bar s b) | None => [] end) MR Hr)
          as (CI' & Hfit').
        apply (ms_draw_np W H fails HH); auto. discriminate.
  Qed.

  Lemma term_draw_n_le tg ls c :
    tt_n (fst (fst (fst (term_draw W H fails tg ls c)))) <= H + tt_n tg.
  Proof.
    unfold term_draw. pose proof (draw_to_term_n_le ls (tt_n tg) (tt_align tg) (tt_below tg) W H) as Hle.
    destruct (draw_to_term ls (tt_n tg) (tt_align tg) (tt_below tg) W H) as [[ops n'] below'].
    destruct (emit fails c ops) as [[e c'] ok]. cbn [fst snd tt_n] in *. destruct ok; lia.
  Qed.

  Lemma bar_suspend_np s b ws now :
    mp_ready (s_mp s) -> bar_ready 2 s b -> bar_suspend_panics W H fails s b ws now = None.
  Proof.
    intros MR Hr. unfold bar_suspend_panics. unfold bar_ready in Hr.
    destruct (b_target (get_bar s b)) as [|tg|idx] eqn:Ht; [reflexivity| |].
    - apply orelse_None. split; [apply dt_np; [exact HH | lia]|].
      pose proof (term_draw_n_le tg [] (s_calls s)) as Hle.
      destruct (term_draw W H fails tg [] (s_calls s)) as [[[tg1 e1] c1] ok1]. cbn [fst] in Hle.
      destruct (emit_each fails c1 (map TLine ws)) as [e2 c2].
      apply bar_draw_np; [exact MR|].
      unfold bar_ready. change (get_bar (set_s_calls ?x c2) b) with (get_bar x b).
      rewrite get_upd_same by (apply target_inrange; rewrite Ht; discriminate).
      cbn [b_target set_b_target]. unfold U16 in *. lia.
    - destruct MR as (CI & Hfit). apply (ms_suspend_np W H fails HH); assumption.
  Qed.
End BarLevel.

(* ------------------------------------------------------------------ one public call *)
Lemma lines_of_nonempty (m : text) : m <> [] -> lines_of m <> [].
Proof.
  assert (Haux : forall s cur, exists p q, split_nl_aux s cur = p :: q /\ (q = [] -> p = rev cur ++ s)).
  { induction s as [|c r IH]; intros cur; cbn [split_nl_aux].
    - exists (rev cur), []. split; [reflexivity|]. intros _. now rewrite app_nil_r.
    - destruct (N.eqb c NL).
      + destruct (IH []) as (p & q & E & _). exists (rev cur), (split_nl_aux r []). split; [reflexivity|].
        rewrite E. discriminate.
      + destruct (IH (c :: cur)) as (p & q & E & Hq). exists p, q. split; [exact E|].
        intros Hn. rewrite (Hq Hn). cbn [rev]. rewrite <- app_assoc. reflexivity. }
  intros Hm. unfold lines_of, split_nl. destruct (Haux m []) as (p & q & E & Hq). rewrite E.
  destruct (rev (p :: q)) as [|x r] eqn:Er.
  - discriminate.
  - destruct x as [|c x']; [|discriminate].
    intros Hr. apply (f_equal (@rev text)) in Hr. rewrite rev_involutive in Hr. cbn in Hr. subst r.
    apply (f_equal (@rev text)) in Er. rewrite rev_involutive in Er. cbn in Er.
    injection Er as -> ->. specialize (Hq eq_refl). cbn in Hq. congruence.
Qed.

Lemma keeps_finish k : keeps_target (finish_upd k).
Proof. intros x. destruct k; cbn; destruct (b_len x); reflexivity. Qed.

Section Step.
  Variable W H : N.
  Variable fails : N -> bool.
  Hypothesis HH : H < U16.

  Lemma minv_mp_ready s : MInv s -> counters_fit s -> mp_ready (s_mp s).
  Proof.
    intros MI [_ Hc]. split; [apply MInv_core; exact MI|].
    intros tg Ht. specialize (Hc tg Ht). unfold U16 in *. lia.
  Qed.

  Lemma minv_bar_ready s b : MInv s -> counters_fit s -> alive s b = true -> bar_ready 2 s b.
  Proof.
    intros MI [Hc _] Ha. unfold bar_ready. destruct (b_target (get_bar s b)) as [|tg|idx] eqn:Ht; [exact I| |].
    - apply (Hc b tg Ht).
    - apply (proj1 (mi_alive s MI b idx Ha Ht)).
  Qed.

  Lemma bar_ready_mono s b : bar_ready 2 s b -> bar_ready 1 s b.
  Proof. unfold bar_ready. destruct (b_target (get_bar s b)); auto. unfold U16. lia. Qed.

  Lemma insert_tail_np s b l now : MInv s ->
    (forall r, l = LAfter r \/ l = LBefore r -> In r (ms_order (s_mp s))) ->
    (forall i, b_target (get_bar s b) <> TMulti i) ->
    orelse (ms_insert_panics (s_mp s) l)
           match ms_insert (s_mp s) l with
           | Some (m1, _) => bar_set_target_panics W H (set_s_mp s m1) b now
           | None => None
           end = None.
  Proof.
    intros MI Href Hnm.
    destruct (ms_insert_np (s_mp s) l (MInv_core s MI) Href) as (Enp & m1 & idx & Eins).
    rewrite Enp, Eins. cbn [orelse]. unfold bar_set_target_panics.
    change (get_bar (set_s_mp s m1) b) with (get_bar s b).
    destruct (b_target (get_bar s b)) as [|tg|i0] eqn:Htb; try reflexivity. exfalso. eapply Hnm; reflexivity.
  Qed.

  Lemma step_np s a now o :
    MInv s -> Refines s a -> counters_fit s ->
    op_ok s o = true -> step_panics W H fails s now o = None.
  Proof.
    intros MI RF Hcf Hk.
    pose proof (minv_mp_ready s MI Hcf) as MR.
    assert (Hal : forall b, op_bar o = Some b -> alive s b = true).
    { intros b Hb. pose proof Hk as Hk'. unfold op_ok in Hk'. rewrite Hb in Hk'. apply andb_prop in Hk'. tauto. }
    assert (R2 : forall b, op_bar o = Some b -> bar_ready 2 s b).
    { intros b Hb. apply minv_bar_ready; auto. }
    assert (R1 : forall b, op_bar o = Some b -> bar_ready 1 s b).
    { intros b Hb. apply bar_ready_mono, R2, Hb. }
    destruct o; cbn [step_panics]; try reflexivity;
      try (apply (upd_draw_np W H fails HH); [intros x; reflexivity | exact MR | apply R1; reflexivity]);
      try (apply (bar_draw_np W H fails HH); [exact MR | apply R1; reflexivity]).
    - (* inc *) unfold bar_pos_update_panics.
      destruct (ap_allow _ now) as [al ap']. destruct al; [|reflexivity].
      unfold bar_tick_panics. apply (bar_draw_np W H fails HH); auto.
      repeat (apply bar_ready_upd; [intros x; reflexivity|]). apply R1. reflexivity.
    - (* dec *) unfold bar_pos_update_panics.
      destruct (ap_allow _ now) as [al ap']. destruct al; [|reflexivity].
      unfold bar_tick_panics. apply (bar_draw_np W H fails HH); auto.
      repeat (apply bar_ready_upd; [intros x; reflexivity|]). apply R1. reflexivity.
    - (* set_position *) unfold bar_pos_update_panics.
      destruct (ap_allow _ now) as [al ap']. destruct al; [|reflexivity].
      unfold bar_tick_panics. apply (bar_draw_np W H fails HH); auto.
      repeat (apply bar_ready_upd; [intros x; reflexivity|]). apply R1. reflexivity.
    - (* println *) apply (bar_println_np W H fails HH); auto.
    - (* suspend *) apply (bar_suspend_np W H fails HH); auto.
    - (* finish *) unfold bar_finish_panics. apply (upd_draw_np W H fails HH); auto. apply keeps_finish.
    - (* finish_using_style *) unfold bar_finish_panics. apply (upd_draw_np W H fails HH); auto. apply keeps_finish.
    - (* drop *)
      assert (Ha : alive s b = true) by (apply Hal; reflexivity).
      unfold bar_drop_panics. destruct (finished (get_bar s b)) eqn:Hf.
      + unfold mark_zombie_panics. destruct (b_target (get_bar s b)) as [|tg|idx] eqn:Ht; try reflexivity.
        apply ms_mark_np; [apply MInv_core; exact MI|]. apply (mi_alive s MI b idx Ha Ht).
      + apply orelse_None. split.
        * unfold bar_finish_panics. apply (upd_draw_np W H fails HH); auto. apply keeps_finish.
        * destruct (nonstruct_sim W H fails s a now (OFinish b (b_on_finish (get_bar s b))) MI RF) as (r & MI1 & _).
          { unfold op_ok. cbn. rewrite Ha. reflexivity. } { reflexivity. }
          pose proof (step_bars_pres W H fails s now (OFinish b (b_on_finish (get_bar s b))) eq_refl) as BP.
          unfold MultiSpec.step_sys in MI1, BP. cbn [step fst] in MI1, BP.
          set (s1 := fst (bar_finish W H fails s b (b_on_finish (get_bar s b)) now)) in *.
          destruct (BP b) as [Ha1 Hs1]. rewrite Ha in Ha1.
          unfold mark_zombie_panics. destruct (b_target (get_bar s1 b)) as [|tg|idx] eqn:Ht; try reflexivity.
          apply ms_mark_np; [apply MInv_core; exact MI1|]. apply (mi_alive s1 MI1 b idx Ha1 Ht).
    - (* insert *)
      pose proof Hk as Hk'. unfold op_ok in Hk'. cbn [op_bar] in Hk'.
      apply andb_prop in Hk'. destruct Hk' as [Ha Href].
      apply orelse_None. split.
      { unfold insert_ref_panics. destruct loc as [|p|p|r|r]; try reflexivity;
          apply andb_prop in Href; destruct Href as [_ ->]; reflexivity. }
      destruct (b_target (get_bar s b)) as [|tg|i0] eqn:Htb; [| |reflexivity].
      all: destruct loc as [|p|p|r|r].
      all: try (apply andb_prop in Href; destruct Href as [Har Hmr];
                destruct (is_member_target s r Hmr) as [i Hi]; rewrite Hi).
      all: apply insert_tail_np; [exact MI | | rewrite Htb; discriminate].
      all: intros r' [Hc|Hc]; try discriminate Hc; injection Hc as <-; eapply (mi_alive s MI); eauto.
    - (* remove *)
      assert (Ha : alive s b = true) by (apply Hal; reflexivity).
      destruct (b_target (get_bar s b)) as [|tg|idx] eqn:Ht; try reflexivity.
      cbn [s_mp upd_bar set_s_bars].
      destruct (mi_alive s MI b idx Ha Ht) as [Hi _].
      destruct MR as (CI & Hfit).
      apply orelse_None. split; [apply remove_idx_np; auto|].
      apply (ms_draw_np W H fails HH); auto.
      + apply remove_idx_core; auto.
      + discriminate.
      + intros tg Htg. destruct (remove_idx_other (s_mp s) idx) as (_ & _ & Ez & Et).
        rewrite Ez. rewrite Et in Htg. apply Hfit. exact Htg.
    - (* mp.println *)
      destruct MR as (CI & Hfit). apply (ms_draw_np W H fails HH); auto.
      destruct m as [|c r]; [discriminate|].
      intros Hc. injection Hc as Hc. apply map_eq_nil in Hc. revert Hc. apply lines_of_nonempty. discriminate.
    - (* mp.suspend *) destruct MR as (CI & Hfit). apply (ms_suspend_np W H fails HH); auto.
    - (* mp.clear *) destruct MR as (CI & Hfit). apply (ms_clear_np W H fails HH); auto.
  Qed.
End Step.

(* ------------------------------------------------------------------ misuse, exactly *)
Lemma op_ok_split s o :
  op_ok s o = handles_alive s o && match misuse_site s o with None => true | Some _ => false end.
Proof.
  unfold op_ok, handles_alive, misuse_site.
  destruct (match op_bar o with Some b => alive s b | None => true end); cbn [andb]; [|reflexivity].
  destruct o; try reflexivity. destruct loc as [|p|p|r|r]; try reflexivity;
    destruct (alive s r), (is_member s r); reflexivity.
Qed.

Section Exact.
  Variable W H : N.
  Variable fails : N -> bool.
  Hypothesis HH : H < U16.

  Theorem step_misuse_exact s a now o :
    MInv s -> Refines s a -> counters_fit s ->
    handles_alive s o = true -> step_panics W H fails s now o = misuse_site s o.
  Proof.
    intros MI RF Hcf Hh. destruct (misuse_site s o) as [p|] eqn:Em.
    - unfold misuse_site in Em. destruct o; try discriminate Em.
      destruct loc as [|q|q|r|r]; try discriminate Em; cbn [step_panics insert_ref_panics];
        destruct (is_member s r); try discriminate Em; cbn [orelse]; exact Em.
    - apply (step_np W H fails HH s a); auto. rewrite op_ok_split, Hh, Em. reflexivity.
  Qed.
End Exact.

(* ------------------------------------------------------------------ histories *)
Section Runs.
  Variable W H : N.
  Hypothesis HH : H < U16.

  Lemma reach_inv fails s0 ops : init_ok s0 -> hist_ok W H fails s0 ops ->
    exists a, MInv (run W H fails s0 ops) /\ Refines (run W H fails s0 ops) a.
  Proof.
    intros Hi Hh. destruct (init_inv W (fun _ => false) s0 Hi) as [MI RF].
    exact (sim_run_end W H fails ops s0 _ (sim_run W H fails ops s0 _ MI RF Hh)).
  Qed.

  (** (1) + (3): the state is reached under ANY fault oracle [fails]; the next call runs under ANY
      oracle [fails'] (the same or another one) *)
  Theorem no_panic_reachable fails fails' s0 ops now o :
    init_ok s0 -> hist_ok W H fails s0 ops ->
    counters_fit (run W H fails s0 ops) ->
    op_ok (run W H fails s0 ops) o = true ->
    step_panics W H fails' (run W H fails s0 ops) now o = None.
  Proof.
    intros Hi Hh Hcf Hk. destruct (reach_inv fails s0 ops Hi Hh) as (a & MI & RF).
    apply (step_np W H fails' HH _ a); assumption.
  Qed.

  (** (2): with live handles, a call panics iff it is one of the enumerated misuses, at that site *)
  Theorem misuse_panics_exactly fails fails' s0 ops now o :
    init_ok s0 -> hist_ok W H fails s0 ops ->
    counters_fit (run W H fails s0 ops) ->
    handles_alive (run W H fails s0 ops) o = true ->
    step_panics W H fails' (run W H fails s0 ops) now o = misuse_site (run W H fails s0 ops) o
    /\ (step_panics W H fails' (run W H fails s0 ops) now o = None <-> op_ok (run W H fails s0 ops) o = true).
  Proof.
    intros Hi Hh Hcf Hha. destruct (reach_inv fails s0 ops Hi Hh) as (a & MI & RF).
    pose proof (step_misuse_exact W H fails' HH _ a now o MI RF Hcf Hha) as E.
    split; [exact E|]. rewrite E, op_ok_split, Hha. cbn [andb].
    destruct (misuse_site (run W H fails s0 ops) o); split; intros Hx; try reflexivity; discriminate Hx.
  Qed.

  (** whole histories: no call of a valid history panics *)
  Theorem run_no_panic fails ops : forall s a, MInv s -> Refines s a ->
    hist_ok W H fails s ops -> hist_fits W H fails s ops -> run_panics W H fails s ops = None.
  Proof.
    induction ops as [|[now o] rest IH]; intros s a MI RF Hh Hf; cbn [run_panics]; [reflexivity|].
    destruct Hh as [Hk Hr]. destruct Hf as (Hcf & Hf).
    rewrite (step_np W H fails HH s a now o MI RF Hcf Hk).
    destruct (step_sim W H fails s a now o MI RF Hk) as (r & MI' & RF').
    rewrite (IH _ _ MI' RF' Hr Hf). reflexivity.
  Qed.

  Theorem run_no_panic_init fails s0 ops :
    init_ok s0 -> hist_ok W H fails s0 ops -> hist_fits W H fails s0 ops ->
    run_panics W H fails s0 ops = None.
  Proof. intros Hi Hh Hf. destruct (init_inv W (fun _ => false) s0 Hi) as [MI RF]. eapply run_no_panic; eauto. Qed.
End Runs.
(* ------------------------------------------------------------------ decidable hypotheses, witnesses *)
Lemma counters_fit_b_ok s : counters_fit_b s = true -> counters_fit s.
Proof.
  unfold counters_fit_b. intros Hb. apply andb_prop in Hb. destruct Hb as [Hbars Hmp]. split.
  - intros b tg Ht. destruct (Nat.lt_ge_cases (N.to_nat b) (length (s_bars s))) as [Hl|Hl].
    + rewrite forallb_forall in Hbars. specialize (Hbars (get_bar s b) (nth_In _ _ Hl)).
      rewrite Ht in Hbars. cbn [target_fits_b] in Hbars. apply N.leb_le in Hbars. lia.
    + rewrite get_bar_oob in Ht by exact Hl. discriminate Ht.
  - intros tg Ht. rewrite Ht in Hmp. cbn [target_fits_b] in Hmp. apply N.leb_le in Hmp. lia.
Qed.

Lemma hist_fits_b_ok W H fails ops : forall s, hist_fits_b W H fails s ops = true -> hist_fits W H fails s ops.
Proof.
  induction ops as [|[now o] r IH]; intros s Hb; cbn [hist_fits hist_fits_b] in *; [exact I|].
  apply andb_prop in Hb. destruct Hb as [Hc Hr].
  split; [apply counters_fit_b_ok; exact Hc | apply IH; exact Hr].
Qed.

Lemma hist_ok_b_ok W H fails ops : forall s, hist_ok_b W H fails s ops = true -> hist_ok W H fails s ops.
Proof.
  induction ops as [|[now o] r IH]; intros s Hb; cbn [hist_ok hist_ok_b] in *; [exact I|].
  apply andb_prop in Hb. destruct Hb as [Hk Hr]. split; [exact Hk | apply IH; exact Hr].
Qed.

Lemma init_ok_b_ok s : init_ok_b s = true -> init_ok s.
Proof.
  unfold init_ok_b, init_ok. destruct (ms_members (s_mp s)); [|discriminate].
  destruct (ms_free (s_mp s)); [|discriminate]. destruct (ms_order (s_mp s)); [|discriminate].
  intros Hb. repeat split. intros b. unfold is_member.
  destruct (Nat.lt_ge_cases (N.to_nat b) (length (s_bars s))) as [Hl|Hl].
  - rewrite forallb_forall in Hb. specialize (Hb (get_bar s b) (nth_In _ _ Hl)).
    destruct (b_target (get_bar s b)); [reflexivity | reflexivity | discriminate Hb].
  - rewrite get_bar_oob by exact Hl. reflexivity.
Qed.

(** FINDING (zero-width terminal): the clause fails at W = 0.  Two dropped bars with non-empty
    frames at the head of the ordering: the zombie scan of the next draw adds usize::MAX twice. *)

(** REGRESSION (finding D31, fixed by /repo f8fa07f).  On a zero-width terminal the OLD guard
    ([step_panics_pre_f8fa07f]: `adjust += line_count`) fires after [np_ops] - two dropped bars with
    non-empty frames at the head of the ordering, usize::MAX rows each -; the guards of the current
    code do not, and the whole history (and [np_ops2] under faults) runs without reaching a site at
    W = 0 as well *)
Lemma zero_width_regression :
  init_ok np_sys /\ hist_ok 0 10 np_nofail np_sys (np_ops ++ [(6, OTick 3)])
  /\ hist_fits 0 10 np_nofail np_sys (np_ops ++ [(6, OTick 3)])
  /\ run_panics_pre_f8fa07f 0 10 np_nofail np_sys (np_ops ++ [(6, OTick 3)]) = Some (14%nat, P_draw_adjust_add)
  /\ step_panics_pre_f8fa07f 0 10 np_nofail (run 0 10 np_nofail np_sys np_ops) 6 (OMPrintln [104]) = Some P_draw_adjust_add
  /\ run_panics_pre_f8fa07f 1 10 np_nofail np_sys (np_ops ++ [(6, OTick 3)]) = None
  /\ run_panics 0 10 np_nofail np_sys (np_ops ++ [(6, OTick 3)]) = None
  /\ step_panics 0 10 np_nofail (run 0 10 np_nofail np_sys np_ops) 6 (OMPrintln [104]) = None.
Proof.
  split; [apply init_ok_b_ok; vm_compute; reflexivity|].
  split; [apply hist_ok_b_ok; vm_compute; reflexivity|].
  split; [apply hist_fits_b_ok; vm_compute; reflexivity|].
  repeat split; vm_compute; reflexivity.
Qed.

(** non-vacuity of the positive theorems: a valid history with faults that goes through
    insert_after / insert_before / insert_from_back, a re-add, suspend, remove, mark_zombie at the
    head, a flagged zombie reaped by a later draw, clear - every hypothesis holds at every state,
    on a 7x4 terminal and on a ZERO-WIDTH one *)
Lemma nonvacuous_history :
  init_ok np_sys /\ hist_ok 7 4 np_fails2 np_sys np_ops2 /\ hist_fits 7 4 np_fails2 np_sys np_ops2
  /\ run_panics 7 4 np_fails2 np_sys np_ops2 = None
  /\ hist_ok 0 4 np_fails2 np_sys np_ops2 /\ hist_fits 0 4 np_fails2 np_sys np_ops2
  /\ run_panics 0 4 np_fails2 np_sys np_ops2 = None
  /\ map (fun k => ms_order (s_mp (run 7 4 np_fails2 np_sys (firstn k np_ops2)))) [4; 13; 16; 17; 19; 21]%nat
     = [[2; 0; 3; 1]; [2; 0; 1]; [2; 0; 1]; [0; 1]; [1]; []]
  /\ s_calls (run 7 4 np_fails2 np_sys np_ops2) <> s_calls (run 7 4 np_nofail np_sys np_ops2).
Proof.
  split; [apply init_ok_b_ok; vm_compute; reflexivity|].
  split; [apply hist_ok_b_ok; vm_compute; reflexivity|].
  split; [apply hist_fits_b_ok; vm_compute; reflexivity|].
  split; [vm_compute; reflexivity|].
  split; [apply hist_ok_b_ok; vm_compute; reflexivity|].
  split; [apply hist_fits_b_ok; vm_compute; reflexivity|].
  split; [vm_compute; reflexivity|]. split; [vm_compute; reflexivity|]. vm_compute. discriminate.
Qed.

(** a misuse that yields a site: insert_after relative to a bar that was never added *)
Lemma misuse_example :
  let s := run 5 10 np_nofail np_sys [(0, OInsert BEnd 0)] in
  handles_alive s (OInsert (BAfter 2) 1) = true /\ op_ok s (OInsert (BAfter 2) 1) = false
  /\ step_panics 5 10 np_nofail s 1 (OInsert (BAfter 2) 1) = Some P_insert_after_index_unwrap
  /\ step_panics 5 10 np_nofail s 1 (OInsert (BBefore 2) 0) = Some P_insert_before_index_unwrap
  /\ step_panics 5 10 np_nofail s 1 (OInsert (BAfter 0) 1) = None.
Proof. vm_compute. repeat split; reflexivity. Qed.

(* ------------------------------------------------------------------ growth of the row counters *)
From IndProofs Require Import MultiFrame.

(** every row counter of the state is at most [B] *)
Definition bar_le (B : N) (x : bar) : Prop :=
  match b_target x with TTerm tg => tt_n tg <= B | _ => True end.
Definition cbound (B : N) (s : sys) : Prop :=
  Forall (bar_le B) (s_bars s) /\ region_count (s_mp s) <= B.

Lemma updN_Forall {A} (P : A -> Prop) (f : A -> A) l : forall i,
  Forall P l -> (forall x, P x -> P (f x)) -> Forall P (updN l i f).
Proof.
  induction l as [|x r IH]; intros i Hl Hf; [constructor|].
  inversion Hl; subst. destruct i; cbn [updN]; constructor; auto.
Qed.

Lemma Forall_mono_le B B' l : B <= B' -> Forall (bar_le B) l -> Forall (bar_le B') l.
Proof.
  intros Hle Hl. eapply Forall_impl; [|exact Hl]. intros x. unfold bar_le. destruct (b_target x); auto. lia.
Qed.

Lemma cbound_mono B B' s : B <= B' -> cbound B s -> cbound B' s.
Proof. intros Hle [Hb Hr]. split; [eapply Forall_mono_le; eauto | lia]. Qed.

Lemma get_bar_le B s b : Forall (bar_le B) (s_bars s) -> bar_le B (get_bar s b).
Proof.
  intros Hl. destruct (Nat.lt_ge_cases (N.to_nat b) (length (s_bars s))) as [Hlt|Hge].
  - rewrite Forall_forall in Hl. apply Hl. apply nth_In. exact Hlt.
  - rewrite get_bar_oob by exact Hge. exact I.
Qed.

Lemma upd_keep_le B s b f : keeps_target f -> Forall (bar_le B) (s_bars s) -> Forall (bar_le B) (s_bars (upd_bar s b f)).
Proof. intros Hf Hl. cbn. apply updN_Forall; [exact Hl|]. intros x. unfold bar_le. rewrite Hf. auto. Qed.

Lemma upd_target_le B s b t : Forall (bar_le B) (s_bars s) ->
  match t with TTerm tg => tt_n tg <= B | _ => True end ->
  Forall (bar_le B) (s_bars (upd_bar s b (fun x => set_b_target x t))).
Proof. intros Hl Ht. cbn. apply updN_Forall; [exact Hl|]. intros x _. unfold bar_le. cbn. exact Ht. Qed.

Section Growth.
  Variable W H : N.
  Variable fails : N -> bool.

  Lemma term_draw_n_le' tg ls c : tt_n (fst (fst (fst (term_draw W H fails tg ls c)))) <= H + tt_n tg.
  Proof.
    unfold term_draw. pose proof (draw_to_term_n_le ls (tt_n tg) (tt_align tg) (tt_below tg) W H) as Hle.
    destruct (draw_to_term ls (tt_n tg) (tt_align tg) (tt_below tg) W H) as [[ops n'] below'].
    destruct (emit fails c ops) as [[e c'] ok]. cbn [fst snd tt_n] in *. destruct ok; lia.
  Qed.

  Lemma ms_draw_rc m force extra now c :
    region_count (fst (fst (fst (ms_draw W H fails m force extra now c)))) <= region_count m + H.
  Proof.
    destruct (ms_target m) as [|tg|i] eqn:Ht.
    - rewrite ms_draw_hidden by (rewrite Ht; discriminate). cbn. lia.
    - destruct (ms_draw_count W H fails m force extra now c tg Ht) as (HE & _ & Hno & Hyes).
      destruct (ms_attempt W m force extra now); [|rewrite Hno by reflexivity; lia].
      destruct (Hyes eq_refl) as (tg3 & Etg & Erc). rewrite Erc, <- Etg.
      match goal with |- context [term_draw W H fails ?t ?l c] => pose proof (term_draw_n_le' t l c) as Hle end.
      cbn [tt_n] in Hle. unfold ms_erase_n, region_count in *. rewrite Ht in *. cbn [target_n] in *.
      destruct (ms_has_text m extra); lia.
    - rewrite ms_draw_hidden by (rewrite Ht; discriminate). cbn. lia.
  Qed.

  Lemma ms_clear_rc m c : region_count (fst (fst (fst (ms_clear W H fails m c)))) <= region_count m + H.
  Proof.
    unfold ms_clear. destruct (ms_target m) as [|tg|i] eqn:Ht; try (cbn; lia).
    pose proof (term_draw_n_le' (tt_adjust_clear tg (ms_zombie_lines m)) [] c) as Hle.
    destruct (term_draw W H fails (tt_adjust_clear tg (ms_zombie_lines m)) [] c) as [[[tg2 e] c'] ok].
    cbn [fst tt_n tt_adjust_clear] in *. unfold region_count. rewrite Ht. cbn. lia.
  Qed.

  Lemma ms_suspend_rc m ws now c :
    region_count (fst (fst (ms_suspend W H fails m ws now c))) <= region_count m + 2 * H.
  Proof.
    unfold ms_suspend. pose proof (ms_clear_rc m c) as H1.
    destruct (ms_clear W H fails m c) as [[[m1 e1] c1] ok1]. cbn [fst] in H1.
    set (m1' := set_ms_target m1 _).
    destruct (emit_each fails c1 (map TLine ws)) as [e2 c2].
    pose proof (ms_draw_rc m1' true None now c2) as H2.
    destruct (ms_draw W H fails m1' true None now c2) as [[[m3 e3] c3] ok3]. cbn [fst] in *.
    assert (region_count m1' <= region_count m1).
    { unfold m1', region_count. cbn. destruct (ms_target m1); cbn; lia. }
    lia.
  Qed.

  Lemma ms_store_rc m idx t b : region_count (ms_store m idx t b) = region_count m.
  Proof. reflexivity. Qed.

  Lemma ms_remove_rc m idx : region_count (ms_remove_idx m idx) = region_count m.
  Proof. destruct (remove_idx_other m idx) as (_ & _ & Ez & Et). unfold region_count. rewrite Ez, Et. reflexivity. Qed.

  Lemma ms_insert_rc m loc m1 idx : ms_insert m loc = Some (m1, idx) -> region_count m1 = region_count m.
  Proof.
    unfold ms_insert. destruct (ms_free m) as [|i fr]; destruct loc as [|p|p|r|r]; cbn [ms_order set_ms_free set_ms_members];
      try (intros E; injection E as <- _; reflexivity);
      (destruct (posN r _); [intros E; injection E as <- _; reflexivity | discriminate]).
  Qed.

  Lemma bar_draw_cb B s b force now : cbound B s -> cbound (B + H) (fst (bar_draw W H fails s b force now)).
  Proof.
    intros [Hb Hr]. unfold bar_draw. pose proof (get_bar_le B s b Hb) as Hg. unfold bar_le in Hg.
    destruct (b_target (get_bar s b)) as [|tg|idx].
    - cbn [fst]. apply (cbound_mono B); [lia | split; assumption].
    - destruct (tt_allow_keeps tg (force || finished (get_bar s b)) now) as (En & _ & _).
      destruct (tt_allow tg (force || finished (get_bar s b)) now) as [al tg1]. cbn [snd] in En.
      destruct al; cbn [negb].
      + pose proof (term_draw_n_le' tg1 (frame_of (get_bar s b)) (s_calls s)) as Hle.
        destruct (term_draw W H fails tg1 (frame_of (get_bar s b)) (s_calls s)) as [[[tg2 e] c'] ok].
        cbn [fst] in *. split; [|cbn; lia].
        change (s_bars (set_s_calls ?x c')) with (s_bars x).
        apply upd_target_le; [eapply Forall_mono_le; [|exact Hb]; lia | lia].
      + cbn [fst]. split; [|cbn; lia]. apply upd_target_le; [eapply Forall_mono_le; [|exact Hb]; lia | lia].
    - set (bars := match ms_width W (s_mp s) with Some _ => _ | None => _ end).
      pose proof (ms_draw_rc (ms_store (s_mp s) idx [] bars) (force || finished (get_bar s b)) None now (s_calls s)) as Hd.
      destruct (ms_draw W H fails (ms_store (s_mp s) idx [] bars) (force || finished (get_bar s b)) None now (s_calls s))
        as [[[m2 e] c'] ok]. cbn [fst] in *. rewrite ms_store_rc in Hd.
      split; [cbn; eapply Forall_mono_le; [|exact Hb]; lia | cbn; lia].
  Qed.

  Lemma upd_draw_cb B s b f force now : keeps_target f -> cbound B s ->
    cbound (B + H) (fst (bar_draw W H fails (upd_bar s b f) b force now)).
  Proof. intros Hf [Hb Hr]. apply bar_draw_cb. split; [apply upd_keep_le; assumption | exact Hr]. Qed.
End Growth.

Section Growth2.
  Variable W H : N.
  Variable fails : N -> bool.

  Lemma bar_println_cb B s b msg now : cbound B s -> cbound (B + H) (fst (bar_println W H fails s b msg now)).
  Proof.
    intros [Hb Hr]. unfold bar_println. pose proof (get_bar_le B s b Hb) as Hg. unfold bar_le in Hg.
    destruct (b_target (get_bar s b)) as [|tg|idx].
    - cbn [fst]. apply (cbound_mono B); [lia | split; assumption].
    - pose proof (term_draw_n_le' W H fails tg (text_lines msg ++ frame_of (get_bar s b)) (s_calls s)) as Hle.
      destruct (term_draw W H fails tg (text_lines msg ++ frame_of (get_bar s b)) (s_calls s)) as [[[tg2 e] c'] ok].
      cbn [fst] in *. split; [|cbn; lia].
      change (s_bars (set_s_calls ?x c')) with (s_bars x).
      apply upd_target_le; [eapply Forall_mono_le; [|exact Hb]; lia | lia].
    - set (bars := match ms_width W (s_mp s) with Some _ => _ | None => _ end).
      pose proof (ms_draw_rc W H fails (ms_store (s_mp s) idx (text_lines msg) bars) true None now (s_calls s)) as Hd.
      destruct (ms_draw W H fails (ms_store (s_mp s) idx (text_lines msg) bars) true None now (s_calls s))
        as [[[m2 e] c'] ok]. cbn [fst] in *. rewrite ms_store_rc in Hd.
      split; [cbn; eapply Forall_mono_le; [|exact Hb]; lia | cbn; lia].
  Qed.

  Lemma bar_suspend_cb B s b ws now : cbound B s -> cbound (B + 2 * H) (fst (bar_suspend W H fails s b ws now)).
  Proof.
    intros [Hb Hr]. unfold bar_suspend. pose proof (get_bar_le B s b Hb) as Hg. unfold bar_le in Hg.
    destruct (b_target (get_bar s b)) as [|tg|idx].
    - destruct (emit_each fails (s_calls s) (map TLine ws)) as [e c']. cbn [fst].
      apply (cbound_mono B); [lia | split; assumption].
    - pose proof (term_draw_n_le' W H fails tg [] (s_calls s)) as Hle.
      destruct (term_draw W H fails tg [] (s_calls s)) as [[[tg1 e1] c1] ok1]. cbn [fst] in Hle.
      destruct (emit_each fails c1 (map TLine ws)) as [e2 c2].
      set (s1 := set_s_calls _ c2).
      assert (C1 : cbound (B + H) s1).
      { split; [|cbn; lia]. unfold s1. change (s_bars (set_s_calls ?x c2)) with (s_bars x).
        apply upd_target_le; [eapply Forall_mono_le; [|exact Hb]; lia | lia]. }
      pose proof (bar_draw_cb W H fails (B + H) s1 b true now C1) as C2.
      destruct (bar_draw W H fails s1 b true now) as [s2 e3]. cbn [fst] in *.
      eapply cbound_mono; [|exact C2]. lia.
    - pose proof (ms_suspend_rc W H fails (s_mp s) ws now (s_calls s)) as Hs.
      destruct (ms_suspend W H fails (s_mp s) ws now (s_calls s)) as [[m2 e] c']. cbn [fst] in *.
      split; [cbn; eapply Forall_mono_le; [|exact Hb]; lia | cbn; lia].
  Qed.

  Lemma set_target_cb B s b idx now : cbound B s ->
    cbound (B + H) (fst (bar_set_target W H fails s b (TMulti idx) now)).
  Proof.
    intros [Hb Hr]. unfold bar_set_target. destruct (b_target (get_bar s b)) as [|tg|idx0].
    - cbn [fst]. split; [apply upd_target_le; [eapply Forall_mono_le; [|exact Hb]; lia | exact I] | cbn; lia].
    - cbn [fst]. split; [apply upd_target_le; [eapply Forall_mono_le; [|exact Hb]; lia | exact I] | cbn; lia].
    - pose proof (ms_draw_rc W H fails (ms_store (s_mp s) idx0 [] []) true None now (s_calls s)) as Hd.
      destruct (ms_draw W H fails (ms_store (s_mp s) idx0 [] []) true None now (s_calls s)) as [[[m2 e] c'] ok].
      cbn [fst] in *. rewrite ms_store_rc in Hd.
      split; [apply upd_target_le; [cbn; eapply Forall_mono_le; [|exact Hb]; lia | exact I] | cbn; lia].
  Qed.

  Lemma insert_cb B s b (lo : option iloc) now : cbound B s ->
    cbound (B + 2 * H)
      (fst (fst (match match lo with Some l => ms_insert (s_mp s) l | None => None end with
                 | Some (m1, idx) =>
                     (fun r : sys * list termop => (fst r, snd r, true))
                       (bar_set_target W H fails (set_s_mp s m1) b (TMulti idx) now)
                 | None => (s, [], true)
                 end))).
  Proof.
    intros CB. pose proof CB as [Hb Hr].
    destruct (match lo with Some l => ms_insert (s_mp s) l | None => None end) as [[m1 idx]|] eqn:Eins;
      [|cbn [fst]; apply (cbound_mono B); [lia | exact CB]].
    assert (Erc : region_count m1 = region_count (s_mp s)).
    { destruct lo as [l|]; [apply (ms_insert_rc (s_mp s) l m1 idx Eins) | discriminate Eins]. }
    cbn [fst]. apply (cbound_mono (B + H)); [lia|]. apply set_target_cb.
    split; [exact Hb | cbn; lia].
  Qed.

  Lemma step_cb B s now o : cbound B s -> cbound (B + 2 * H) (step_sys W H fails s now o).
  Proof.
    intros CB. pose proof CB as [Hb Hr]. unfold step_sys.
    assert (Hup : forall b f force, keeps_target f ->
              cbound (B + 2 * H) (fst (bar_draw W H fails (upd_bar s b f) b force now))).
    { intros b f force Hf. eapply cbound_mono; [|apply (upd_draw_cb W H fails B); [exact Hf | exact CB]]. lia. }
    assert (Hpos : forall b f, cbound (B + 2 * H) (fst (bar_pos_update W H fails s b f now))).
    { intros b f. unfold bar_pos_update.
      destruct (ap_allow _ now) as [al ap']. destruct al.
      - unfold bar_tick. eapply cbound_mono; [|apply (upd_draw_cb W H fails B)]; [lia | intros x; reflexivity |].
        split; [|exact Hr]. apply upd_keep_le; [intros x; reflexivity|]. apply upd_keep_le; [intros x; reflexivity | exact Hb].
      - cbn [fst]. apply (cbound_mono B); [lia|]. split; [|exact Hr].
        apply upd_keep_le; [intros x; reflexivity|]. apply upd_keep_le; [intros x; reflexivity | exact Hb]. }
    destruct o; cbn [step fst snd];
      try (apply Hup; intros x; reflexivity); try apply Hpos;
      try (apply (cbound_mono B); [lia | exact CB]).
    - (* set_style *) apply (cbound_mono B); [lia|]. split; [apply upd_keep_le; [intros x; reflexivity | exact Hb] | exact Hr].
    - (* println *) eapply cbound_mono; [|apply bar_println_cb; exact CB]. lia.
    - (* suspend *) apply bar_suspend_cb; exact CB.
    - (* finish *) unfold bar_finish. apply (Hup b (finish_upd k) true). apply keeps_finish.
    - (* finish_using_style *) unfold bar_finish. apply (Hup b (finish_upd (b_on_finish (get_bar s b))) true). apply keeps_finish.
    - (* force_draw *) eapply cbound_mono; [|apply bar_draw_cb; exact CB]. lia.
    - (* set_tab_width *) eapply cbound_mono; [|apply bar_draw_cb; exact CB]. lia.
    - (* drop *)
      unfold bar_drop.
      assert (C1 : cbound (B + 2 * H) (fst (if finished (get_bar s b) then (s, [])
                                            else bar_finish W H fails s b (b_on_finish (get_bar s b)) now))).
      { destruct (finished (get_bar s b)); [cbn [fst]; apply (cbound_mono B); [lia | exact CB]|].
        unfold bar_finish. apply (Hup b (finish_upd (b_on_finish (get_bar s b))) true). apply keeps_finish. }
      destruct (if finished (get_bar s b) then (s, []) else bar_finish W H fails s b (b_on_finish (get_bar s b)) now) as [s1 e].
      cbn [fst] in *. destruct C1 as [Hb1 Hr1]. split.
      + apply upd_keep_le; [intros x; reflexivity|]. unfold mark_zombie. destruct (b_target (get_bar s1 b)); exact Hb1.
      + change (s_mp (upd_bar ?x b ?f)) with (s_mp x). unfold mark_zombie.
        destruct (b_target (get_bar s1 b)); try exact Hr1. cbn [s_mp set_s_mp]. rewrite (proj1 (mark_zombie_counts W (s_mp s1) idx)). exact Hr1.
    - (* insert *)
      destruct (b_target (get_bar s b)) as [|tg0|i0] eqn:Htb; [| |cbn [fst]; apply (cbound_mono B); [lia | exact CB]].
      + apply insert_cb; exact CB.
      + apply insert_cb; exact CB.
    - (* remove *)
      destruct (b_target (get_bar s b)) as [|tg0|idx] eqn:Htb; try (cbn [fst]; apply (cbound_mono B); [lia | exact CB]).
      cbn [s_mp upd_bar set_s_bars s_calls].
      pose proof (ms_draw_rc W H fails (ms_remove_idx (s_mp s) idx) true None now (s_calls s)) as Hd.
      destruct (ms_draw W H fails (ms_remove_idx (s_mp s) idx) true None now (s_calls s)) as [[[m2 e] c'] ok].
      cbn [fst] in *. rewrite ms_remove_rc in Hd. split; [|cbn; lia]. cbn.
      apply updN_Forall; [eapply Forall_mono_le; [|exact Hb]; lia|]. intros x _. exact I.
    - (* mp.println *)
      match goal with |- context [ms_draw W H fails (s_mp s) true (Some ?ls) now (s_calls s)] =>
        pose proof (ms_draw_rc W H fails (s_mp s) true (Some ls) now (s_calls s)) as Hd;
        destruct (ms_draw W H fails (s_mp s) true (Some ls) now (s_calls s)) as [[[m2 e] c'] ok] end.
      cbn [fst] in *. split; [cbn; eapply Forall_mono_le; [|exact Hb]; lia | cbn; lia].
    - (* mp.suspend *)
      pose proof (ms_suspend_rc W H fails (s_mp s) ws now (s_calls s)) as Hs.
      destruct (ms_suspend W H fails (s_mp s) ws now (s_calls s)) as [[m2 e] c']. cbn [fst] in *.
      split; [cbn; eapply Forall_mono_le; [|exact Hb]; lia | cbn; lia].
    - (* mp.clear *)
      pose proof (ms_clear_rc W H fails (s_mp s) (s_calls s)) as Hs.
      destruct (ms_clear W H fails (s_mp s) (s_calls s)) as [[[m2 e] c'] ok]. cbn [fst] in *.
      split; [cbn; eapply Forall_mono_le; [|exact Hb]; lia | cbn; lia].
  Qed.
End Growth2.

(* ------------------------------------------------------------------ fresh targets: no hypothesis on the counters *)
Section Fresh.
  Variable W H : N.
  Hypothesis HH : H < U16.

  Lemma run_cb fails ops : forall B s, cbound B s ->
    cbound (B + 2 * H * N.of_nat (length ops)) (run W H fails s ops).
  Proof.
    clear HH. induction ops as [|[now o] r IH]; intros B s CB; cbn [run length].
    - eapply cbound_mono; [|exact CB]. lia.
    - eapply cbound_mono; [|apply IH, (step_cb W H fails B s now o CB)]. lia.
  Qed.

  Lemma cbound_fits B s : cbound B s -> B + 2 * U16 <= USIZE -> counters_fit s.
  Proof.
    intros [Hb Hr] HB. split.
    - intros b tg Ht. pose proof (get_bar_le B s b Hb) as Hg. unfold bar_le in Hg. rewrite Ht in Hg. lia.
    - intros tg Ht. unfold region_count in Hr. rewrite Ht in Hr. cbn [target_n] in Hr. lia.
  Qed.

  Lemma counters_zero_cb s : counters_zero s -> cbound 0 s.
  Proof.
    clear HH. intros [Hb Hr]. split; [|unfold region_count; lia].
    eapply Forall_impl; [|exact Hb]. intros x. unfold bar_le. destruct (b_target x); auto. lia.
  Qed.

  Lemma calls_bound n : n < CALLS_MAX -> 2 * H * n + 2 * U16 <= USIZE.
  Proof. unfold CALLS_MAX, U16, USIZE, U64 in *. nia. Qed.


  Lemma hist_fits_of_cbound fails ops : forall B s, cbound B s ->
    B + 2 * H * N.of_nat (length ops) + 2 * U16 <= USIZE -> hist_fits W H fails s ops.
  Proof.
    induction ops as [|[now o] r IH]; intros B s CB HB; cbn [hist_fits length] in *; [exact I|].
    split; [apply (cbound_fits B); [exact CB | lia]|].
    apply (IH (B + 2 * H)); [apply step_cb; exact CB | lia].
  Qed.

  (** (1) without any hypothesis on the counters: targets created fresh, fewer than 2^46 calls *)
  Theorem no_panic_fresh fails fails' s0 ops now o :
    init_ok s0 -> counters_zero s0 -> hist_ok W H fails s0 ops -> N.of_nat (length ops) < CALLS_MAX ->
    op_ok (run W H fails s0 ops) o = true ->
    step_panics W H fails' (run W H fails s0 ops) now o = None.
  Proof.
    intros Hi Hz Hh Hn Hk. apply (no_panic_reachable W H HH fails fails' s0 ops now o); auto.
    apply (cbound_fits (0 + 2 * H * N.of_nat (length ops))).
    - apply run_cb, counters_zero_cb, Hz.
    - pose proof (calls_bound _ Hn). lia.
  Qed.

  (** (3) the same for whole histories under an arbitrary fault oracle *)
  Theorem run_no_panic_fresh fails s0 ops :
    init_ok s0 -> counters_zero s0 -> hist_ok W H fails s0 ops -> N.of_nat (length ops) < CALLS_MAX ->
    run_panics W H fails s0 ops = None.
  Proof.
    intros Hi Hz Hh Hn. apply (run_no_panic_init W H HH); auto.
    apply (hist_fits_of_cbound fails ops 0 s0); [apply counters_zero_cb, Hz|].
    pose proof (calls_bound _ Hn). lia.
  Qed.

  (** the counters of any run from fresh targets: at most 2 * H per call, under every oracle *)
  Theorem counters_grow fails s0 ops : counters_zero s0 ->
    let s := run W H fails s0 ops in
    (forall b tg, b_target (get_bar s b) = TTerm tg -> tt_n tg <= 2 * H * N.of_nat (length ops))
    /\ region_count (s_mp s) <= 2 * H * N.of_nat (length ops).
  Proof.
    clear HH. intros Hz. cbv zeta. destruct (run_cb fails ops 0 s0 (counters_zero_cb s0 Hz)) as [Hb Hr]. split.
    - intros b tg Ht. pose proof (get_bar_le _ _ b Hb) as Hg. unfold bar_le in Hg. rewrite Ht in Hg. lia.
    - lia.
  Qed.
End Fresh.

Lemma counters_zero_b_ok s : counters_zero_b s = true -> counters_zero s.
Proof.
  unfold counters_zero_b, counters_zero. intros Hb. apply andb_prop in Hb. destruct Hb as [Hbars Hmp]. split.
  - apply Forall_forall. intros x Hx. rewrite forallb_forall in Hbars. specialize (Hbars x Hx).
    destruct (b_target x); auto. apply N.eqb_eq. exact Hbars.
  - apply N.eqb_eq. exact Hmp.
Qed.


Lemma fresh_example : counters_zero np_sys /\ N.of_nat (length np_ops2) < CALLS_MAX.
Proof. split; [apply counters_zero_b_ok; vm_compute; reflexivity | vm_compute; reflexivity]. Qed.
