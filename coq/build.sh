#!/bin/sh
# Regenerates _CoqProject (file list by glob) and the coq_makefile Makefile, then builds
# the requested targets (default: everything) as full .vo files.  Serialised by a lock so that
# concurrent checks do not race on the Makefile.
set -e
cd "$(dirname "$0")"
mkdir -p ../.cache
exec 9>../.cache/coqbuild.lock
flock 9
{ cat _CoqProject.head; find gen model proofs props -name '*.v' | sort; } > _CoqProject.new
if ! cmp -s _CoqProject.new _CoqProject 2>/dev/null; then
  mv _CoqProject.new _CoqProject
  coq_makefile -f _CoqProject -o Makefile.coq >/dev/null 2>&1
else
  rm -f _CoqProject.new
  [ -f Makefile.coq ] || coq_makefile -f _CoqProject -o Makefile.coq >/dev/null 2>&1
fi
make -f Makefile.coq -j16 "$@"
