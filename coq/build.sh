#!/bin/sh
# Regenerates _CoqProject (file list by glob) and the coq_makefile Makefile, then builds
# the requested targets (default: everything) as full .vo files.
set -e
cd "$(dirname "$0")"
{ cat _CoqProject.head; find gen model proofs props -name '*.v' | sort; } > _CoqProject.new
if ! cmp -s _CoqProject.new _CoqProject 2>/dev/null; then
  mv _CoqProject.new _CoqProject
  coq_makefile -f _CoqProject -o Makefile.coq >/dev/null
else
  rm -f _CoqProject.new
  [ -f Makefile.coq ] || coq_makefile -f _CoqProject -o Makefile.coq >/dev/null
fi
exec make -f Makefile.coq -j16 "$@"
