//! A recording (and optionally failing) `TermLike`.

use indicatif::TermLike;
use std::io;
use std::sync::{Arc, Mutex};

#[derive(Clone, Debug, PartialEq, Eq)]
pub enum TOp {
    Up(usize),
    Down(usize),
    Left(usize),
    Right(usize),
    Line(String),
    Str(String),
    Clear,
    Flush,
}

#[derive(Debug)]
pub struct SpyState {
    pub width: u16,
    pub height: u16,
    pub ops: Vec<TOp>,
    /// number of fallible terminal calls made so far
    pub calls: u64,
    /// calls with index in this set fail (0-based); `fail_from`: all calls >= it fail
    pub fail_at: Vec<u64>,
    pub fail_from: Option<u64>,
    pub failures_injected: u64,
    /// the io::ErrorKind of the injected failures (the crate must treat every kind alike)
    pub fail_kind: io::ErrorKind,
    /// every flush() fails (on top of fail_at / fail_from)
    pub fail_flush: bool,
    /// the call numbers at which a failure was injected (replaying them as `fail_at` reproduces the run)
    pub injected_at: Vec<u64>,
    pub width_queries: u64,
    pub height_queries: u64,
}

#[derive(Clone, Debug)]
pub struct Spy(pub Arc<Mutex<SpyState>>);

/// the error kinds the failing terminal rotates through
pub const FAIL_KINDS: [io::ErrorKind; 6] = [
    io::ErrorKind::Interrupted,
    io::ErrorKind::WouldBlock,
    io::ErrorKind::BrokenPipe,
    io::ErrorKind::Other,
    io::ErrorKind::TimedOut,
    io::ErrorKind::UnexpectedEof,
];

impl Spy {
    pub fn new(width: u16, height: u16) -> Self {
        Spy(Arc::new(Mutex::new(SpyState {
            width,
            height,
            ops: vec![],
            calls: 0,
            fail_at: vec![],
            fail_from: None,
            failures_injected: 0,
            fail_kind: io::ErrorKind::Other,
            fail_flush: false,
            injected_at: vec![],
            width_queries: 0,
            height_queries: 0,
        })))
    }
    pub fn take(&self) -> Vec<TOp> {
        std::mem::take(&mut self.0.lock().unwrap().ops)
    }
    pub fn calls(&self) -> u64 {
        self.0.lock().unwrap().calls
    }
    pub fn set_size(&self, w: u16, h: u16) {
        let mut s = self.0.lock().unwrap();
        s.width = w;
        s.height = h;
    }
    fn op(&self, op: TOp) -> io::Result<()> {
        let mut s = self.0.lock().unwrap();
        let k = s.calls;
        s.calls += 1;
        if s.fail_at.contains(&k) || s.fail_from.map_or(false, |f| k >= f) || (s.fail_flush && op == TOp::Flush) {
            s.failures_injected += 1;
            s.injected_at.push(k);
            return Err(io::Error::new(s.fail_kind, "injected"));
        }
        s.ops.push(op);
        Ok(())
    }
}

impl TermLike for Spy {
    fn width(&self) -> u16 {
        let mut s = self.0.lock().unwrap();
        s.width_queries += 1;
        s.width
    }
    fn height(&self) -> u16 {
        let mut s = self.0.lock().unwrap();
        s.height_queries += 1;
        s.height
    }
    fn move_cursor_up(&self, n: usize) -> io::Result<()> {
        self.op(TOp::Up(n))
    }
    fn move_cursor_down(&self, n: usize) -> io::Result<()> {
        self.op(TOp::Down(n))
    }
    fn move_cursor_right(&self, n: usize) -> io::Result<()> {
        self.op(TOp::Right(n))
    }
    fn move_cursor_left(&self, n: usize) -> io::Result<()> {
        self.op(TOp::Left(n))
    }
    fn write_line(&self, s: &str) -> io::Result<()> {
        self.op(TOp::Line(s.to_string()))
    }
    fn write_str(&self, s: &str) -> io::Result<()> {
        self.op(TOp::Str(s.to_string()))
    }
    fn clear_line(&self) -> io::Result<()> {
        self.op(TOp::Clear)
    }
    fn flush(&self) -> io::Result<()> {
        self.op(TOp::Flush)
    }
}
