//! Direct oracle for the drawing properties (C01-C04, C19): an abstract, string-level statement of
//! what the terminal must show, evaluated on a vt100 screen fed with the calls the implementation
//! made.  Independent of the Coq model: it knows nothing about last_line_count, zombie counters,
//! cursor movements - only the log, the logical list of bars and what each bar looks like.
//!
//!   screen  =  log rows  ++  [blank rows, bottom alignment only]  ++  items in logical order
//!
//! where an item is a live member (one of the renderings it had since it was last seen on screen),
//! or the final rendering of a visibly finished bar that was dropped.  Dropped bars must stay
//! until a println / clear / suspend / remove intervenes (then they may vanish, never reappear).

use crate::spy::TOp;
use crate::sysrun::*;

/// oracle modes for the rejected prototype patches P2/P3 of /repo (docs/C19.md): off
const ORACLE_P2: bool = false;
const ORACLE_P3: bool = false;

const WILD: char = '\u{1}';

/// independent rendering of the template family from the public getters; None = nothing shown
pub fn render_expected(t: &[TPart], g: &Getters) -> Vec<String> {
    let mut lines = vec![];
    let mut cur = String::new();
    let push = |cur: &mut String, lines: &mut Vec<String>| {
        for piece in std::mem::take(cur).split('\n') {
            lines.push(piece.to_string());
        }
    };
    for p in t {
        match p {
            TPart::Lit(l) => cur.push_str(l),
            TPart::Msg => cur.push_str(&g.msg),
            TPart::Prefix => cur.push_str(&g.prefix),
            TPart::Pos => cur.push_str(&g.pos.to_string()),
            TPart::Len => cur.push_str(&g.len.unwrap_or(g.pos).to_string()),
            TPart::Spinner => cur.push(WILD),
            TPart::NewLine => push(&mut cur, &mut lines),
        }
    }
    if !cur.is_empty() {
        push(&mut cur, &mut lines);
    }
    lines
}

fn rows_of(lines: &[String], w: usize) -> Vec<String> {
    lines.iter().flat_map(|l| wrap_rows(l, w)).collect()
}

fn row_eq(got: &str, want: &str) -> bool {
    let (a, b): (Vec<char>, Vec<char>) = (got.chars().collect(), want.chars().collect());
    // both right-trimmed; a wildcard in `want` may stand for a space that was trimmed in `got`
    let n = a.len().max(b.len());
    (0..n).all(|i| {
        let x = a.get(i).copied().unwrap_or(' ');
        let y = b.get(i).copied().unwrap_or(' ');
        y == WILD || x == y
    })
}

#[derive(Clone, Debug, PartialEq)]
enum Place {
    None,       // hidden target / not attached
    Standalone, // own terminal target
    Member,     // in the MultiProgress
}

#[derive(Clone, Debug, PartialEq)]
enum ItemState {
    Live,
    Zombie,    // dropped, still in the ordering
    Kept,      // dropped and reaped: static text
    Vanishing, // reaped during a println draw: shown in that frame, gone at the next one
}

#[derive(Clone, Debug)]
struct Item {
    bar: usize,
    state: ItemState,
    /// renderings (as rows) this item may show; for live bars: the window of states since last seen
    cands: Vec<Vec<String>>,
    /// may legitimately have vanished (an intervention happened after it was dropped)
    optional: bool,
    /// number of this item's lines that were painted in the last painted frame of the MultiProgress
    /// when that frame was cut at the terminal height (None = all of them)
    painted: Option<usize>,
    /// reaped (made static) while bottom alignment was on and the last painted frame had padding
    /// rows: the situation of the open finding D22
    d22: bool,
}

#[derive(Clone)]
pub struct Oracle {
    w: usize,
    h: usize,
    log: Vec<String>,
    display: Vec<Item>,
    tmpl: Vec<Vec<TPart>>,
    place: Vec<Place>,
    hidden_status: Vec<bool>, // finished-and-cleared
    fin: Vec<Fin>,
    last_g: Vec<Option<Getters>>,
    init_len: Vec<Option<u64>>,
    bottom_ever: bool,
    mp_visible: bool,
    vt: Vt,
    pub all_ops: Vec<TOp>,
    pub checks: u64,
    pub unfit: bool,
    pub max_rows_painted: usize,
    /// a println/clear/suspend happened while no live bar line was on screen but kept rows were
    empty_region_intervention: bool,
    /// the region was wiped by clear() and not repainted since
    wiped: bool,
    clear_then_drop: bool,
    pub vt_broken: bool,
    /// text lines were drawn in a draw in which not even the first bar line fitted the height (D14)
    text_without_bar: bool,
    /// Known findings are predicates on the FAILING OBSERVATION: when a screen check fails, the same
    /// check is evaluated on the screen that the history would have produced WITHOUT the known defect;
    /// the failure gets the finding's class iff that check passes (the defect explains exactly this
    /// mismatch), otherwise it keeps its own class.
    /// D14 ('height-cut-leaves-cursor-mid-row'): `vt_fixed` is fed the same calls as `vt`, plus the
    /// right-edge filler that a draw cut by the height `break` before its last line does not write
    /// (detected as: a draw that painted something ends left of the right edge while the frame is
    /// taller than the terminal - an uncut draw always ends with the filler).
    vt_fixed: Vt,
    cut_injected: bool,
    /// 'empty-line-after-text-only-draw-swallowed' (open finding, C01/C03; Coq:
    /// C01_empty_line_swallowed_refuted): the FIRST line written by a suspend closure is empty while
    /// the cursor is wrap-pending at the right edge (left there by a draw whose last painted line was
    /// a text line: nothing to erase) - the line only resolves the pending wrap.  `vt_swallow` gets
    /// the row the property demands (one more write_line("")); `vt_both` gets this and the D14 repairs.
    /// 'bottom-empty-frame-at-full-height-scrolls' (D26, C19, fixed by 881c313): under bottom
    /// alignment an EMPTY frame painted while last_line_count = H pads H rows with write_line: the
    /// last one scrolls the terminal, one blank row goes into the scroll-back (every time).  Seen as:
    /// a draw that clears H rows and then writes exactly H empty lines and nothing else.  A failure
    /// gets this class iff the same check passes when BLANK rows are disregarded on both sides.
    bottom_full_height_empty: bool,
    vt_swallow: Vt,
    swallow_injected: bool,
    both_swallow_injected: bool,
    vt_both: Vt,
    last_injected: &'static str,
    /// D22 ('bottom-alignment-kept-rows-misplaced', property C04 only): under bottom alignment with
    /// padding rows the rows kept for a reaped finished bar are the padding rows, the bar's own rows
    /// are erased by the next draw; the repaired expectation = kept rows may be missing (blank).
    /// bottom alignment is selected now / the LAST painted frame of the MultiProgress had padding rows
    bottom_now: bool,
    /// the alignment the draw target really uses: set_alignment takes effect at the next ordinary
    /// draw of the MultiProgress (clear() and the clear of suspend still use the previous one)
    bottom_eff: bool,
    last_frame_padded: bool,
    /// alternative evaluation for D22: only the rows of bars reaped in the D22 situation are relaxed
    relax_d22: bool,
    /// false (set by the C02/C03 checks): the rows of visibly finished, dropped bars "may instead
    /// remain" - their absence is not a failure of those properties
    pub kept_rows_checked: bool,
    /// a println/clear/suspend had to erase kept rows + live rows taller than the terminal (D28)
    kept_out_of_reach: bool,
    /// a finished bar was dropped while the frame was taller than the terminal (D17)
    oversized_reap: bool,
    /// newest unwrapped lines per bar (for frames taller than the terminal)
    last_lines: Vec<Vec<String>>,
    /// static rows in physical order: the printed log rows and the rows of finished bars that had
    /// scrolled out of the visible screen when a println/clear/suspend went to erase them
    transcript: Vec<String>,
    /// which transcript rows are rows of finished, dropped bars (frozen when they went out of reach)
    transcript_kept: Vec<u8>, // 0 = log row, 1 = kept row, 2 = kept row of a bar reaped in the D22 situation
    /// BLANK rows may precede this static row: it is the first row a suspend closure wrote under bottom
    /// alignment (fix 96a75c4 leaves the padding of the cleared region above the closure's output)
    transcript_gap: Vec<bool>,
    gap_pending: bool,
    /// rows scrolled off the top of the terminal so far (derived from the expected extents)
    top: usize,
    pub frozen_rows: usize,
    /// Drop(b): the bar is marked after its final draw has been checked
    pending_drop: Option<(usize, bool)>,
    /// the last painted frame of the MultiProgress was cut at the terminal height
    last_cut: bool,
    /// a dropped bar behind the cut of a frame taller than the terminal was reaped
    reap_cut: Option<String>,
}

pub struct Violation {
    pub class: String,
    pub detail: String,
}

impl Oracle {
    pub fn new(case: &Case) -> Self {
        let nb = case.bars.len();
        let mut o = Oracle {
            w: case.w as usize,
            h: case.h as usize,
            log: vec![],
            display: vec![],
            tmpl: case.bars.iter().map(|b| b.tmpl.clone()).collect(),
            place: case
                .bars
                .iter()
                .map(|b| if matches!(b.target, TInit::Term(_)) { Place::Standalone } else { Place::None })
                .collect(),
            hidden_status: vec![false; nb],
            fin: case.bars.iter().map(|b| b.fin.clone()).collect(),
            last_g: vec![None; nb],
            init_len: case.bars.iter().map(|b| b.len).collect(),
            bottom_ever: false,
            mp_visible: matches!(case.mp, TInit::Term(_)),
            vt: Vt::new(case.w, case.h),
            all_ops: vec![],
            checks: 0,
            unfit: false,
            max_rows_painted: 0,
            empty_region_intervention: false,
            wiped: false,
            clear_then_drop: false,
            vt_broken: false,
            text_without_bar: false,
            vt_fixed: Vt::new(case.w, case.h),
            cut_injected: false,
            bottom_full_height_empty: false,
            vt_swallow: Vt::new(case.w, case.h),
            swallow_injected: false,
            both_swallow_injected: false,
            vt_both: Vt::new(case.w, case.h),
            last_injected: "",
            bottom_now: false,
            bottom_eff: false,
            last_frame_padded: false,
            relax_d22: false,
            kept_rows_checked: true,
            kept_out_of_reach: false,
            oversized_reap: false,
            last_lines: vec![vec![]; nb],
            transcript: vec![],
            transcript_kept: vec![],
            transcript_gap: vec![],
            gap_pending: false,
            top: 0,
            frozen_rows: 0,
            pending_drop: None,
            last_cut: false,
            reap_cut: None,
        };
        for (i, b) in case.bars.iter().enumerate() {
            if matches!(b.target, TInit::Term(_)) {
                o.display.push(Item {
                    bar: i,
                    state: ItemState::Live,
                    cands: vec![vec![]],
                    optional: false,
                    painted: None,
                    d22: false,
                });
            }
        }
        o
    }

    /// the same observation and expectation with every BLANK row removed
    fn drop_blank_rows(&mut self) {
        self.vt.rows.retain(|r| r.iter().any(|c| *c != ' '));
        self.vt.r = self.vt.rows.len();
        self.vt.c = 0;
        self.log.retain(|l| !l.trim_end().is_empty());
        {
            let keep: Vec<bool> = self.transcript.iter().map(|l| !l.is_empty()).collect();
            let mut it = keep.iter();
            self.transcript.retain(|_| *it.next().unwrap());
            let mut it = keep.iter();
            self.transcript_kept.retain(|_| *it.next().unwrap());
            let mut it = keep.iter();
            self.transcript_gap.retain(|_| *it.next().unwrap());
        }
        for it in self.display.iter_mut() {
            for c in it.cands.iter_mut() {
                c.retain(|r| !r.is_empty());
            }
        }
        for ls in self.last_lines.iter_mut() {
            ls.retain(|l| !l.trim_end().is_empty());
        }
    }

    fn cur_getters(&self, b: usize) -> Getters {
        self.last_g[b].clone().unwrap_or(Getters {
            pos: 0,
            len: self.init_len[b],
            finished: false,
            msg: String::new(),
            prefix: String::new(),
        })
    }

    fn rendering(&self, b: usize, g: &Getters) -> Vec<String> {
        if self.hidden_status[b] {
            vec![]
        } else {
            rows_of(&render_expected(&self.tmpl[b], g), self.w)
        }
    }

    fn item_mut(&mut self, b: usize) -> Option<&mut Item> {
        self.display.iter_mut().find(|i| i.bar == b && i.state == ItemState::Live)
    }

    fn visible(&self, b: usize) -> bool {
        match self.place[b] {
            Place::Standalone => true,
            Place::Member => self.mp_visible,
            Place::None => false,
        }
    }

    /// number of items in the MultiProgress' own list (not yet reaped)
    fn ordering_positions(&self) -> Vec<usize> {
        self.display
            .iter()
            .enumerate()
            .filter(|(_, i)| matches!(i.state, ItemState::Live | ItemState::Zombie))
            .filter(|(_, i)| self.place[i.bar] == Place::Member || i.state == ItemState::Zombie)
            .map(|(k, _)| k)
            .collect()
    }

    /// an intervention (println / clear / suspend): kept rows are erased; zombies at the head of the
    /// ordering are drawn once more and then vanish
    fn intervene(&mut self, vanish: bool) {
        let kept_rows = self.display.iter().any(|i| i.state == ItemState::Kept && i.cands.iter().any(|c| !c.is_empty()));
        let live_empty = self
            .display
            .iter()
            .filter(|i| i.state != ItemState::Kept)
            .all(|i| i.cands.first().map_or(true, |c| c.is_empty()));
        if kept_rows && live_empty {
            self.empty_region_intervention = true;
        }
        let kept_n: usize = self
            .display
            .iter()
            .filter(|i| i.state == ItemState::Kept)
            .map(|i| i.cands.last().map_or(0, |c| c.len()))
            .sum();
        let live_n: usize = self
            .display
            .iter()
            .filter(|i| i.state != ItemState::Kept)
            .map(|i| i.cands.iter().map(|c| c.len()).max().unwrap_or(0))
            .sum();
        if kept_n > 0 && kept_n + live_n.min(self.h) > self.h {
            self.kept_out_of_reach = true;
        }
        // first live line taller than the terminal: a println paints text and no bar line
        let first_line_rows = self
            .display
            .iter()
            .filter(|i| i.state != ItemState::Kept)
            .flat_map(|i| self.last_lines[i.bar].iter())
            .next()
            .map(|l| wrap_rows(l, self.w).len());
        if first_line_rows.map_or(false, |r| r > self.h) {
            self.text_without_bar = true;
        }
        // kept rows that have scrolled off the visible screen cannot be erased any more: they stay
        // where they are, above whatever is printed next
        let kept_rows: Vec<(String, u8)> = self
            .display
            .iter()
            .filter(|i| i.state == ItemState::Kept)
            .flat_map(|i| {
                let f = if i.d22 { 2u8 } else { 1u8 };
                i.cands.last().cloned().unwrap_or_default().into_iter().map(move |r| (r, f))
            })
            .collect();
        let out = if self.bottom_ever {
            // under bottom alignment blank padding rows sit between the static rows: locate the kept
            // rows on the reference terminal (they end `live` rows above the last row of the region)
            let (r, c) = self.vt.cursor();
            let last = if c == 0 && r > 0 { r - 1 } else { r };
            let live: usize = self
                .display
                .iter()
                .filter(|i| i.state != ItemState::Kept)
                .map(|i| match i.painted {
                    // a frame cut at the height: only the painted lines of the item are on the screen
                    Some(k) => self.last_lines[i.bar].iter().take(k).map(|l| wrap_rows(l, self.w).len()).sum(),
                    None => i.cands.last().map_or(0, |c| c.len()),
                })
                .sum();
            // where the kept rows really are: the lowest place above the live rows where they stand on
            // the reference terminal (padding rows may sit between them and the live rows); if they
            // cannot be found (D22: padding was kept in their place) assume they end right above the
            // live rows
            let all = self.vt.rows();
            let k = kept_rows.len();
            let upper = (last + 1).saturating_sub(live); // kept rows end at or above this row
            // match the kept rows bottom-up from the row above the live rows; blank rows (padding under
            // bottom alignment) may sit between them
            let found = {
                let mut i = upper;
                let mut ok = true;
                for j in (0..k).rev() {
                    loop {
                        if i == 0 {
                            ok = false;
                            break;
                        }
                        i -= 1;
                        let row = all.get(i).map(|x| x.as_str()).unwrap_or("");
                        if row_eq(row, &kept_rows[j].0) {
                            break;
                        }
                        if !row.is_empty() {
                            ok = false;
                            break;
                        }
                    }
                    if !ok {
                        break;
                    }
                }
                if ok {
                    Some(i)
                } else {
                    None
                }
            };
            let first_kept = match found {
                Some(p) if k > 0 && kept_rows.iter().any(|r| !r.0.is_empty()) => p,
                _ => upper.saturating_sub(k),
            };
            self.vt.top.saturating_sub(first_kept).min(k)
        } else {
            self.top.saturating_sub(self.transcript.len()).min(kept_rows.len())
        };
        self.frozen_rows += out;
        self.transcript.extend(kept_rows[..out].iter().map(|x| x.0.clone()));
        self.transcript_kept.extend(kept_rows[..out].iter().map(|x| x.1));
        self.transcript_gap.extend(std::iter::repeat(false).take(out));
        self.display.retain(|i| i.state != ItemState::Kept);
        let p2 = ORACLE_P2;
        let (w, h) = (self.w, self.h);
        let mut head = true;
        let mut before = 0usize;
        for i in self.display.iter_mut() {
            if head && i.state == ItemState::Zombie && vanish {
                let r: usize = self.last_lines[i.bar].iter().map(|l| wrap_rows(l, w).len()).sum();
                if p2 && before > 0 && before + r > h {
                    // behind the cut of this println frame: stays in the list (candidate patch P2)
                    head = false;
                } else {
                    i.state = ItemState::Vanishing;
                    before += r;
                }
            } else if i.state != ItemState::Vanishing {
                head = false;
            }
            if matches!(i.state, ItemState::Zombie | ItemState::Vanishing) {
                i.optional = true;
            }
        }
    }

    fn push_log(&mut self, lines: Vec<String>) {
        self.push_log_gap(lines, false)
    }

    /// a suspend of the MultiProgress under bottom alignment: the padding of the cleared region stays
    /// on the screen (fix 96a75c4), above whatever static row is written next
    fn suspend_gap(&mut self) {
        if self.bottom_eff {
            self.gap_pending = true;
        }
    }

    /// `closure`: the lines are written by the closure of a suspend of the MultiProgress
    fn push_log_gap(&mut self, lines: Vec<String>, closure: bool) {
        {
            let rs = rows_of(&lines, self.w);
            self.transcript_kept.extend(std::iter::repeat(0u8).take(rs.len()));
            let _ = closure;
            for k in 0..rs.len() {
                // blank rows may precede the first NON-BLANK row of this push (its leading blank rows
                // cannot be told apart from the padding)
                let g = self.gap_pending && rs[..k].iter().all(|r| r.is_empty());
                self.transcript_gap.push(g);
            }
            if rs.iter().any(|r| !r.is_empty()) {
                self.gap_pending = false;
            }
            self.transcript.extend(rs);
        }
        self.log.extend(lines);
    }

    fn kept_relaxed(&self, d22: bool) -> bool {
        !self.kept_rows_checked || (self.relax_d22 && d22)
    }

    /// a painted draw of the MultiProgress reaps the zombies at the head of its list; what stays on
    /// the screen of each is what that draw painted of it (the frame may have been cut at the height)
    fn reap_after_paint(&mut self) -> usize {
        let w = self.w;
        let mut reaped = 0usize;
        // VERIF_ORACLE_P2=1: the implementation keeps a dropped bar that is behind the cut of a frame
        // taller than the terminal in its list (candidate patch P2); otherwise reaping it is reported
        let p2 = ORACLE_P2;
        let d22_now = self.bottom_now && self.last_frame_padded;
        let mut head = true;
        // rows of this frame painted in front of the item
        let mut before = 0usize;
        for idx in 0..self.display.len() {
            let rows_of_item = |it: &Item, last_lines: &Vec<Vec<String>>| -> (Vec<String>, Vec<String>) {
                let lines = &last_lines[it.bar];
                let k = it.painted.unwrap_or(lines.len()).min(lines.len());
                (
                    lines[..k].iter().flat_map(|l| wrap_rows(l, w)).collect(),
                    lines.iter().flat_map(|l| wrap_rows(l, w)).collect(),
                )
            };
            match self.display[idx].state {
                ItemState::Kept => {}
                ItemState::Zombie if head => {
                    let (cut, full) = rows_of_item(&self.display[idx], &self.last_lines);
                    let it = &mut self.display[idx];
                    if it.painted.is_some() {
                        if before > 0 {
                            if p2 {
                                head = false;
                                continue;
                            }
                            self.reap_cut = Some(format!(
                                "finished bar #{} was taken off the list by a draw that painted only {:?} of its final frame {:?} (the frame was cut at the {} rows of the terminal): the rest is never shown",
                                it.bar, cut, full, self.h
                            ));
                        }
                        it.cands = vec![cut.clone()];
                    }
                    it.state = ItemState::Kept;
                    it.d22 = d22_now;
                    reaped += 1;
                    before += full.len();
                }
                _ => {
                    if self.display[idx].state != ItemState::Vanishing || p2 {
                        head = false;
                    }
                    let (_, full) = rows_of_item(&self.display[idx], &self.last_lines);
                    before += full.len();
                }
            }
        }
        reaped
    }

    /// Drop(b) after its final draw: head bars become static text (what was painted of them), others
    /// stay in the ordering until the bars before them are gone
    fn finish_drop(&mut self, b: usize, painted: bool) -> bool {
        let was_member = self.place[b] == Place::Member;
        if painted && was_member {
            // the final draw comes first, the dropped bar is marked afterwards
            let _ = self.reap_after_paint();
        }
        let all_before_kept = {
            let idx = self.display.iter().position(|i| i.bar == b && i.state == ItemState::Live);
            idx.map_or(true, |k| {
                self.display[..k]
                    .iter()
                    .all(|i| matches!(i.state, ItemState::Kept | ItemState::Vanishing))
            })
        };
        if was_member && all_before_kept && self.wiped && !painted {
            self.clear_then_drop = true;
        }
        let w = self.w;
        let d22_now = was_member && self.bottom_now && self.last_frame_padded;
        let wiped_now = self.wiped;
        let lines = self.last_lines[b].clone();
        let mut released = false;
        if let Some(it) = self.item_mut(b) {
            let kept = !was_member || all_before_kept;
            released = kept && was_member;
            it.state = if kept { ItemState::Kept } else { ItemState::Zombie };
            if kept {
                it.d22 = d22_now;
                if let Some(k) = it.painted {
                    let k = k.min(lines.len());
                    it.cands = vec![lines[..k].iter().flat_map(|l| wrap_rows(l, w)).collect()];
                }
                if was_member && wiped_now && !painted {
                    // MultiProgress::clear wiped the region and nothing was drawn since: no row of
                    // the bar is on the screen, so none stays (same as on a tall terminal, where the
                    // empty rendering is among the candidates)
                    it.cands = vec![vec![]];
                }
            }
        }
        self.place[b] = Place::None;
        released
    }

    /// VERIF_ORACLE_P3=1 (candidate patch P3): a draw of the MultiProgress that releases finished bars
    /// from a frame that was cut at the terminal height is repeated for the remaining bars, and so
    /// is the release of the head bar by its drop.  Every frame (Flush) of the op is checked.
    fn frames_p3(&mut self, op: &Op, chunks: &[Vec<TOp>], idx: &mut usize, mut text: bool) -> Option<Violation> {
        loop {
            let res = self.check_screen(op, false);
            if res.is_some() {
                return res;
            }
            let reaped = self.reap_after_paint();
            // vanishing items of a println frame are gone with the repeated frame
            let again = reaped > 0 && !text && self.last_cut && !self.ordering_positions().is_empty();
            if !again {
                return None;
            }
            if *idx >= chunks.len() {
                return Some(Violation {
                    class: "redraw-after-release-missing".into(),
                    detail: format!("after {:?}: finished bars were released from a cut frame, the remaining bars were not drawn again", op),
                });
            }
            let vt = &mut self.vt;
            let c = &chunks[*idx];
            if crate::catch(|| vt.feed(c)).is_err() {
                self.vt_broken = true;
                return None;
            }
            *idx += 1;
            text = false;
        }
    }

    fn step_frames_p3(&mut self, op: &Op, o: &StepObs, must_paint: Option<&'static str>, painted: bool) -> Option<Violation> {
        let mut chunks: Vec<Vec<TOp>> = vec![vec![]];
        for t in &o.emitted {
            chunks.last_mut().unwrap().push(t.clone());
            if *t == TOp::Flush {
                chunks.push(vec![]);
            }
        }
        if chunks.last().map_or(false, |c| c.is_empty()) {
            chunks.pop();
        }
        self.all_ops.extend(o.emitted.iter().cloned());
        if let Some(what) = must_paint {
            if !painted {
                return Some(Violation {
                    class: "forced-draw-not-painted".into(),
                    detail: format!("{what} ({:?}) did not paint a frame", op),
                });
            }
        }
        let drop_bar = if let Op::Drop(b) = op { Some(*b) } else { None };
        let own_draw = if drop_bar.is_some() { must_paint.is_some() } else { painted };
        // suspend: the first frame is the clear
        let pre = if matches!(op, Op::Suspend(..) | Op::MSuspend(_)) { 1 } else { 0 };
        let mut idx = 0usize;
        let mut res = None;
        if own_draw {
            while idx <= pre && idx < chunks.len() {
                let vt = &mut self.vt;
                let c = &chunks[idx];
                if crate::catch(|| vt.feed(c)).is_err() {
                    self.vt_broken = true;
                    return None;
                }
                idx += 1;
            }
            self.wiped = matches!(op, Op::MClear);
            if matches!(op, Op::MClear) {
                res = self.check_screen(op, true);
            } else {
                let text = matches!(op, Op::Println(..) | Op::MPrintln(_));
                res = self.frames_p3(op, &chunks, &mut idx, text);
            }
        }
        if let (Some(b), true) = (drop_bar, res.is_none()) {
            self.pending_drop = None;
            let cut_before = self.last_cut;
            let released = self.finish_drop(b, false);
            if released && cut_before && !self.ordering_positions().is_empty() {
                if idx >= chunks.len() {
                    return Some(Violation {
                        class: "redraw-after-release-missing".into(),
                        detail: format!("after {:?}: the head bar was released from a cut frame, the remaining bars were not drawn again", op),
                    });
                }
                let vt = &mut self.vt;
                let c = &chunks[idx];
                if crate::catch(|| vt.feed(c)).is_err() {
                    self.vt_broken = true;
                    return None;
                }
                idx += 1;
                res = self.frames_p3(op, &chunks, &mut idx, false);
            }
        }
        if res.is_none() && idx < chunks.len() && !self.vt_broken {
            return Some(Violation {
                class: "unexpected-extra-frame".into(),
                detail: format!("after {:?}: {} frames were painted, {} expected", op, chunks.len(), idx),
            });
        }
        res
    }

    /// Processes one executed op. Returns a violation if the property fails at this step.
    pub fn step(&mut self, op: &Op, o: &StepObs) -> Option<Violation> {
        let r = self.step_inner(op, o);
        if let Some((b, painted)) = self.pending_drop.take() {
            let _ = self.finish_drop(b, painted);
        }
        let cut = self.reap_cut.take();
        if r.is_none() {
            if let Some(d) = cut {
                return Some(Violation {
                    class: "finished-bar-reaped-behind-the-cut".into(),
                    detail: format!("after {:?}: {d}", op),
                });
            }
        }
        r
    }

    fn step_inner(&mut self, op: &Op, o: &StepObs) -> Option<Violation> {
        if let Some(p) = &o.panic {
            return Some(Violation {
                class: "panic".into(),
                detail: p.clone(),
            });
        }
        let painted = o.emitted.iter().any(|x| *x == TOp::Flush);
        let prev_finished: Vec<bool> = self.last_g.iter().map(|g| g.as_ref().map_or(false, |g| g.finished)).collect();
        // vanishing items disappear with the next painted draw
        if painted {
            self.display.retain(|i| i.state != ItemState::Vanishing);
        }
        let mut must_paint: Option<&'static str> = None;
        let mut mp_level_paint = false;
        match op {
            Op::SetStyle(b, t) => self.tmpl[*b] = t.clone(),
            Op::Println(b, m) => {
                if self.visible(*b) {
                    if self.place[*b] == Place::Member {
                        self.intervene(true);
                        mp_level_paint = true;
                    }
                    let ls: Vec<&str> = m.lines().collect();
                    if ls.is_empty() {
                        self.push_log(vec![String::new()])
                    } else {
                        self.push_log(ls.iter().map(|s| s.to_string()).collect())
                    }
                    must_paint = Some("println");
                }
            }
            Op::MPrintln(m) => {
                if self.mp_visible {
                    self.intervene(true);
                    if m.is_empty() {
                        self.push_log(vec![String::new()])
                    } else {
                        self.push_log(m.lines().map(|s| s.to_string()).collect())
                    }
                    mp_level_paint = true;
                    must_paint = Some("mp.println");
                }
            }
            Op::Suspend(b, ws) => {
                let multi = self.place[*b] == Place::Member && self.mp_visible;
                if multi {
                    self.intervene(false);
                    mp_level_paint = true;
                    self.suspend_gap();
                }
                self.push_log_gap(ws.clone(), multi);
                if !ws.is_empty() {
                    // every line the closure writes ends with a line feed
                    self.top = self.top.max((self.transcript.len() + 1).saturating_sub(self.h));
                }
                if self.visible(*b) {
                    must_paint = Some("suspend");
                }
            }
            Op::MSuspend(ws) => {
                if self.mp_visible {
                    self.intervene(false);
                    mp_level_paint = true;
                    must_paint = Some("mp.suspend");
                }
                if self.mp_visible {
                    self.suspend_gap();
                }
                self.push_log_gap(ws.clone(), self.mp_visible);
                if !ws.is_empty() {
                    self.top = self.top.max((self.transcript.len() + 1).saturating_sub(self.h));
                }
            }
            Op::MClear => {
                if self.mp_visible {
                    self.intervene(false);
                    must_paint = Some("mp.clear");
                }
            }
            Op::SetAlign(b) => {
                self.bottom_now = *b;
                if *b {
                    self.bottom_ever = true
                }
            }
            Op::Finish(b, f) => {
                self.hidden_status[*b] = matches!(f, Fin::AndClear);
                if self.visible(*b) {
                    must_paint = Some("finish");
                }
            }
            Op::FinishUsingStyle(b) => {
                self.hidden_status[*b] = matches!(self.fin[*b], Fin::AndClear);
                if self.visible(*b) {
                    must_paint = Some("finish_using_style");
                }
            }
            Op::Reset(b) => self.hidden_status[*b] = false,
            Op::ForceDraw(b) | Op::SetTabWidth(b) => {
                if self.visible(*b) {
                    must_paint = Some("forced draw");
                }
            }
            Op::Remove(b) => {
                if self.place[*b] == Place::Member {
                    self.display.retain(|i| !(i.bar == *b && i.state == ItemState::Live));
                    self.place[*b] = Place::None;
                    // dropped bars may vanish after a remove
                    for i in self.display.iter_mut() {
                        if i.state != ItemState::Live {
                            i.optional = true;
                        }
                    }
                    if self.mp_visible {
                        must_paint = Some("remove");
                        mp_level_paint = true;
                    }
                }
            }
            // adding / inserting a bar that is a member already has no effect (doc comments of
            // MultiProgress::add/insert*; fix bee77c9): nothing moves, nothing is painted
            Op::Insert(_, b) if self.place[*b] == Place::Member => {}
            Op::Insert(loc, b) => {
                if self.place[*b] == Place::Standalone {
                    self.display.retain(|i| i.bar != *b);
                }
                let ord = self.ordering_positions();
                let n = ord.len();
                let at = |k: usize| -> usize {
                    if k < n {
                        ord[k]
                    } else {
                        self.display.len()
                    }
                };
                let pos = match loc {
                    Loc::End => self.display.len(),
                    Loc::Index(i) => at((*i).min(n)),
                    Loc::FromBack(i) => at(n.saturating_sub(*i)),
                    Loc::After(r) => self
                        .display
                        .iter()
                        .position(|i| i.bar == *r && i.state == ItemState::Live)
                        .map_or(self.display.len(), |p| p + 1),
                    Loc::Before(r) => self
                        .display
                        .iter()
                        .position(|i| i.bar == *r && i.state == ItemState::Live)
                        .unwrap_or(self.display.len()),
                };
                // an insert position inside the static (kept) prefix is the start of the live list
                let first_unkept = self
                    .display
                    .iter()
                    .position(|i| !matches!(i.state, ItemState::Kept | ItemState::Vanishing))
                    .unwrap_or(self.display.len());
                let pos = pos.max(first_unkept.min(self.display.len()));
                self.display.insert(
                    pos,
                    Item {
                        bar: *b,
                        state: ItemState::Live,
                        cands: vec![vec![]], // not drawn yet: shows nothing
                        optional: false,
                        painted: None,
                    d22: false,
                    },
                );
                self.place[*b] = Place::Member;
            }
            _ => {}
        }
        // getters after the op
        let mut drop_final: Option<(usize, Getters)> = None;
        if let Op::Drop(b) = op {
            // reconstruct the final state defined by the finish behaviour
            let mut g = self.cur_getters(*b);
            if !prev_finished[*b] {
                match &self.fin[*b] {
                    Fin::AndLeave | Fin::AndClear => {
                        if let Some(l) = g.len {
                            g.pos = l
                        }
                    }
                    Fin::WithMessage(m) => {
                        if let Some(l) = g.len {
                            g.pos = l
                        }
                        g.msg = m.clone()
                    }
                    Fin::Abandon => {}
                    Fin::AbandonWithMessage(m) => g.msg = m.clone(),
                }
                self.hidden_status[*b] = matches!(self.fin[*b], Fin::AndClear);
                g.finished = true;
                if self.visible(*b) {
                    must_paint = Some("drop of an unfinished bar");
                }
            }
            drop_final = Some((*b, g));
        }
        for (b, g) in o.getters.iter().enumerate() {
            if let Some(g) = g {
                self.last_g[b] = Some(g.clone());
            }
        }
        // candidate renderings of the bar the op acted on
        if let Some(b) = op.bar() {
            let g = match &drop_final {
                Some((_, g)) => g.clone(),
                None => self.cur_getters(b),
            };
            let r = self.rendering(b, &g);
            let unwrapped = if self.hidden_status[b] { vec![] } else { render_expected(&self.tmpl[b], &g) };
            let forced = matches!(
                op,
                Op::Finish(..) | Op::FinishUsingStyle(_) | Op::ForceDraw(_) | Op::SetTabWidth(_) | Op::Println(..) | Op::Suspend(..)
            ) || (matches!(op, Op::Drop(_)) && !prev_finished[b]);
            let draws = !matches!(op, Op::SetStyle(..) | Op::ResetEta(_) | Op::ResetElapsed(_) | Op::Insert(..) | Op::Remove(_))
                && !(matches!(op, Op::Drop(_)) && prev_finished[b])
                && !(matches!(op, Op::Suspend(..)) && self.place[b] == Place::Member);
            if draws && self.display.iter().any(|i| i.bar == b && i.state == ItemState::Live) {
                self.last_lines[b] = unwrapped;
            }
            if let Some(it) = self.item_mut(b) {
                if draws {
                    if forced && painted {
                        it.cands = vec![r];
                    } else {
                        it.cands.push(r);
                    }
                }
            }
            if let Op::Drop(_) = op {
                let was_member = self.place[b] == Place::Member;
                {
                    let rows: usize = self
                        .display
                        .iter()
                        .filter(|i| i.state != ItemState::Kept)
                        .map(|i| i.cands.iter().map(|c| c.len()).max().unwrap_or(0))
                        .sum();
                    if was_member && rows > self.h {
                        self.oversized_reap = true;
                    }
                }
                // the state change of the dropped bar follows the check of its final draw (`step`)
                self.pending_drop = Some((b, painted));
            }
        }
        if matches!(op, Op::MClear) && self.mp_visible {
            // the region is wiped: live members show nothing until they are drawn again
            for i in self.display.iter_mut() {
                if i.state == ItemState::Live && self.place[i.bar] == Place::Member {
                    // they will reappear with the rendering stored at their last draw
                    let last = i.cands.last().cloned().unwrap_or_default();
                    i.cands = vec![vec![], last];
                }
            }
        }
        // the vt100 crate itself overflows (debug build) when a 1-row terminal scrolls on wrap:
        // no reference screen for such runs (the correspondence with the model still covers them)
        if self.vt_broken {
            return None;
        }
        if ORACLE_P3 && self.mp_visible {
            let mp_paint = mp_level_paint
                || op.bar().map_or(true, |b| {
                    self.place[b] == Place::Member || matches!(op, Op::Insert(..))
                });
            if mp_paint && (painted || matches!(op, Op::Drop(_))) {
                return self.step_frames_p3(op, o, must_paint, painted);
            }
        }
        if painted && !matches!(op, Op::MClear) {
            self.bottom_eff = self.bottom_now;
        }
        if painted {
            // padding rows: an empty write_line that does not follow a write_str (last draw of the op)
            let last = o.emitted.split(|x| *x == TOp::Flush).filter(|seg| !seg.is_empty()).last().unwrap_or(&[]);
            self.last_frame_padded = self.bottom_eff
                && last.iter().enumerate().any(|(i, x)| {
                    matches!(x, TOp::Line(l) if l.is_empty()) && (i == 0 || !matches!(last[i - 1], TOp::Str(_)))
                });
        }
        let top_before = self.vt.top;
        let vt = &mut self.vt;
        if crate::catch(|| vt.feed(&o.emitted)).is_err() {
            self.vt_broken = true;
            return None;
        }
        // C19 "the top of the managed region never scrolls out of reach": a call that adds no log text
        // and erases a region at least as tall as the screen must not scroll the terminal (a scroll
        // while the region is lower than the screen only moves the log up, like a println would; when
        // the erased region is as tall as the screen its top row leaves the screen: out of reach)
        let log_op = matches!(op, Op::Suspend(..) | Op::MSuspend(_) | Op::Println(..) | Op::MPrintln(_));
        let max_clears = o
            .emitted
            .split(|x| *x == TOp::Flush)
            .map(|seg| seg.iter().filter(|x| **x == TOp::Clear).count())
            .max()
            .unwrap_or(0);
        if !log_op && self.vt.top > top_before && max_clears >= self.h {
            let writes_text = o.emitted.iter().any(|x| matches!(x, TOp::Str(t) | TOp::Line(t) if !t.is_empty()));
            return Some(Violation {
                class: if !self.bottom_ever {
                    "region-as-tall-as-terminal-scrolls".into()
                } else if max_clears > self.h {
                    // last_line_count exceeded the height (LineAdjust::Clear of kept rows above a live frame)
                    "bottom-region-taller-than-terminal-scrolls".into()
                } else if !writes_text {
                    "bottom-empty-frame-at-full-height-scrolls".into() // D26, fixed by 881c313
                } else {
                    "bottom-region-as-tall-as-terminal-scrolls".into()
                },
                detail: format!(
                    "{:?} adds no log text and erased {} rows (terminal height {}), yet the terminal scrolled by {} row(s): calls {:?}",
                    op,
                    max_clears,
                    self.h,
                    self.vt.top - top_before,
                    o.emitted
                ),
            });
        }
        // position of the first line written by a suspend closure, if that line is empty
        let empty_first_closure_line: Option<usize> = match op {
            Op::Suspend(_, ws) | Op::MSuspend(ws) if ws.first().map_or(false, |l| l.is_empty()) => {
                let pos = if matches!(o.emitted.first(), Some(TOp::Up(_))) {
                    o.emitted.iter().position(|x| *x == TOp::Flush).map(|f| f + 1)
                } else {
                    Some(0)
                };
                pos.filter(|&p| matches!(o.emitted.get(p), Some(TOp::Line(l)) if l.is_empty()))
            }
            _ => None,
        };
        if self.bottom_ever {
            for seg in o.emitted.split(|x| *x == TOp::Flush) {
                let clears = seg.iter().filter(|x| **x == TOp::Clear).count();
                let empties = seg.iter().filter(|x| matches!(x, TOp::Line(l) if l.is_empty())).count();
                let writes = seg.iter().filter(|x| matches!(x, TOp::Str(_) | TOp::Line(_))).count();
                if clears == self.h && empties == self.h && writes == empties {
                    self.bottom_full_height_empty = true;
                }
            }
        }
        let tall: usize = self
            .display
            .iter()
            .map(|i| i.cands.iter().map(|c| c.len()).max().unwrap_or(0))
            .sum();
        // (the second symptom of the old D14 - cursor_below reset by a draw that painted nothing - was
        // fixed by dadbe71: there is no repair for it any more, it is a violation if it reappears)
        {
            let w = self.w;
            let feed_with = |vt: &mut Vt, swallow: Option<usize>| -> bool {
                let mut injected = false;
                let _ = crate::catch(|| {
                    for (i, x) in o.emitted.iter().enumerate() {
                        if swallow == Some(i) && vt.cursor().1 == w {
                            vt.feed(&[TOp::Line(String::new())]);
                            injected = true;
                        }
                        vt.feed(std::slice::from_ref(x));
                    }
                });
                injected
            };
            if feed_with(&mut self.vt_swallow, empty_first_closure_line) {
                self.swallow_injected = true;
            }
            if feed_with(&mut self.vt_both, empty_first_closure_line) {
                self.last_injected = "empty-line-after-text-only-draw-swallowed";
                self.both_swallow_injected = true;
            }
            let _ = feed_with(&mut self.vt_fixed, None);
        }
        self.all_ops.extend(o.emitted.iter().cloned());
        if painted {
            // an uncut draw that paints anything ends with the right-edge filler (column == width); a
            // draw cut by the height `break` before its last line ends wherever its last painted line ends
            let (_, c) = self.vt_fixed.cursor();
            let last_up = o.emitted.iter().rposition(|x| matches!(x, TOp::Up(_))).unwrap_or(0);
            let painted_something = o.emitted[last_up..].iter().any(|x| matches!(x, TOp::Str(_)));
            if painted_something && c < self.w && tall > self.h {
                let filler = TOp::Str(" ".repeat(self.w - c));
                let vf = &mut self.vt_fixed;
                let _ = crate::catch(|| vf.feed(&[filler]));
                self.cut_injected = true;
                self.last_injected = "height-cut-leaves-cursor-mid-row";
                let (_, cb) = self.vt_both.cursor();
                if cb < self.w {
                    let fb = TOp::Str(" ".repeat(self.w - cb));
                    let vb = &mut self.vt_both;
                    let _ = crate::catch(|| vb.feed(&[fb]));
                }
            }
        }
        if let Some(what) = must_paint {
            if !painted {
                return Some(Violation {
                    class: "forced-draw-not-painted".into(),
                    detail: format!("{what} ({:?}) did not paint a frame", op),
                });
            }
        }
        if !painted {
            return None;
        }
        let is_mp_paint = mp_level_paint
            || op.bar().map_or(true, |b| {
                self.place[b] == Place::Member || matches!(op, Op::Drop(_)) || matches!(op, Op::Insert(..))
            });
        if is_mp_paint {
            self.wiped = matches!(op, Op::MClear);
        }
        {
            // once kept rows plus the live rows exceed the height, the top kept rows have scrolled
            // out of the visible screen and can never be reached again
            let kept_n: usize = self
                .display
                .iter()
                .filter(|i| i.state == ItemState::Kept)
                .map(|i| i.cands.last().map_or(0, |c| c.len()))
                .sum();
            let live_n: usize = self
                .display
                .iter()
                .filter(|i| i.state != ItemState::Kept)
                .map(|i| i.cands.iter().map(|c| c.len()).max().unwrap_or(0))
                .sum();
            if kept_n > 0 && kept_n + live_n.min(self.h) > self.h {
                self.kept_out_of_reach = true;
            }
        }
        let after_clear = matches!(op, Op::MClear);
        // D22 can explain a mismatch only if a bar reaped in the D22 situation has static rows now
        let d22_possible = self.kept_rows_checked
            && (self.display.iter().any(|i| i.state == ItemState::Kept && i.d22) || self.transcript_kept.contains(&2));
        let snapshot = if self.cut_injected || self.swallow_injected || self.both_swallow_injected || d22_possible || self.bottom_full_height_empty {
            Some(self.clone())
        } else {
            None
        };
        let mut res = self.check_screen(op, after_clear);
        if let (Some(v), Some(snap)) = (res.as_mut(), snapshot) {
            // is THIS mismatch explained by a known defect?
            let mut explained = None;
            if snap.cut_injected {
                let mut alt = snap.clone();
                alt.vt = alt.vt_fixed.clone();
                if alt.check_screen(op, after_clear).is_none() {
                    explained = Some("height-cut-leaves-cursor-mid-row"); // open finding D14
                }
            }
            if explained.is_none() && snap.swallow_injected {
                let mut alt = snap.clone();
                alt.vt = alt.vt_swallow.clone();
                if alt.check_screen(op, after_clear).is_none() {
                    explained = Some("empty-line-after-text-only-draw-swallowed"); // open finding (C01, C03)
                }
            }
            if explained.is_none() && snap.both_swallow_injected && snap.cut_injected {
                // both known deviations occurred: the one injected last names the failure
                let mut alt = snap.clone();
                alt.vt = alt.vt_both.clone();
                if alt.check_screen(op, after_clear).is_none() {
                    explained = Some(snap.last_injected);
                }
            }
            if explained.is_none() && snap.bottom_full_height_empty {
                let mut alt = snap.clone();
                alt.drop_blank_rows();
                if alt.check_screen(op, after_clear).is_none() {
                    explained = Some("bottom-empty-frame-at-full-height-scrolls"); // D26 (fixed by 881c313): a violation if it reappears
                }
            }
            if explained.is_none() && d22_possible {
                let mut alt = snap.clone();
                alt.relax_d22 = true;
                if alt.check_screen(op, after_clear).is_none() {
                    explained = Some("bottom-alignment-kept-rows-misplaced"); // open finding D22 (C04)
                }
            }
            if let Some(c) = explained {
                v.class = c.into();
                v.detail.push_str(" [this mismatch is explained by the open finding: the same check passes on the screen the history produces when only that defect is repaired]");
            }
        }
        if is_mp_paint && !matches!(op, Op::MClear | Op::Drop(_)) {
            let _ = self.reap_after_paint();
        }
        res
    }

    /// failures that no open finding explains keep the class of the check that failed
    fn classify(&self, default: &'static str) -> &'static str {
        default
    }

    fn check_screen(&mut self, op: &Op, after_clear: bool) -> Option<Violation> {
        let got = self.vt.rows();
        let log_rows = rows_of(&self.log, self.w);
        self.checks += 1;
        // 1. the log (C03): every printed line is on the screen exactly once, in order
        let _n = log_rows.len();
        {
            let mut p = 0;
            let mut ok = true;
            for lr in &log_rows {
                if lr.is_empty() {
                    continue; // blank rows cannot be told apart from padding
                }
                match (p..got.len()).find(|&i| row_eq(&got[i], lr)) {
                    Some(i) => p = i + 1,
                    None => {
                        ok = false;
                        break;
                    }
                }
            }
            if !ok {
                return Some(Violation {
                    class: self.classify("log-lines-damaged").into(),
                    detail: format!(
                        "after {:?}: the lines printed so far are {:?} but the screen shows {:?}",
                        op, log_rows, got
                    ),
                });
            }
        }
        // the static rows: the log, and rows of finished bars that were out of reach when they were
        // to be erased, in physical order
        let log_rows = self.transcript.clone();
        let n = log_rows.len();
        let mut trimmed_log = log_rows.clone();
        while trimmed_log.last().map_or(false, |r| r.is_empty()) {
            trimmed_log.pop();
        }
        let prefix_ok = got.len() >= trimmed_log.len() && (0..trimmed_log.len()).all(|i| row_eq(&got[i], &log_rows[i]));
        let relaxed_any = !self.kept_rows_checked || self.relax_d22;
        if !prefix_ok && (self.bottom_ever || relaxed_any) {
            // bottom alignment: a suspend (fix 96a75c4) leaves the blank padding rows of the cleared
            // region above what the closure prints: BLANK rows may sit directly above the first row a
            // closure wrote - nowhere else between static rows, and nothing but blank rows
            let (mut i, mut j) = (0usize, 0usize);
            let mut ok = true;
            while j < trimmed_log.len() {
                let kept_j = self.transcript_kept.get(j).copied().unwrap_or(0);
                let relax_j = kept_j > 0 && self.kept_relaxed(kept_j == 2);
                if i >= got.len() {
                    if relax_j {
                        j += 1;
                        continue;
                    }
                    ok = false;
                    break;
                }
                if row_eq(&got[i], &log_rows[j]) {
                    i += 1;
                    j += 1;
                } else if relax_j {
                    j += 1; // a row of a finished, dropped bar: may be missing when kept rows are not checked
                } else if got[i].is_empty()
                    && (self.transcript_gap.get(j).copied().unwrap_or(false)
                        || (self.relax_d22
                            && (kept_j == 2 || (j > 0 && self.transcript_kept.get(j - 1).copied().unwrap_or(0) == 2))))
                {
                    // padding left above the output of a suspend closure (bottom alignment); under the D22
                    // re-check: padding rows kept in the place of / next to the rows of a D22 item ONLY
                    i += 1;
                } else {
                    ok = false;
                    break;
                }
            }
            if ok {
                // trailing blank log rows: the region starts after them if they are there
                let mut k = trimmed_log.len();
                while k < log_rows.len() && i < got.len() && got[i].is_empty() {
                    i += 1;
                    k += 1;
                }
                let region: Vec<String> = got[i.min(got.len())..].to_vec();
                return self.check_region(op, after_clear, region, i);
            }
        }
        if !prefix_ok {
            let class = self.classify("log-not-contiguous-at-top");
            return Some(Violation {
                class: class.into(),
                detail: format!(
                    "after {:?}: the first rows of the screen are {:?} but the lines printed so far are {:?}",
                    op,
                    &got[..got.len().min(n + 2)],
                    log_rows
                ),
            });
        }
        // 2. the region below the log
        let region: Vec<String> = if got.len() > n { got[n..].to_vec() } else { vec![] };
        self.check_region(op, after_clear, region, n)
    }

    fn check_region(&mut self, op: &Op, after_clear: bool, region: Vec<String>, n: usize) -> Option<Violation> {
        let relaxed_any_region = !self.kept_rows_checked || self.relax_d22;
        let (kc, rd) = (self.kept_rows_checked, self.relax_d22);
        // frames taller than the terminal are outside the screen equation (C19 checks them separately)
        let live_rows: usize = self
            .display
            .iter()
            .map(|i| i.cands.iter().map(|c| c.len()).max().unwrap_or(0))
            .sum();
        if live_rows > self.h {
            self.unfit = true;
            if after_clear {
                self.last_cut = false;
                return if region.iter().all(|r| r.is_empty()) {
                    None
                } else {
                    Some(Violation {
                        class: "clear-left-rows".into(),
                        detail: format!("after {:?}: rows left below the log: {:?}", op, region),
                    })
                };
            }
            // C19: lines are painted in order while the accumulated rows of bar lines fit the height
            let mut want: Vec<String> = vec![];
            // the same without the rows of finished, dropped bars / with blank rows in their place
            let mut want_nokept: Vec<String> = vec![];
            let mut want_blank: Vec<String> = vec![];
            let mut used = 0usize;
            let mut cut = false;
            for it in self.display.iter_mut() {
                if it.state == ItemState::Kept {
                    // static text: not limited by the height
                    let kr = it.cands.last().cloned().unwrap_or_default();
                    if !kc || (rd && it.d22) {
                        want_blank.extend(kr.iter().map(|_| String::new()));
                    } else {
                        want_blank.extend(kr.iter().cloned());
                        want_nokept.extend(kr.iter().cloned());
                    }
                    want.extend(kr);
                    continue;
                }
                let lines: Vec<Vec<String>> = self.last_lines[it.bar].iter().map(|l| wrap_rows(l, self.w)).collect();
                let mut k = 0;
                for l in &lines {
                    if cut || used + l.len() > self.h {
                        cut = true;
                        break;
                    }
                    used += l.len();
                    want.extend(l.iter().cloned());
                    want_nokept.extend(l.iter().cloned());
                    want_blank.extend(l.iter().cloned());
                    k += 1;
                }
                it.painted = if k == lines.len() { None } else { Some(k) };
            }
            self.top = self.top.max((n + want.len()).saturating_sub(self.h));
            self.last_cut = cut;
            let mut g = region.clone();
            while g.last().map_or(false, |r| r.is_empty()) {
                g.pop();
            }
            let mut w2 = want.clone();
            while w2.last().map_or(false, |r| r.is_empty()) {
                w2.pop();
            }
            let bottom = self.bottom_ever;
            let same = |g: &[String], w: &[String]| {
                if bottom {
                    // bottom alignment pads the region with blank rows: compare the non-blank rows
                    let a: Vec<&String> = g.iter().filter(|r| !r.is_empty()).collect();
                    let b: Vec<&String> = w.iter().filter(|r| !r.is_empty()).collect();
                    return a.len() == b.len() && a.iter().zip(b.iter()).all(|(x, y)| row_eq(x, y));
                }
                let mut w2 = w.to_vec();
                while w2.last().map_or(false, |r| r.is_empty()) {
                    w2.pop();
                }
                g.len() == w2.len() && g.iter().zip(w2.iter()).all(|(a, b)| row_eq(a, b))
            };
            let ok = same(&g, &w2) || (relaxed_any_region && (same(&g, &want_nokept) || same(&g, &want_blank)));
            // windows are not tracked for oversized frames: accept any admissible older state only
            // through the exact check above (these runs use gaps that keep every draw current)
            return if ok {
                None
            } else {
                Some(Violation {
                    class: self.classify("oversized-frame-mismatch").into(),
                    detail: format!(
                        "after {:?}: frame taller than the {} rows of the terminal; below the {} log rows the screen shows {:?}, the leading lines that fit are {:?}",
                        op, self.h, n, region, want
                    ),
                })
            };
        }
        let mut items: Vec<Item> = if after_clear {
            vec![]
        } else {
            self.display.clone()
        };
        if relaxed_any_region {
            for it in items.iter_mut() {
                if it.state == ItemState::Kept && self.kept_relaxed(it.d22) {
                    it.optional = true;
                    if self.bottom_ever {
                        // D22 keeps the TOP rows of the padded region: padding + leading rows of the bar
                        if let Some(full) = it.cands.last().cloned() {
                            for k in 1..full.len() {
                                it.cands.push(full[..k].to_vec()); // appended: original indices stay valid
                            }
                        }
                    }
                }
            }
        }
        let first_live = items.iter().position(|i| i.state != ItemState::Kept).unwrap_or(items.len());
        // where blank padding rows may sit (bottom alignment), per item index k = "directly above item k":
        // above the first live bar line; anywhere when kept rows are not checked at all (C02/C03 mode) or a
        // suspend gap is pending; under the D22 re-check ONLY in the place of / directly next to a D22 item
        // (the padding rows that were kept instead of that bar's rows) - not anywhere else in the frame
        let blank_at: Vec<bool> = (0..=items.len())
            .map(|k| {
                if !self.bottom_ever {
                    false
                } else if !self.kept_rows_checked || self.gap_pending {
                    true
                } else {
                    let d22k = |k: usize| items.get(k).map_or(false, |i| i.state == ItemState::Kept && i.d22);
                    k == first_live || (self.relax_d22 && (d22k(k) || (k > 0 && d22k(k - 1))))
                }
            })
            .collect();
        match match_region(&region, &items, 0, 0, &blank_at) {
            Some(choice) => {
                if !after_clear {
                    let rows: usize = choice
                        .iter()
                        .zip(items.iter())
                        .map(|(c, it)| c.map_or(0, |c| it.cands[c].len()))
                        .sum();
                    self.top = self.top.max((n + rows).saturating_sub(self.h));
                }
                for it in self.display.iter_mut() {
                    it.painted = None;
                }
                self.last_cut = false;
                // narrow the windows: what was seen becomes the oldest admissible state;
                // optional items that were not shown are gone for good
                let mut k = 0;
                let mut keep = vec![];
                for (idx, it) in self.display.iter_mut().enumerate() {
                    if after_clear {
                        keep.push(idx);
                        continue;
                    }
                    match choice[k] {
                        Some(c) => {
                            if c < it.cands.len() {
                                it.cands.drain(..c);
                            } else {
                                // a kept bar of which only leading rows are left (kept rows not checked)
                                it.cands = vec![items[k].cands[c].clone()];
                            }
                            keep.push(idx);
                        }
                        None => {}
                    }
                    k += 1;
                }
                if !after_clear {
                    let mut i = 0;
                    self.display.retain(|_| {
                        let r = keep.contains(&i);
                        i += 1;
                        r
                    });
                }
                None
            }
            None => {
                let class = self.classify(if self.display.iter().any(|i| i.state != ItemState::Live) {
                    "region-mismatch-with-finished-dropped-bars"
                } else {
                    "region-mismatch"
                });
                Some(Violation {
                    class: class.into(),
                    detail: format!(
                        "after {:?}: below the {} log rows the screen shows {:?}; expected items in order: {:?}",
                        op,
                        n,
                        region,
                        self.display
                            .iter()
                            .map(|i| format!("bar{}:{:?}{}:{:?}", i.bar, i.state, if i.optional { "?" } else { "" }, i.cands))
                            .collect::<Vec<_>>()
                    ),
                })
            }
        }
    }

    /// dropped bars that are still waiting in the list at the end of the history because the last
    /// painted frame was cut in front of (or inside) them: nothing will ever draw them
    pub fn dropped_never_painted(&self) -> Vec<usize> {
        // what a draw of the present list would paint
        let mut out = vec![];
        let mut used = 0usize;
        let mut cut = false;
        for it in &self.display {
            if it.state == ItemState::Kept {
                continue;
            }
            let mut all = true;
            for l in &self.last_lines[it.bar] {
                let r = wrap_rows(l, self.w).len();
                if cut || used + r > self.h {
                    cut = true;
                    all = false;
                    break;
                }
                used += r;
            }
            if all && it.state == ItemState::Zombie && it.painted.is_some() {
                out.push(it.bar);
            }
        }
        out
    }

    /// at the end: ordinary output starts on a fresh line below everything (C01)
    pub fn final_cursor_check(&mut self) -> Option<Violation> {
        if !self.all_ops.iter().any(|x| *x == TOp::Flush) || self.unfit || self.vt_broken || self.h < 2 {
            return None;
        }
        let mut vt2 = Vt::new(self.w as u16, self.h as u16);
        vt2.feed(&self.all_ops);
        let before = vt2.rows();
        vt2.feed(&[TOp::Str("Z".into())]);
        let after = vt2.rows();
        let (row, col) = vt2.cursor();
        self.checks += 1;
        let ok = after.get(row).map_or(false, |r| r == "Z")
            && row >= before.len()
            && col == 1
            && after[..before.len()] == before[..];
        if ok {
            None
        } else {
            Some(Violation {
                class: "cursor-not-on-fresh-line".into(),
                detail: format!(
                    "a character written after the history landed at row {row} col {}; rows before {:?}, after {:?}",
                    col.saturating_sub(1),
                    before,
                    after
                ),
            })
        }
    }
}

/// backtracking match of the region rows against the items; returns, per item, the index of the
/// candidate that was shown (None = optional item absent)
fn match_region(rows: &[String], items: &[Item], k: usize, p: usize, blank_at: &[bool]) -> Option<Vec<Option<usize>>> {
    if k == items.len() {
        // the rest must be blank
        return if rows[p.min(rows.len())..].iter().all(|r| r.is_empty()) {
            Some(vec![])
        } else {
            None
        };
    }
    let it = &items[k];
    // try the newest candidate first
    for (ci, c) in it.cands.iter().enumerate().rev() {
        let fits = (0..c.len()).all(|j| {
            let got = rows.get(p + j).map(|s| s.as_str()).unwrap_or("");
            row_eq(got, &c[j])
        });
        if fits {
            if let Some(mut rest) = match_region(rows, items, k + 1, p + c.len(), blank_at) {
                rest.insert(0, Some(ci));
                return Some(rest);
            }
        }
    }
    if it.optional {
        if let Some(mut rest) = match_region(rows, items, k + 1, p, blank_at) {
            rest.insert(0, None);
            return Some(rest);
        }
    }
    // bottom alignment: blank padding rows directly above the first live bar line
    let blank_ok = blank_at.get(k).copied().unwrap_or(false);
    if blank_ok && p < rows.len() && rows[p].is_empty() {
        return match_region(rows, items, k, p + 1, blank_at);
    }
    None
}

/// Runs the cases on the implementation, evaluates the screen oracle, registers each case with the
/// session (correspondence with model/Sys.v).  `accept` filters oracle classes a binary cares about.
pub fn run_sys_cases(s: &mut crate::Session, cases: &[Case], nontrivial: &dyn Fn(&Case, &[StepObs]) -> bool) {
    run_sys_cases_mode(s, cases, nontrivial, true)
}

/// `kept_rows_checked = false` (C02, C03): the rows of visibly finished, dropped bars may be missing
/// (those properties say they "may instead remain"); C04 and C19 check them.
pub fn run_sys_cases_mode(
    s: &mut crate::Session,
    cases: &[Case],
    nontrivial: &dyn Fn(&Case, &[StepObs]) -> bool,
    kept_rows_checked: bool,
) {
    run_sys_cases_wrapped(s, cases, nontrivial, kept_rows_checked, &|_, coq, _| coq)
}

/// `wrap(case, coq term of the syscase, class of the oracle's violation if any)` = the Coq term registered
/// for the case: lets a binary hand the oracle's verdict to its own checker (bin c19: `C19Single c verdict`,
/// cross-checked in the shard with the hypotheses of its theorem).
pub fn run_sys_cases_wrapped(
    s: &mut crate::Session,
    cases: &[Case],
    nontrivial: &dyn Fn(&Case, &[StepObs]) -> bool,
    kept_rows_checked: bool,
    wrap: &dyn Fn(&Case, String, Option<&str>) -> String,
) {
    let mut checks = 0;
    for case in cases {
        let obs = run_case(case);
        let desc = describe(case);
        let mut or = Oracle::new(case);
        or.kept_rows_checked = kept_rows_checked;
        let mut bad = None;
        if let Ok(pat) = std::env::var("VERIF_DEBUG_CASE") {
            if desc.contains(&pat) {
                let mut vt = Vt::new(case.w, case.h);
                println!("DEBUG {desc}");
                for ((t, op), o) in case.ops.iter().zip(obs.iter()) {
                    vt.feed(&o.emitted);
                    println!("@{t} {:?}\n    emitted {:?}\n    rows {:?} cursor {:?} top {}", op, o.emitted, vt.rows(), vt.cursor(), vt.top);
                }
            }
        }
        for ((_, op), o) in case.ops.iter().zip(obs.iter()) {
            if let Some(v) = or.step(op, o) {
                bad = Some(v);
                break;
            }
        }
        if bad.is_none() && obs.len() == case.ops.len() {
            bad = or.final_cursor_check();
        }
        checks += or.checks;
        let bad_is_none = bad.is_none();
        let bad_class: Option<String> = bad.as_ref().map(|v| v.class.clone());
        if let Some(v) = bad {
            s.fail(&v.class, v.detail, desc.clone());
        }
        for (_, o) in &case.ops {
            s.count(&format!("op:{}", o.name()));
        }
        s.count(&format!("W:{}", case.w));
        s.count(&format!("H:{}", case.h));
        s.count(&format!("bars:{}", case.bars.len()));
        if or.unfit {
            s.count("cases_with_frames_taller_than_terminal");
        }
        // NOT a failure of the properties checked here: at the END of such a history a finished, dropped
        // bar still waits in the list behind the height cut; C19 only promises that omitted bars appear
        // "as soon as there is room" (there is none yet, and a later draw with room paints it - otherwise
        // D17 fires); that its final state has not been painted so far concerns C04's "dropping always
        // paints the final state" in the regime frame > terminal (audit X1.7, bin c04). Counted as
        // information about the generator only.
        if bad_is_none && !or.dropped_never_painted().is_empty() {
            s.count("info:histories_ending_with_a_dropped_bar_still_behind_the_cut(no_room_yet)");
            if std::env::var("VERIF_SHOW_PENDING").is_ok() {
                println!("PENDING {:?} {}", or.dropped_never_painted(), desc);
            }
        }
        if or.vt_broken {
            s.count("cases_without_reference_screen(vt100 crate overflow on 1-row terminal)");
        }
        let painted = obs.iter().filter(|o| o.emitted.iter().any(|x| *x == TOp::Flush)).count();
        s.count_n("painted_draws", painted as u64);
        s.count_n(
            "ops_without_terminal_output",
            obs.iter().filter(|o| o.emitted.is_empty()).count() as u64,
        );
        let nt = nontrivial(case, &obs);
        s.case(wrap(case, coq_case(case, &obs), bad_class.as_deref()), desc, nt);
    }
    s.count_n("oracle_screen_checks", checks);
}

/// ORACLE-ONLY stream (the drawing models are single-column): texts made of DOUBLE-WIDTH characters
/// only, on EVEN terminal widths (no character straddles the right edge: that case, D20, stays out of
/// scope), a single bar; the recorded TermLike calls are replayed on the vt100 crate, which knows
/// wide characters.  After every painted draw the visible screen must be  log rows ++ frame rows
/// with a line of k wide characters occupying ceil(2k/W) rows (so erasing after a shrink /
/// finish_and_clear is exact), and the cursor must be at the right edge of the last frame row.
/// Class 'wide-text-rows-miscounted'.
pub fn wide_text_stream(s: &mut crate::Session, r: &mut crate::Rng, n: usize) {
    const WIDE: [char; 6] = ['進', '捗', '状', '況', '確', '認'];
    fn cw(c: char) -> usize {
        if (c as u32) >= 0x1100 {
            2
        } else {
            1
        }
    }
    fn wrows(line: &str, w: usize) -> Vec<String> {
        let mut out = vec![String::new()];
        let mut col = 0;
        for c in line.chars() {
            if col + cw(c) > w {
                out.push(String::new());
                col = 0;
            }
            out.last_mut().unwrap().push(c);
            col += cw(c);
        }
        out.iter().map(|x| x.trim_end().to_string()).collect()
    }
    for i in 0..n {
        let w = *r.pick(&[4u16, 6, 8, 10, 20]);
        let h = 40u16;
        let wu = w as usize;
        let two = r.chance(1, 2);
        let tmpl = if two { vec![TPart::Msg, TPart::NewLine, TPart::Pos] } else { vec![TPart::Msg] };
        let wide = |r: &mut crate::Rng, k: usize| -> String { (0..k).map(|_| *r.pick(&WIDE)).collect() };
        let mut ops: Vec<Op> = vec![];
        let nops = r.range(3, 8);
        for _ in 0..nops {
            let k = match r.below(6) {
                0 => wu / 2,
                1 => wu / 2 + 1,
                2 => wu,
                3 => wu + 1,
                _ => r.below(wu as u64 + 3) as usize,
            };
            ops.push(match r.below(8) {
                0..=3 => Op::SetMsg(0, wide(r, k)),
                4 => Op::Println(0, if r.chance(1, 2) { wide(r, k) } else { "log".into() }),
                5 => Op::Tick(0),
                6 => Op::Inc(0, 1),
                _ => Op::ForceDraw(0),
            });
        }
        ops.push(if r.chance(1, 2) { Op::Finish(0, Fin::AndClear) } else { Op::Finish(0, Fin::AndLeave) });
        let case = Case {
            w,
            h,
            fail_at: vec![],
            fail_from: None,
            mp: TInit::Hidden,
            bars: vec![BarInit { len: Some(9), fin: Fin::AndLeave, tmpl, target: TInit::Term(None) }],
            ops: ops.into_iter().enumerate().map(|(j, o)| ((j as u64 + 1) * 1_000_000_000, o)).collect(),
        };
        let obs = run_case(&case);
        let desc = format!("WIDE {}", describe(&case));
        let mut vt = Vt100::new(w, h);
        let mut log: Vec<String> = vec![];
        let mut hidden = false;
        let mut bad: Option<String> = None;
        for ((_, op), o) in case.ops.iter().zip(obs.iter()) {
            if let Some(p) = &o.panic {
                bad = Some(format!("panic: {p}"));
                break;
            }
            match op {
                Op::Println(_, m) => {
                    if m.lines().next().is_none() {
                        log.push(String::new()) // println("") prints one empty line
                    } else {
                        log.extend(m.lines().map(|x| x.to_string()))
                    }
                }
                Op::Finish(_, f) => hidden = matches!(f, Fin::AndClear),
                _ => {}
            }
            let fed = {
                let v = &mut vt;
                crate::catch(|| v.feed(&o.emitted)).is_ok()
            };
            if !fed {
                break;
            }
            if !o.emitted.iter().any(|x| *x == TOp::Flush) {
                continue;
            }
            let g = match &o.getters[0] {
                Some(g) => g.clone(),
                None => break,
            };
            let mut want: Vec<String> = log.iter().flat_map(|l| wrows(l, wu)).collect();
            let mut frame_rows = 0;
            if !hidden {
                let fr: Vec<String> = render_expected(&case.bars[0].tmpl, &g)
                    .iter()
                    .flat_map(|l| wrows(l, wu))
                    .collect();
                frame_rows = fr.len();
                want.extend(fr);
            }
            while want.last().map_or(false, |x| x.is_empty()) {
                want.pop();
            }
            let mut got = vt.visible_rows();
            while got.last().map_or(false, |x| x.is_empty()) {
                got.pop();
            }
            s.count("wide_text_screen_checks");
            let (_, col) = vt.cursor();
            if got != want {
                bad = Some(format!("after {:?}: the screen shows {:?} but log ++ frame is {:?}", op, got, want));
                break;
            }
            if frame_rows > 0 && col != wu {
                bad = Some(format!("after {:?}: the cursor is at column {col}, not at the right edge of the last frame row (screen {:?})", op, got));
                break;
            }
        }
        if let Some(d) = bad {
            s.fail("wide-text-rows-miscounted", d, desc.clone());
        }
        let _ = i;
        s.oracle_only(desc, true);
    }
}

