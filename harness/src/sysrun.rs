//! The drawing system on the implementation side: op histories over one terminal (a recording
//! `Spy`), executed on real `ProgressBar`/`MultiProgress` objects under the mock clock, with the
//! Coq serialisation of a case (model/SysCheck.v `syscase`) and the per-op observation hashes.

use crate::spy::{Spy, TOp};
use crate::{catch, Rng};
use indicatif::verif_clock as vc;
use indicatif::{MultiProgress, MultiProgressAlignment, ProgressBar, ProgressDrawTarget, ProgressFinish, ProgressStyle};
use std::fmt::Write as _;

#[derive(Clone, Debug, PartialEq)]
pub enum Fin {
    AndLeave,
    WithMessage(String),
    AndClear,
    Abandon,
    AbandonWithMessage(String),
}
#[derive(Clone, Debug, PartialEq)]
pub enum TPart {
    Lit(String),
    Msg,
    Prefix,
    Pos,
    Len,
    Spinner,
    NewLine,
}
#[derive(Clone, Copy, Debug, PartialEq)]
pub enum TInit {
    Hidden,
    Term(Option<u8>),
}
#[derive(Clone, Copy, Debug, PartialEq)]
pub enum Loc {
    End,
    Index(usize),
    FromBack(usize),
    After(usize),
    Before(usize),
}
#[derive(Clone, Debug, PartialEq)]
pub enum Op {
    Tick(usize),
    Inc(usize, u64),
    Dec(usize, u64),
    SetPos(usize, u64),
    SetLen(usize, u64),
    IncLen(usize, u64),
    DecLen(usize, u64),
    UnsetLen(usize),
    SetMsg(usize, String),
    SetPrefix(usize, String),
    SetStyle(usize, Vec<TPart>),
    Println(usize, String),
    Suspend(usize, Vec<String>),
    Reset(usize),
    ResetEta(usize),
    ResetElapsed(usize),
    Finish(usize, Fin),
    FinishUsingStyle(usize),
    ForceDraw(usize),
    SetTabWidth(usize),
    Drop(usize),
    Insert(Loc, usize),
    Remove(usize),
    MPrintln(String),
    MSuspend(Vec<String>),
    MClear,
    SetAlign(bool), // true = Bottom
}

impl Op {
    pub fn bar(&self) -> Option<usize> {
        use Op::*;
        match self {
            Tick(b) | Inc(b, _) | Dec(b, _) | SetPos(b, _) | SetLen(b, _) | IncLen(b, _) | DecLen(b, _)
            | UnsetLen(b) | SetMsg(b, _) | SetPrefix(b, _) | SetStyle(b, _) | Println(b, _) | Suspend(b, _)
            | Reset(b) | ResetEta(b) | ResetElapsed(b) | Finish(b, _) | FinishUsingStyle(b) | ForceDraw(b)
            | SetTabWidth(b) | Drop(b) | Insert(_, b) | Remove(b) => Some(*b),
            _ => None,
        }
    }
    pub fn name(&self) -> &'static str {
        use Op::*;
        match self {
            Tick(_) => "tick",
            Inc(..) => "inc",
            Dec(..) => "dec",
            SetPos(..) => "set_position",
            SetLen(..) => "set_length",
            IncLen(..) => "inc_length",
            DecLen(..) => "dec_length",
            UnsetLen(_) => "unset_length",
            SetMsg(..) => "set_message",
            SetPrefix(..) => "set_prefix",
            SetStyle(..) => "set_style",
            Println(..) => "println",
            Suspend(..) => "suspend",
            Reset(_) => "reset",
            ResetEta(_) => "reset_eta",
            ResetElapsed(_) => "reset_elapsed",
            Finish(_, f) => match f {
                Fin::AndLeave => "finish",
                Fin::WithMessage(_) => "finish_with_message",
                Fin::AndClear => "finish_and_clear",
                Fin::Abandon => "abandon",
                Fin::AbandonWithMessage(_) => "abandon_with_message",
            },
            FinishUsingStyle(_) => "finish_using_style",
            ForceDraw(_) => "force_draw",
            SetTabWidth(_) => "set_tab_width",
            Drop(_) => "drop",
            Insert(l, _) => match l {
                Loc::End => "add",
                Loc::Index(_) => "insert",
                Loc::FromBack(_) => "insert_from_back",
                Loc::After(_) => "insert_after",
                Loc::Before(_) => "insert_before",
            },
            Remove(_) => "remove",
            MPrintln(_) => "mp.println",
            MSuspend(_) => "mp.suspend",
            MClear => "mp.clear",
            SetAlign(_) => "set_alignment",
        }
    }
}

#[derive(Clone, Debug)]
pub struct BarInit {
    pub len: Option<u64>,
    pub fin: Fin,
    pub tmpl: Vec<TPart>,
    pub target: TInit,
}

#[derive(Clone, Debug)]
pub struct Case {
    pub w: u16,
    pub h: u16,
    pub fail_at: Vec<u64>,
    pub fail_from: Option<u64>,
    pub mp: TInit,
    pub bars: Vec<BarInit>,
    pub ops: Vec<(u64, Op)>,
}

#[derive(Clone, Debug, PartialEq)]
pub struct Getters {
    pub pos: u64,
    pub len: Option<u64>,
    pub finished: bool,
    pub msg: String,
    pub prefix: String,
}

#[derive(Clone, Debug)]
pub struct StepObs {
    pub emitted: Vec<TOp>,
    pub ok: bool,
    /// None for dropped bars
    pub getters: Vec<Option<Getters>>,
    pub panic: Option<String>,
}

// ------------------------------------------------------------------ hashing (mirror of SysCheck.v)
const FNV_OFFSET: u64 = 14695981039346656037;
const FNV_PRIME: u64 = 1099511628211;
fn hmix(h: u64, v: u64) -> u64 {
    (h ^ v).wrapping_mul(FNV_PRIME)
}
fn hmix_text(mut h: u64, s: &str) -> u64 {
    h = hmix(h, s.chars().count() as u64);
    for c in s.chars() {
        h = hmix(h, c as u64);
    }
    h
}
pub fn hash_obs(o: &StepObs) -> u64 {
    let mut h = FNV_OFFSET;
    for t in &o.emitted {
        h = match t {
            TOp::Up(n) => hmix(hmix(h, 1), *n as u64),
            TOp::Down(n) => hmix(hmix(h, 2), *n as u64),
            TOp::Clear => hmix(h, 3),
            TOp::Line(s) => hmix_text(hmix(h, 4), s),
            TOp::Str(s) => hmix_text(hmix(h, 5), s),
            TOp::Flush => hmix(h, 6),
            TOp::Left(n) => hmix(hmix(h, 7), *n as u64),
            TOp::Right(n) => hmix(hmix(h, 8), *n as u64),
        };
    }
    h = hmix(h, if o.ok { 201 } else { 200 });
    for g in &o.getters {
        match g {
            None => h = hmix(h, 99),
            Some(g) => {
                h = hmix(hmix(h, 100), g.pos);
                h = match g.len {
                    Some(l) => hmix(hmix(h, 1), l),
                    None => hmix(h, 0),
                };
                h = hmix(h, g.finished as u64);
                h = hmix(h, 1);
                h = hmix_text(hmix_text(h, &g.msg), &g.prefix);
            }
        }
    }
    h
}

// ------------------------------------------------------------------ templates
pub fn tmpl_string(t: &[TPart]) -> String {
    let mut s = String::new();
    for p in t {
        match p {
            TPart::Lit(l) => s.push_str(l),
            TPart::Msg => s.push_str("{msg}"),
            TPart::Prefix => s.push_str("{prefix}"),
            TPart::Pos => s.push_str("{pos}"),
            TPart::Len => s.push_str("{len}"),
            TPart::Spinner => s.push_str("{spinner}"),
            TPart::NewLine => s.push('\n'),
        }
    }
    s
}
pub fn style_of(t: &[TPart]) -> ProgressStyle {
    ProgressStyle::with_template(&tmpl_string(t))
        .unwrap()
        .tick_chars("0123456789X")
}
fn fin_of(f: &Fin) -> ProgressFinish {
    match f {
        Fin::AndLeave => ProgressFinish::AndLeave,
        Fin::WithMessage(m) => ProgressFinish::WithMessage(m.clone().into()),
        Fin::AndClear => ProgressFinish::AndClear,
        Fin::Abandon => ProgressFinish::Abandon,
        Fin::AbandonWithMessage(m) => ProgressFinish::AbandonWithMessage(m.clone().into()),
    }
}

// ------------------------------------------------------------------ running a case on the implementation
pub struct Running {
    pub spy: Spy,
    pub mp: MultiProgress,
    pub bars: Vec<Option<ProgressBar>>,
}

fn target_of(t: TInit, spy: &Spy) -> ProgressDrawTarget {
    match t {
        TInit::Hidden => ProgressDrawTarget::hidden(),
        TInit::Term(None) => ProgressDrawTarget::term_like(Box::new(spy.clone())),
        TInit::Term(Some(r)) => ProgressDrawTarget::term_like_with_hz(Box::new(spy.clone()), r),
    }
}

pub fn start(case: &Case) -> Running {
    vc::set_auto_step_ns(0);
    vc::set_clock_ns(vc::ORIGIN_NS);
    let spy = Spy::new(case.w, case.h);
    {
        let mut s = spy.0.lock().unwrap();
        s.fail_at = case.fail_at.clone();
        s.fail_from = case.fail_from;
    }
    let mp = MultiProgress::with_draw_target(target_of(case.mp, &spy));
    let bars = case
        .bars
        .iter()
        .map(|b| {
            let pb = ProgressBar::with_draw_target(b.len, target_of(b.target, &spy)).with_finish(fin_of(&b.fin));
            pb.set_style(style_of(&b.tmpl));
            Some(pb)
        })
        .collect();
    Running { spy, mp, bars }
}

fn getters(r: &Running) -> Vec<Option<Getters>> {
    r.bars
        .iter()
        .map(|b| {
            b.as_ref().map(|pb| Getters {
                pos: pb.position(),
                len: pb.length(),
                finished: pb.is_finished(),
                msg: pb.message(),
                prefix: pb.prefix(),
            })
        })
        .collect()
}

/// Executes one op. Returns Ok(io result flag).
pub fn apply(r: &mut Running, t: u64, op: &Op) -> Result<bool, String> {
    vc::set_clock_ns(vc::ORIGIN_NS + t);
    let spy = r.spy.clone();
    let mut ok = true;
    let res = {
        let bars = &mut r.bars;
        let mp = &r.mp;
        let ok_ref = &mut ok;
        catch(move || {
            use Op::*;
            macro_rules! pb {
                ($b:expr) => {
                    match bars[*$b].as_ref() {
                        Some(p) => p,
                        None => return,
                    }
                };
            }
            match op {
                Tick(b) => pb!(b).tick(),
                Inc(b, d) => pb!(b).inc(*d),
                Dec(b, d) => pb!(b).dec(*d),
                SetPos(b, d) => pb!(b).set_position(*d),
                SetLen(b, d) => pb!(b).set_length(*d),
                IncLen(b, d) => pb!(b).inc_length(*d),
                DecLen(b, d) => pb!(b).dec_length(*d),
                UnsetLen(b) => pb!(b).unset_length(),
                SetMsg(b, m) => pb!(b).set_message(m.clone()),
                SetPrefix(b, m) => pb!(b).set_prefix(m.clone()),
                SetStyle(b, t) => pb!(b).set_style(style_of(t)),
                Println(b, m) => pb!(b).println(m),
                Suspend(b, ws) => pb!(b).suspend(|| {
                    for w in ws {
                        let _ = indicatif::TermLike::write_line(&spy, w);
                    }
                }),
                Reset(b) => pb!(b).reset(),
                ResetEta(b) => pb!(b).reset_eta(),
                ResetElapsed(b) => pb!(b).reset_elapsed(),
                Finish(b, f) => match f {
                    Fin::AndLeave => pb!(b).finish(),
                    Fin::WithMessage(m) => pb!(b).finish_with_message(m.clone()),
                    Fin::AndClear => pb!(b).finish_and_clear(),
                    Fin::Abandon => pb!(b).abandon(),
                    Fin::AbandonWithMessage(m) => pb!(b).abandon_with_message(m.clone()),
                },
                FinishUsingStyle(b) => pb!(b).finish_using_style(),
                ForceDraw(b) => pb!(b).force_draw(),
                SetTabWidth(b) => pb!(b).set_tab_width(8),
                Drop(b) => {
                    bars[*b] = None;
                }
                Insert(loc, b) => {
                    let p = match bars[*b].take() {
                        Some(p) => p,
                        None => return,
                    };
                    let p = match loc {
                        Loc::End => mp.add(p),
                        Loc::Index(i) => mp.insert(*i, p),
                        Loc::FromBack(i) => mp.insert_from_back(*i, p),
                        Loc::After(r) => match bars[*r].as_ref() {
                            Some(rf) => mp.insert_after(rf, p),
                            None => p,
                        },
                        Loc::Before(r) => match bars[*r].as_ref() {
                            Some(rf) => mp.insert_before(rf, p),
                            None => p,
                        },
                    };
                    bars[*b] = Some(p);
                }
                Remove(b) => mp.remove(pb!(b)),
                MPrintln(m) => *ok_ref = mp.println(m).is_ok(),
                MSuspend(ws) => mp.suspend(|| {
                    for w in ws {
                        let _ = indicatif::TermLike::write_line(&spy, w);
                    }
                }),
                MClear => *ok_ref = mp.clear().is_ok(),
                SetAlign(bottom) => mp.set_alignment(if *bottom {
                    MultiProgressAlignment::Bottom
                } else {
                    MultiProgressAlignment::Top
                }),
            }
        })
    };
    res.map(|_| ok)
}

/// Runs the whole case; a panic ends the run (the panicking step has `panic` set).
pub fn run_case(case: &Case) -> Vec<StepObs> {
    let mut r = start(case);
    let mut out = vec![];
    for (t, op) in &case.ops {
        let res = apply(&mut r, *t, op);
        let emitted = r.spy.take();
        match res {
            Ok(ok) => {
                let g = catch(|| getters(&r));
                match g {
                    Ok(g) => out.push(StepObs {
                        emitted,
                        ok,
                        getters: g,
                        panic: None,
                    }),
                    Err(e) => {
                        out.push(StepObs {
                            emitted,
                            ok,
                            getters: vec![],
                            panic: Some(format!("getter panicked after {}: {e}", op.name())),
                        });
                        break;
                    }
                }
            }
            Err(e) => {
                out.push(StepObs {
                    emitted,
                    ok: false,
                    getters: vec![],
                    panic: Some(format!("{} panicked: {e}", op.name())),
                });
                break;
            }
        }
    }
    // dropping the remaining handles must not panic either (not part of the compared trace)
    let _ = catch(move || drop(r));
    out
}

// ------------------------------------------------------------------ Coq serialisation
fn ctext(s: &str) -> String {
    crate::cstr(s)
}
fn cfin(f: &Fin) -> String {
    match f {
        Fin::AndLeave => "FAndLeave".into(),
        Fin::WithMessage(m) => format!("(FWithMessage {})", ctext(m)),
        Fin::AndClear => "FAndClear".into(),
        Fin::Abandon => "FAbandon".into(),
        Fin::AbandonWithMessage(m) => format!("(FAbandonWithMessage {})", ctext(m)),
    }
}
fn ctmpl(t: &[TPart]) -> String {
    crate::clist(t.iter().map(|p| match p {
        TPart::Lit(l) => format!("PLit {}", ctext(l)),
        TPart::Msg => "PMsg".into(),
        TPart::Prefix => "PPrefix".into(),
        TPart::Pos => "PPos".into(),
        TPart::Len => "PLen".into(),
        TPart::Spinner => "PSpinner".into(),
        TPart::NewLine => "PNewLine".into(),
    }))
}
fn cinit(t: TInit) -> String {
    match t {
        TInit::Hidden => "IHidden".into(),
        TInit::Term(None) => "(ITerm None)".into(),
        TInit::Term(Some(r)) => format!("(ITerm (Some {r}))"),
    }
}
fn ctexts(ws: &[String]) -> String {
    crate::clist(ws.iter().map(|w| ctext(w)))
}
pub fn cop(o: &Op) -> String {
    use Op::*;
    match o {
        Tick(b) => format!("OTick {b}"),
        Inc(b, d) => format!("OInc {b} {d}"),
        Dec(b, d) => format!("ODec {b} {d}"),
        SetPos(b, d) => format!("OSetPos {b} {d}"),
        SetLen(b, d) => format!("OSetLen {b} {d}"),
        IncLen(b, d) => format!("OIncLen {b} {d}"),
        DecLen(b, d) => format!("ODecLen {b} {d}"),
        UnsetLen(b) => format!("OUnsetLen {b}"),
        SetMsg(b, m) => format!("OSetMsg {b} {}", ctext(m)),
        SetPrefix(b, m) => format!("OSetPrefix {b} {}", ctext(m)),
        SetStyle(b, t) => format!("OSetStyle {b} {}", ctmpl(t)),
        Println(b, m) => format!("OPrintln {b} {}", ctext(m)),
        Suspend(b, ws) => format!("OSuspend {b} {}", ctexts(ws)),
        Reset(b) => format!("OReset {b}"),
        ResetEta(b) => format!("OResetEta {b}"),
        ResetElapsed(b) => format!("OResetElapsed {b}"),
        Finish(b, f) => format!("OFinish {b} {}", cfin(f)),
        FinishUsingStyle(b) => format!("OFinishUsingStyle {b}"),
        ForceDraw(b) => format!("OForceDraw {b}"),
        SetTabWidth(b) => format!("OSetTabWidth {b}"),
        Drop(b) => format!("ODrop {b}"),
        Insert(l, b) => format!(
            "OInsert {} {b}",
            match l {
                Loc::End => "BEnd".to_string(),
                Loc::Index(i) => format!("(BIndex {i})"),
                Loc::FromBack(i) => format!("(BFromBack {i})"),
                Loc::After(r) => format!("(BAfter {r})"),
                Loc::Before(r) => format!("(BBefore {r})"),
            }
        ),
        Remove(b) => format!("ORemove {b}"),
        MPrintln(m) => format!("OMPrintln {}", ctext(m)),
        MSuspend(ws) => format!("OMSuspend {}", ctexts(ws)),
        MClear => "OMClear".into(),
        SetAlign(b) => format!("OSetAlign {}", if *b { "Bottom" } else { "Top" }),
    }
}

pub const COQ_HEADER: &str = "From IndModel Require Import SysCheck.\nOpen Scope N_scope.\n";
pub const COQ_CASE_TY: &str = "syscase";
pub const COQ_CHECKER: &str = "sys_check";

/// The Coq term of a case with the observed hashes (only the steps that ran).
pub fn coq_case(case: &Case, obs: &[StepObs]) -> String {
    let n = obs.iter().take_while(|o| o.panic.is_none()).count();
    let mut s = String::new();
    let _ = write!(
        s,
        "(mkcase {} {} {} {} {} {} {} {})",
        case.w,
        case.h,
        crate::clist(case.fail_at.iter().map(|x| x.to_string())),
        crate::copt(case.fail_from.map(|x| x.to_string())),
        cinit(case.mp),
        crate::clist(case.bars.iter().map(|b| format!(
            "({}, {}, {}, {})",
            crate::copt(b.len.map(|x| x.to_string())),
            cfin(&b.fin),
            ctmpl(&b.tmpl),
            cinit(b.target)
        ))),
        crate::clist(case.ops[..n].iter().map(|(t, o)| format!("({t}, {})", cop(o)))),
        crate::clist(obs[..n].iter().map(|o| hash_obs(o).to_string()))
    );
    s
}

pub fn describe(case: &Case) -> String {
    let mut s = format!(
        "W={} H={} mp={:?} fail_at={:?} fail_from={:?} bars=[",
        case.w, case.h, case.mp, case.fail_at, case.fail_from
    );
    for (i, b) in case.bars.iter().enumerate() {
        let _ = write!(
            s,
            "{}#{i}(len={:?} fin={:?} tmpl={:?} {:?})",
            if i > 0 { " " } else { "" },
            b.len,
            b.fin,
            tmpl_string(&b.tmpl),
            b.target
        );
    }
    s.push_str("] ops=[");
    for (i, (t, o)) in case.ops.iter().enumerate() {
        let _ = write!(s, "{}@{t}:{:?}", if i > 0 { "; " } else { "" }, o);
    }
    s.push(']');
    s
}

// ------------------------------------------------------------------ a reference terminal (vt100 crate)
pub struct Vt {
    pub p: vt100::Parser,
    pub w: u16,
    pub h: u16,
}
impl Vt {
    pub fn new(w: u16, h: u16) -> Self {
        Vt {
            p: vt100::Parser::new(h, w, 100_000),
            w,
            h,
        }
    }
    pub fn feed(&mut self, ops: &[TOp]) {
        for o in ops {
            match o {
                TOp::Up(n) => {
                    if *n > 0 {
                        self.p.process(format!("\x1b[{n}A").as_bytes())
                    }
                }
                TOp::Down(n) => {
                    if *n > 0 {
                        self.p.process(format!("\x1b[{n}B").as_bytes())
                    }
                }
                TOp::Left(n) => {
                    if *n > 0 {
                        self.p.process(format!("\x1b[{n}D").as_bytes())
                    }
                }
                TOp::Right(n) => {
                    if *n > 0 {
                        self.p.process(format!("\x1b[{n}C").as_bytes())
                    }
                }
                TOp::Clear => self.p.process(b"\r\x1b[2K"),
                TOp::Line(s) => {
                    self.p.process(s.as_bytes());
                    self.p.process(b"\r\n")
                }
                TOp::Str(s) => self.p.process(s.as_bytes()),
                TOp::Flush => {}
            }
        }
    }
    /// all rows, scroll-back first, trailing blanks trimmed, trailing empty rows dropped
    pub fn rows(&mut self) -> Vec<String> {
        self.p.set_scrollback(usize::MAX);
        let max = self.p.screen().scrollback();
        let mut out = vec![];
        for off in (1..=max).rev() {
            self.p.set_scrollback(off);
            let r = self.p.screen().rows(0, self.w).next().unwrap_or_default();
            out.push(r.trim_end().to_string());
        }
        self.p.set_scrollback(0);
        for r in self.p.screen().rows(0, self.w) {
            out.push(r.trim_end().to_string());
        }
        while out.last().map_or(false, |r| r.is_empty()) {
            out.pop();
        }
        out
    }
    /// number of rows scrolled off the top
    pub fn scrolled(&mut self) -> usize {
        self.p.set_scrollback(usize::MAX);
        let max = self.p.screen().scrollback();
        self.p.set_scrollback(0);
        max
    }
    /// absolute (row, col) of the cursor; col == w means "wrap pending"
    pub fn cursor(&mut self) -> (usize, usize) {
        let sc = self.scrolled();
        let (r, c) = self.p.screen().cursor_position();
        (sc + r as usize, c as usize)
    }
}

/// what a line of `cols` columns occupies: chunks of `w` characters; an empty line is one empty row
pub fn wrap_rows(line: &str, w: usize) -> Vec<String> {
    let cs: Vec<char> = line.chars().collect();
    if cs.is_empty() {
        return vec![String::new()];
    }
    cs.chunks(w).map(|c| c.iter().collect::<String>().trim_end().to_string()).collect()
}

// ------------------------------------------------------------------ generators
pub const LIT_ALPHABET: &[u8] = b"abcXYZ019 .:-#|[]()<>=+*/_";
pub fn gen_word(r: &mut Rng, n: usize) -> String {
    (0..n).map(|_| *r.pick(LIT_ALPHABET) as char).collect()
}
/// a text whose width clusters around multiples of the terminal width
pub fn gen_width_text(r: &mut Rng, w: usize) -> String {
    let n = match r.below(12) {
        0 => 0,
        1 => 1,
        2 => w.saturating_sub(1),
        3 => w,
        4 => w + 1,
        5 => 2 * w,
        6 => 2 * w + 1,
        7 => 3 * w + 1,
        8 => (2 * w).saturating_sub(1),
        _ => r.below(2 * w as u64 + 3) as usize,
    };
    let n = n.min(60);
    // avoid leading/trailing-only-space ambiguity for the screen oracle: end with a non-space
    let mut s = gen_word(r, n);
    if s.ends_with(' ') {
        s.pop();
        s.push('x');
    }
    s
}
/// a message/log text: possibly several lines, empty lines, leading/trailing newline
pub fn gen_multiline(r: &mut Rng, w: usize) -> String {
    let k = match r.below(10) {
        0..=5 => 1,
        6..=7 => 2,
        8 => 3,
        _ => 0,
    };
    let mut parts: Vec<String> = (0..k).map(|_| gen_width_text(r, w)).collect();
    if r.chance(1, 8) {
        parts.insert(0, String::new());
    }
    if r.chance(1, 8) {
        parts.push(String::new());
    }
    parts.join("\n")
}
pub fn gen_tmpl(r: &mut Rng, w: usize) -> Vec<TPart> {
    let mut t = vec![];
    let n = r.range(1, 6);
    for _ in 0..n {
        t.push(match r.below(12) {
            0..=2 => TPart::Msg,
            3 => TPart::Prefix,
            4..=5 => TPart::Pos,
            6 => TPart::Len,
            7 => TPart::Spinner,
            8..=9 => {
                let k = r.below(w as u64 + 2) as usize;
                TPart::Lit(gen_word(r, k.max(1)))
            }
            _ => TPart::NewLine,
        });
    }
    t
}
pub fn gen_fin(r: &mut Rng, w: usize) -> Fin {
    match r.below(5) {
        0 => Fin::AndLeave,
        1 => Fin::WithMessage(gen_multiline(r, w)),
        2 => Fin::AndClear,
        3 => Fin::Abandon,
        _ => Fin::AbandonWithMessage(gen_multiline(r, w)),
    }
}
pub fn gen_u64(r: &mut Rng) -> u64 {
    match r.below(8) {
        0 => 0,
        1 => 1,
        2 => u64::MAX,
        3 => r.next(),
        _ => r.below(120),
    }
}
/// time gaps: mostly small, clustered at the limiter intervals
pub fn gen_gap(r: &mut Rng) -> u64 {
    *r.pick(&[
        0u64,
        0,
        1,
        999_999,
        1_000_000,
        1_000_001,
        5_000_000,
        49_999_999,
        50_000_000,
        50_000_001,
        100_000_000,
        1_000_000_000,
        3_600_000_000_000,
    ])
}
