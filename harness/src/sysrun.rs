//! The drawing system on the implementation side: op histories over one terminal (a recording
//! `Spy`), executed on real `ProgressBar`/`MultiProgress` objects under the mock clock, with the
//! Coq serialisation of a case (model/SysCheck.v `syscase`) and the per-op observation hashes.

use crate::spy::{Spy, TOp};
use crate::{catch, Rng};
use indicatif::verif_clock as vc;
use indicatif::{MultiProgress, MultiProgressAlignment, ProgressBar, ProgressDrawTarget, ProgressFinish, ProgressStyle};
use std::fmt::Write as _;

#[derive(Clone, Debug, PartialEq)]
pub enum Fin {
    AndLeave,
    WithMessage(String),
    AndClear,
    Abandon,
    AbandonWithMessage(String),
}
#[derive(Clone, Debug, PartialEq)]
pub enum TPart {
    Lit(String),
    Msg,
    Prefix,
    Pos,
    Len,
    Spinner,
    NewLine,
}
#[derive(Clone, Copy, Debug, PartialEq)]
pub enum TInit {
    Hidden,
    Term(Option<u8>),
}
#[derive(Clone, Copy, Debug, PartialEq)]
pub enum Loc {
    End,
    Index(usize),
    FromBack(usize),
    After(usize),
    Before(usize),
}
#[derive(Clone, Debug, PartialEq)]
pub enum Op {
    Tick(usize),
    Inc(usize, u64),
    Dec(usize, u64),
    SetPos(usize, u64),
    SetLen(usize, u64),
    IncLen(usize, u64),
    DecLen(usize, u64),
    UnsetLen(usize),
    SetMsg(usize, String),
    SetPrefix(usize, String),
    SetStyle(usize, Vec<TPart>),
    Println(usize, String),
    Suspend(usize, Vec<String>),
    Reset(usize),
    ResetEta(usize),
    ResetElapsed(usize),
    Finish(usize, Fin),
    FinishUsingStyle(usize),
    ForceDraw(usize),
    SetTabWidth(usize),
    Drop(usize),
    Insert(Loc, usize),
    Remove(usize),
    MPrintln(String),
    MSuspend(Vec<String>),
    MClear,
    SetAlign(bool), // true = Bottom
}

impl Op {
    pub fn bar(&self) -> Option<usize> {
        use Op::*;
        match self {
            Tick(b) | Inc(b, _) | Dec(b, _) | SetPos(b, _) | SetLen(b, _) | IncLen(b, _) | DecLen(b, _)
            | UnsetLen(b) | SetMsg(b, _) | SetPrefix(b, _) | SetStyle(b, _) | Println(b, _) | Suspend(b, _)
            | Reset(b) | ResetEta(b) | ResetElapsed(b) | Finish(b, _) | FinishUsingStyle(b) | ForceDraw(b)
            | SetTabWidth(b) | Drop(b) | Insert(_, b) | Remove(b) => Some(*b),
            _ => None,
        }
    }
    pub fn name(&self) -> &'static str {
        use Op::*;
        match self {
            Tick(_) => "tick",
            Inc(..) => "inc",
            Dec(..) => "dec",
            SetPos(..) => "set_position",
            SetLen(..) => "set_length",
            IncLen(..) => "inc_length",
            DecLen(..) => "dec_length",
            UnsetLen(_) => "unset_length",
            SetMsg(..) => "set_message",
            SetPrefix(..) => "set_prefix",
            SetStyle(..) => "set_style",
            Println(..) => "println",
            Suspend(..) => "suspend",
            Reset(_) => "reset",
            ResetEta(_) => "reset_eta",
            ResetElapsed(_) => "reset_elapsed",
            Finish(_, f) => match f {
                Fin::AndLeave => "finish",
                Fin::WithMessage(_) => "finish_with_message",
                Fin::AndClear => "finish_and_clear",
                Fin::Abandon => "abandon",
                Fin::AbandonWithMessage(_) => "abandon_with_message",
            },
            FinishUsingStyle(_) => "finish_using_style",
            ForceDraw(_) => "force_draw",
            SetTabWidth(_) => "set_tab_width",
            Drop(_) => "drop",
            Insert(l, _) => match l {
                Loc::End => "add",
                Loc::Index(_) => "insert",
                Loc::FromBack(_) => "insert_from_back",
                Loc::After(_) => "insert_after",
                Loc::Before(_) => "insert_before",
            },
            Remove(_) => "remove",
            MPrintln(_) => "mp.println",
            MSuspend(_) => "mp.suspend",
            MClear => "mp.clear",
            SetAlign(_) => "set_alignment",
        }
    }
}

#[derive(Clone, Debug)]
pub struct BarInit {
    pub len: Option<u64>,
    pub fin: Fin,
    pub tmpl: Vec<TPart>,
    pub target: TInit,
}

#[derive(Clone, Debug)]
pub struct Case {
    pub w: u16,
    pub h: u16,
    pub fail_at: Vec<u64>,
    pub fail_from: Option<u64>,
    pub mp: TInit,
    pub bars: Vec<BarInit>,
    pub ops: Vec<(u64, Op)>,
}

#[derive(Clone, Debug, PartialEq)]
pub struct Getters {
    pub pos: u64,
    pub len: Option<u64>,
    pub finished: bool,
    pub msg: String,
    pub prefix: String,
}

#[derive(Clone, Debug)]
pub struct StepObs {
    pub emitted: Vec<TOp>,
    pub ok: bool,
    /// None for dropped bars
    pub getters: Vec<Option<Getters>>,
    pub panic: Option<String>,
}

// ------------------------------------------------------------------ hashing (mirror of SysCheck.v)
const FNV_OFFSET: u64 = 14695981039346656037;
const FNV_PRIME: u64 = 1099511628211;
fn hmix(h: u64, v: u64) -> u64 {
    (h ^ v).wrapping_mul(FNV_PRIME)
}
fn hmix_text(mut h: u64, s: &str) -> u64 {
    h = hmix(h, s.chars().count() as u64);
    for c in s.chars() {
        h = hmix(h, c as u64);
    }
    h
}
pub fn hash_obs(o: &StepObs) -> u64 {
    let mut h = FNV_OFFSET;
    for t in &o.emitted {
        h = match t {
            TOp::Up(n) => hmix(hmix(h, 1), *n as u64),
            TOp::Down(n) => hmix(hmix(h, 2), *n as u64),
            TOp::Clear => hmix(h, 3),
            TOp::Line(s) => hmix_text(hmix(h, 4), s),
            TOp::Str(s) => hmix_text(hmix(h, 5), s),
            TOp::Flush => hmix(h, 6),
            TOp::Left(n) => hmix(hmix(h, 7), *n as u64),
            TOp::Right(n) => hmix(hmix(h, 8), *n as u64),
        };
    }
    h = hmix(h, if o.ok { 201 } else { 200 });
    for g in &o.getters {
        match g {
            None => h = hmix(h, 99),
            Some(g) => {
                h = hmix(hmix(h, 100), g.pos);
                h = match g.len {
                    Some(l) => hmix(hmix(h, 1), l),
                    None => hmix(h, 0),
                };
                h = hmix(h, g.finished as u64);
                h = hmix(h, 1);
                h = hmix_text(hmix_text(h, &g.msg), &g.prefix);
            }
        }
    }
    h
}

// ------------------------------------------------------------------ templates
pub fn tmpl_string(t: &[TPart]) -> String {
    let mut s = String::new();
    for p in t {
        match p {
            TPart::Lit(l) => s.push_str(l),
            TPart::Msg => s.push_str("{msg}"),
            TPart::Prefix => s.push_str("{prefix}"),
            TPart::Pos => s.push_str("{pos}"),
            TPart::Len => s.push_str("{len}"),
            TPart::Spinner => s.push_str("{spinner}"),
            TPart::NewLine => s.push('\n'),
        }
    }
    s
}
pub fn style_of(t: &[TPart]) -> ProgressStyle {
    ProgressStyle::with_template(&tmpl_string(t))
        .unwrap()
        .tick_chars("0123456789X")
}
fn fin_of(f: &Fin) -> ProgressFinish {
    match f {
        Fin::AndLeave => ProgressFinish::AndLeave,
        Fin::WithMessage(m) => ProgressFinish::WithMessage(m.clone().into()),
        Fin::AndClear => ProgressFinish::AndClear,
        Fin::Abandon => ProgressFinish::Abandon,
        Fin::AbandonWithMessage(m) => ProgressFinish::AbandonWithMessage(m.clone().into()),
    }
}

// ------------------------------------------------------------------ running a case on the implementation
pub struct Running {
    pub spy: Spy,
    pub mp: MultiProgress,
    pub bars: Vec<Option<ProgressBar>>,
}

fn target_of(t: TInit, spy: &Spy) -> ProgressDrawTarget {
    match t {
        TInit::Hidden => ProgressDrawTarget::hidden(),
        TInit::Term(None) => ProgressDrawTarget::term_like(Box::new(spy.clone())),
        TInit::Term(Some(r)) => ProgressDrawTarget::term_like_with_hz(Box::new(spy.clone()), r),
    }
}

pub fn start(case: &Case) -> Running {
    vc::set_auto_step_ns(0);
    vc::set_clock_ns(vc::ORIGIN_NS);
    let spy = Spy::new(case.w, case.h);
    {
        let mut s = spy.0.lock().unwrap();
        s.fail_at = case.fail_at.clone();
        s.fail_from = case.fail_from;
    }
    let mp = MultiProgress::with_draw_target(target_of(case.mp, &spy));
    let bars = case
        .bars
        .iter()
        .map(|b| {
            let pb = ProgressBar::with_draw_target(b.len, target_of(b.target, &spy)).with_finish(fin_of(&b.fin));
            pb.set_style(style_of(&b.tmpl));
            Some(pb)
        })
        .collect();
    Running { spy, mp, bars }
}

fn getters(r: &Running) -> Vec<Option<Getters>> {
    r.bars
        .iter()
        .map(|b| {
            b.as_ref().map(|pb| Getters {
                pos: pb.position(),
                len: pb.length(),
                finished: pb.is_finished(),
                msg: pb.message(),
                prefix: pb.prefix(),
            })
        })
        .collect()
}

/// Executes one op. Returns Ok(io result flag).
pub fn apply(r: &mut Running, t: u64, op: &Op) -> Result<bool, String> {
    vc::set_clock_ns(vc::ORIGIN_NS + t);
    let spy = r.spy.clone();
    let mut ok = true;
    let res = {
        let bars = &mut r.bars;
        let mp = &r.mp;
        let ok_ref = &mut ok;
        catch(move || {
            use Op::*;
            macro_rules! pb {
                ($b:expr) => {
                    match bars[*$b].as_ref() {
                        Some(p) => p,
                        None => return,
                    }
                };
            }
            match op {
                Tick(b) => pb!(b).tick(),
                Inc(b, d) => pb!(b).inc(*d),
                Dec(b, d) => pb!(b).dec(*d),
                SetPos(b, d) => pb!(b).set_position(*d),
                SetLen(b, d) => pb!(b).set_length(*d),
                IncLen(b, d) => pb!(b).inc_length(*d),
                DecLen(b, d) => pb!(b).dec_length(*d),
                UnsetLen(b) => pb!(b).unset_length(),
                SetMsg(b, m) => pb!(b).set_message(m.clone()),
                SetPrefix(b, m) => pb!(b).set_prefix(m.clone()),
                SetStyle(b, t) => pb!(b).set_style(style_of(t)),
                Println(b, m) => pb!(b).println(m),
                Suspend(b, ws) => pb!(b).suspend(|| {
                    for w in ws {
                        let _ = indicatif::TermLike::write_line(&spy, w);
                    }
                }),
                Reset(b) => pb!(b).reset(),
                ResetEta(b) => pb!(b).reset_eta(),
                ResetElapsed(b) => pb!(b).reset_elapsed(),
                Finish(b, f) => match f {
                    Fin::AndLeave => pb!(b).finish(),
                    Fin::WithMessage(m) => pb!(b).finish_with_message(m.clone()),
                    Fin::AndClear => pb!(b).finish_and_clear(),
                    Fin::Abandon => pb!(b).abandon(),
                    Fin::AbandonWithMessage(m) => pb!(b).abandon_with_message(m.clone()),
                },
                FinishUsingStyle(b) => pb!(b).finish_using_style(),
                ForceDraw(b) => pb!(b).force_draw(),
                SetTabWidth(b) => pb!(b).set_tab_width(8),
                Drop(b) => {
                    bars[*b] = None;
                }
                Insert(loc, b) => {
                    let p = match bars[*b].take() {
                        Some(p) => p,
                        None => return,
                    };
                    let p = match loc {
                        Loc::End => mp.add(p),
                        Loc::Index(i) => mp.insert(*i, p),
                        Loc::FromBack(i) => mp.insert_from_back(*i, p),
                        Loc::After(r) => match bars[*r].as_ref() {
                            Some(rf) => mp.insert_after(rf, p),
                            None => p,
                        },
                        Loc::Before(r) => match bars[*r].as_ref() {
                            Some(rf) => mp.insert_before(rf, p),
                            None => p,
                        },
                    };
                    bars[*b] = Some(p);
                }
                Remove(b) => mp.remove(pb!(b)),
                MPrintln(m) => *ok_ref = mp.println(m).is_ok(),
                MSuspend(ws) => mp.suspend(|| {
                    for w in ws {
                        let _ = indicatif::TermLike::write_line(&spy, w);
                    }
                }),
                MClear => *ok_ref = mp.clear().is_ok(),
                SetAlign(bottom) => mp.set_alignment(if *bottom {
                    MultiProgressAlignment::Bottom
                } else {
                    MultiProgressAlignment::Top
                }),
            }
        })
    };
    res.map(|_| ok)
}

/// Runs the whole case; a panic ends the run (the panicking step has `panic` set).
pub fn run_case(case: &Case) -> Vec<StepObs> {
    let mut r = start(case);
    let mut out = vec![];
    for (t, op) in &case.ops {
        let res = apply(&mut r, *t, op);
        let emitted = r.spy.take();
        match res {
            Ok(ok) => {
                let g = catch(|| getters(&r));
                match g {
                    Ok(g) => out.push(StepObs {
                        emitted,
                        ok,
                        getters: g,
                        panic: None,
                    }),
                    Err(e) => {
                        out.push(StepObs {
                            emitted,
                            ok,
                            getters: vec![],
                            panic: Some(format!("getter panicked after {}: {e}", op.name())),
                        });
                        break;
                    }
                }
            }
            Err(e) => {
                out.push(StepObs {
                    emitted,
                    ok: false,
                    getters: vec![],
                    panic: Some(format!("{} panicked: {e}", op.name())),
                });
                break;
            }
        }
    }
    // dropping the remaining handles must not panic either (not part of the compared trace)
    let _ = catch(move || drop(r));
    out
}

// ------------------------------------------------------------------ Coq serialisation
fn ctext(s: &str) -> String {
    // ASCII only (generators guarantee it); Coq string literal, `"` doubled
    debug_assert!(s.is_ascii());
    format!("(t \"{}\")", s.replace('"', "\"\""))
}
fn cfin(f: &Fin) -> String {
    match f {
        Fin::AndLeave => "FAndLeave".into(),
        Fin::WithMessage(m) => format!("(FWithMessage {})", ctext(m)),
        Fin::AndClear => "FAndClear".into(),
        Fin::Abandon => "FAbandon".into(),
        Fin::AbandonWithMessage(m) => format!("(FAbandonWithMessage {})", ctext(m)),
    }
}
fn ctmpl(t: &[TPart]) -> String {
    crate::clist(t.iter().map(|p| match p {
        TPart::Lit(l) => format!("PLit {}", ctext(l)),
        TPart::Msg => "PMsg".into(),
        TPart::Prefix => "PPrefix".into(),
        TPart::Pos => "PPos".into(),
        TPart::Len => "PLen".into(),
        TPart::Spinner => "PSpinner".into(),
        TPart::NewLine => "PNewLine".into(),
    }))
}
fn cinit(t: TInit) -> String {
    match t {
        TInit::Hidden => "IHidden".into(),
        TInit::Term(None) => "(ITerm None)".into(),
        TInit::Term(Some(r)) => format!("(ITerm (Some {r}))"),
    }
}
fn ctexts(ws: &[String]) -> String {
    crate::clist(ws.iter().map(|w| ctext(w)))
}
pub fn cop(o: &Op) -> String {
    use Op::*;
    match o {
        Tick(b) => format!("OTick {b}"),
        Inc(b, d) => format!("OInc {b} {d}"),
        Dec(b, d) => format!("ODec {b} {d}"),
        SetPos(b, d) => format!("OSetPos {b} {d}"),
        SetLen(b, d) => format!("OSetLen {b} {d}"),
        IncLen(b, d) => format!("OIncLen {b} {d}"),
        DecLen(b, d) => format!("ODecLen {b} {d}"),
        UnsetLen(b) => format!("OUnsetLen {b}"),
        SetMsg(b, m) => format!("OSetMsg {b} {}", ctext(m)),
        SetPrefix(b, m) => format!("OSetPrefix {b} {}", ctext(m)),
        SetStyle(b, t) => format!("OSetStyle {b} {}", ctmpl(t)),
        Println(b, m) => format!("OPrintln {b} {}", ctext(m)),
        Suspend(b, ws) => format!("OSuspend {b} {}", ctexts(ws)),
        Reset(b) => format!("OReset {b}"),
        ResetEta(b) => format!("OResetEta {b}"),
        ResetElapsed(b) => format!("OResetElapsed {b}"),
        Finish(b, f) => format!("OFinish {b} {}", cfin(f)),
        FinishUsingStyle(b) => format!("OFinishUsingStyle {b}"),
        ForceDraw(b) => format!("OForceDraw {b}"),
        SetTabWidth(b) => format!("OSetTabWidth {b}"),
        Drop(b) => format!("ODrop {b}"),
        Insert(l, b) => format!(
            "OInsert {} {b}",
            match l {
                Loc::End => "BEnd".to_string(),
                Loc::Index(i) => format!("(BIndex {i})"),
                Loc::FromBack(i) => format!("(BFromBack {i})"),
                Loc::After(r) => format!("(BAfter {r})"),
                Loc::Before(r) => format!("(BBefore {r})"),
            }
        ),
        Remove(b) => format!("ORemove {b}"),
        MPrintln(m) => format!("OMPrintln {}", ctext(m)),
        MSuspend(ws) => format!("OMSuspend {}", ctexts(ws)),
        MClear => "OMClear".into(),
        SetAlign(b) => format!("OSetAlign {}", if *b { "Bottom" } else { "Top" }),
    }
}

pub const COQ_HEADER: &str = "From IndModel Require Import SysCheck.\nFrom Coq Require Import String.\nOpen Scope string_scope.\nOpen Scope N_scope.\n";
pub const COQ_CASE_TY: &str = "syscase";
pub const COQ_CHECKER: &str = "sys_check";

/// The Coq term of a case with the observed hashes (only the steps that ran).
pub fn coq_case(case: &Case, obs: &[StepObs]) -> String {
    let n = obs.iter().take_while(|o| o.panic.is_none()).count();
    let mut s = String::new();
    let _ = write!(
        s,
        "(mkcase {} {} {} {} {} {} {} {})",
        case.w,
        case.h,
        crate::clist(case.fail_at.iter().map(|x| x.to_string())),
        crate::copt(case.fail_from.map(|x| x.to_string())),
        cinit(case.mp),
        crate::clist(case.bars.iter().map(|b| format!(
            "({}, {}, {}, {})",
            crate::copt(b.len.map(|x| x.to_string())),
            cfin(&b.fin),
            ctmpl(&b.tmpl),
            cinit(b.target)
        ))),
        crate::clist(case.ops[..n].iter().map(|(t, o)| format!("({t}, {})", cop(o)))),
        crate::clist(obs[..n].iter().map(|o| hash_obs(o).to_string()))
    );
    s
}

pub fn describe(case: &Case) -> String {
    let mut s = format!(
        "W={} H={} mp={:?} fail_at={:?} fail_from={:?} bars=[",
        case.w, case.h, case.mp, case.fail_at, case.fail_from
    );
    for (i, b) in case.bars.iter().enumerate() {
        let _ = write!(
            s,
            "{}#{i}(len={:?} fin={:?} tmpl={:?} {:?})",
            if i > 0 { " " } else { "" },
            b.len,
            b.fin,
            tmpl_string(&b.tmpl),
            b.target
        );
    }
    s.push_str("] ops=[");
    for (i, (t, o)) in case.ops.iter().enumerate() {
        let _ = write!(s, "{}@{t}:{:?}", if i > 0 { "; " } else { "" }, o);
    }
    s.push(']');
    s
}

// ------------------------------------------------------------------ reference terminals
/// The vt100 crate as a reference for the VISIBLE screen (its scroll-back API cannot address rows
/// further back than one screen, and it overflows on 1-row terminals in debug builds).
pub struct Vt100 {
    pub p: vt100::Parser,
    pub w: u16,
    pub h: u16,
}
impl Vt100 {
    pub fn new(w: u16, h: u16) -> Self {
        Vt100 { p: vt100::Parser::new(h, w, 0), w, h }
    }
    pub fn feed(&mut self, ops: &[TOp]) {
        for o in ops {
            match o {
                TOp::Up(n) => {
                    if *n > 0 {
                        self.p.process(format!("\x1b[{n}A").as_bytes())
                    }
                }
                TOp::Down(n) => {
                    if *n > 0 {
                        self.p.process(format!("\x1b[{n}B").as_bytes())
                    }
                }
                TOp::Left(n) => {
                    if *n > 0 {
                        self.p.process(format!("\x1b[{n}D").as_bytes())
                    }
                }
                TOp::Right(n) => {
                    if *n > 0 {
                        self.p.process(format!("\x1b[{n}C").as_bytes())
                    }
                }
                TOp::Clear => self.p.process(b"\r\x1b[2K"),
                TOp::Line(s) => {
                    self.p.process(s.as_bytes());
                    self.p.process(b"\r\n")
                }
                TOp::Str(s) => self.p.process(s.as_bytes()),
                TOp::Flush => {}
            }
        }
    }
    pub fn visible_rows(&self) -> Vec<String> {
        self.p.screen().rows(0, self.w).map(|r| r.trim_end().to_string()).collect()
    }
    pub fn cursor(&self) -> (usize, usize) {
        let (r, c) = self.p.screen().cursor_position();
        (r as usize, c as usize)
    }
}

/// A small terminal with the same contract (autowrap with deferred wrap at the right edge, LF
/// scrolls at the bottom row, cursor-up/down clamp to the visible screen, CR + erase-line for
/// clear_line) and unlimited scroll-back.  It mirrors coq/model/Term.v; the `TermCase`s of bin c01 (run by
/// `./check C01`) tie Term.v, this terminal and the vt100 crate together on observed and random call streams
/// (`bin/termcheck.rs` does the same stand-alone; `./check` does not run it).
#[derive(Clone)]
pub struct Vt {
    pub w: usize,
    pub h: usize,
    /// all rows ever, row 0 = oldest
    pub rows: Vec<Vec<char>>,
    /// index of the first visible row
    pub top: usize,
    pub r: usize,
    /// column; == w means "wrap pending"
    pub c: usize,
}
impl Vt {
    pub fn new(w: u16, h: u16) -> Self {
        Vt { w: w as usize, h: h as usize, rows: vec![vec![]], top: 0, r: 0, c: 0 }
    }
    fn line_feed(&mut self) {
        if self.r == self.top + self.h - 1 {
            self.top += 1;
        }
        self.r += 1;
        while self.rows.len() <= self.r {
            self.rows.push(vec![]);
        }
    }
    fn put(&mut self, ch: char) {
        if self.c >= self.w {
            self.line_feed();
            self.c = 0;
        }
        let row = &mut self.rows[self.r];
        while row.len() <= self.c {
            row.push(' ');
        }
        row[self.c] = ch;
        self.c += 1;
    }
    pub fn feed(&mut self, ops: &[TOp]) {
        for o in ops {
            match o {
                TOp::Up(n) => self.r = self.r.saturating_sub(*n).max(self.top),
                TOp::Down(n) => {
                    self.r = (self.r + *n).min(self.top + self.h - 1);
                    while self.rows.len() <= self.r {
                        self.rows.push(vec![]);
                    }
                }
                TOp::Left(n) => self.c = self.c.min(self.w - 1).saturating_sub(*n),
                TOp::Right(n) => self.c = (self.c + *n).min(self.w - 1),
                TOp::Clear => {
                    self.c = 0;
                    self.rows[self.r].clear();
                }
                TOp::Line(s) => {
                    for ch in s.chars() {
                        self.put(ch);
                    }
                    self.c = 0;
                    self.line_feed();
                }
                TOp::Str(s) => {
                    for ch in s.chars() {
                        self.put(ch);
                    }
                }
                TOp::Flush => {}
            }
        }
    }
    fn row_string(r: &[char]) -> String {
        r.iter().collect::<String>().trim_end().to_string()
    }
    /// all rows, scroll-back first, trailing blanks trimmed, trailing empty rows dropped
    pub fn rows(&mut self) -> Vec<String> {
        let mut out: Vec<String> = self.rows.iter().map(|r| Self::row_string(r)).collect();
        while out.last().map_or(false, |r| r.is_empty()) {
            out.pop();
        }
        out
    }
    pub fn visible_rows(&self) -> Vec<String> {
        (self.top..self.top + self.h)
            .map(|i| self.rows.get(i).map(|r| Self::row_string(r)).unwrap_or_default())
            .collect()
    }
    pub fn scrolled(&mut self) -> usize {
        self.top
    }
    /// absolute (row, col) of the cursor; col == w means "wrap pending"
    pub fn cursor(&mut self) -> (usize, usize) {
        (self.r, self.c)
    }
}

/// what a line of `cols` columns occupies: chunks of `w` characters; an empty line is one empty row
pub fn wrap_rows(line: &str, w: usize) -> Vec<String> {
    let cs: Vec<char> = line.chars().collect();
    if cs.is_empty() {
        return vec![String::new()];
    }
    cs.chunks(w).map(|c| c.iter().collect::<String>().trim_end().to_string()).collect()
}

// ------------------------------------------------------------------ generators
pub const LIT_ALPHABET: &[u8] = b"abcXYZ019 .:-#|[]()<>=+*/_";
pub fn gen_word(r: &mut Rng, n: usize) -> String {
    (0..n).map(|_| *r.pick(LIT_ALPHABET) as char).collect()
}
/// a text whose width clusters around multiples of the terminal width
pub fn gen_width_text(r: &mut Rng, w: usize) -> String {
    let n = match r.below(12) {
        0 => 0,
        1 => 1,
        2 => w.saturating_sub(1),
        3 => w,
        4 => w + 1,
        5 => 2 * w,
        6 => 2 * w + 1,
        7 => 3 * w + 1,
        8 => (2 * w).saturating_sub(1),
        _ => r.below(2 * w as u64 + 3) as usize,
    };
    let n = n.min(60);
    // avoid leading/trailing-only-space ambiguity for the screen oracle: end with a non-space
    let mut s = gen_word(r, n);
    if s.ends_with(' ') {
        s.pop();
        s.push('x');
    }
    s
}
/// a message/log text: possibly several lines, empty lines, leading/trailing newline
pub fn gen_multiline(r: &mut Rng, w: usize) -> String {
    let k = match r.below(10) {
        0..=5 => 1,
        6..=7 => 2,
        8 => 3,
        _ => 0,
    };
    let mut parts: Vec<String> = (0..k).map(|_| gen_width_text(r, w)).collect();
    if r.chance(1, 8) {
        parts.insert(0, String::new());
    }
    if r.chance(1, 8) {
        parts.push(String::new());
    }
    parts.join("\n")
}
pub fn gen_tmpl(r: &mut Rng, w: usize) -> Vec<TPart> {
    let mut t = vec![];
    let n = r.range(1, 6);
    for _ in 0..n {
        t.push(match r.below(12) {
            0..=2 => TPart::Msg,
            3 => TPart::Prefix,
            4..=5 => TPart::Pos,
            6 => TPart::Len,
            7 => TPart::Spinner,
            8..=9 => {
                let k = r.below(w as u64 + 2) as usize;
                TPart::Lit(gen_word(r, k.max(1)))
            }
            _ => TPart::NewLine,
        });
    }
    t
}
pub fn gen_fin(r: &mut Rng, w: usize) -> Fin {
    match r.below(5) {
        0 => Fin::AndLeave,
        1 => Fin::WithMessage(gen_multiline(r, w)),
        2 => Fin::AndClear,
        3 => Fin::Abandon,
        _ => Fin::AbandonWithMessage(gen_multiline(r, w)),
    }
}
pub fn gen_u64(r: &mut Rng) -> u64 {
    match r.below(8) {
        0 => 0,
        1 => 1,
        2 => u64::MAX,
        3 => r.next(),
        _ => r.below(120),
    }
}
/// time gaps: mostly small, clustered at the limiter intervals
pub fn gen_gap(r: &mut Rng) -> u64 {
    *r.pick(&[
        0u64,
        0,
        1,
        999_999,
        1_000_000,
        1_000_001,
        5_000_000,
        49_999_999,
        50_000_000,
        50_000_001,
        100_000_000,
        1_000_000_000,
        3_600_000_000_000,
    ])
}

/// lines written by the closure passed to suspend: any complete lines, EMPTY ones included (also as
/// the first line: an empty first line written while the cursor is wrap-pending after a text-only
/// draw only resolves the pending wrap - open finding 'empty-line-after-text-only-draw-swallowed',
/// Coq: C01_empty_line_swallowed_refuted; the oracles classify it)
pub fn gen_suspend_lines(r: &mut Rng, w: usize) -> Vec<String> {
    let k = r.below(4) as usize;
    (0..k)
        .map(|_| {
            if r.chance(1, 4) {
                String::new()
            } else {
                gen_width_text(r, w)
            }
        })
        .collect()
}

// ------------------------------------------------------------------ multi-bar history generator
#[derive(Clone, Debug)]
pub struct GenCfg {
    pub max_bars: usize,
    pub max_ops: usize,
    /// refresh limiter of the MultiProgress target (None = every draw is painted)
    pub hz: Option<u8>,
    pub widths: Vec<u16>,
    pub heights: Vec<u16>,
    /// weights (out of 100) of op groups
    pub w_log: u64,
    pub w_finish: u64,
    pub w_struct: u64,
    /// bursts of updates with zero time gap (exhausts the limiters)
    pub bursts: bool,
    pub bottom: bool,
}

impl GenCfg {
    pub fn default_multi() -> Self {
        GenCfg {
            max_bars: 5,
            max_ops: 30,
            hz: None,
            widths: vec![1, 2, 3, 5, 8, 12, 40],
            heights: vec![60, 200],
            w_log: 15,
            w_finish: 15,
            w_struct: 20,
            bursts: false,
            bottom: true,
        }
    }
}

/// A history over one MultiProgress on the terminal; bars start detached (hidden) and are added.
pub fn gen_multi_case(r: &mut Rng, cfg: &GenCfg) -> Case {
    let w = *r.pick(&cfg.widths);
    let h = *r.pick(&cfg.heights);
    let wu = w as usize;
    let nb = r.range(1, cfg.max_bars as u64) as usize;
    // short single/two line templates so that several bars fit
    let bars: Vec<BarInit> = (0..nb)
        .map(|i| BarInit {
            len: if r.chance(1, 4) { None } else { Some(r.below(30)) },
            fin: gen_fin_short(r, wu),
            tmpl: gen_small_tmpl(r, wu, i),
            target: TInit::Hidden,
        })
        .collect();
    #[derive(Clone, Copy, PartialEq)]
    enum St {
        Detached,
        Member,
        Removed,
        Dropped,
    }
    let mut st = vec![St::Detached; nb];
    let mut t = 0u64;
    let mut ops: Vec<(u64, Op)> = vec![];
    let n = r.range(3, cfg.max_ops as u64) as usize;
    // a few cases per hundred also add / insert a bar that IS a member at that moment (documented as
    // "no effect"; fix bee77c9, class member-added-twice-leaves-ghost-slot before it)
    let readd = r.chance(1, 20);
    let mut burst_left = 0;
    for _ in 0..n {
        if burst_left > 0 {
            burst_left -= 1;
        } else {
            t += if cfg.bursts && r.chance(1, 2) { *r.pick(&[0u64, 1, 1000]) } else { gen_gap(r).max(if cfg.bursts { 0 } else { 1_000_000 }) };
            if cfg.bursts && r.chance(1, 6) {
                burst_left = r.range(5, 30);
            }
        }
        let members: Vec<usize> = (0..nb).filter(|&i| st[i] == St::Member).collect();
        let detached: Vec<usize> = (0..nb).filter(|&i| st[i] == St::Detached).collect();
        let roll = r.below(100);
        let op = if readd && !members.is_empty() && r.chance(1, 5) {
            let b = *r.pick(&members);
            let loc = match r.below(5) {
                0 => Loc::End,
                1 => Loc::Index(r.below(members.len() as u64 + 2) as usize),
                2 => Loc::FromBack(r.below(members.len() as u64 + 2) as usize),
                3 => Loc::After(*r.pick(&members)),
                _ => Loc::Before(*r.pick(&members)),
            };
            Op::Insert(loc, b)
        } else if (members.is_empty() || (roll < cfg.w_struct && !detached.is_empty())) && !detached.is_empty() {
            let b = *r.pick(&detached);
            st[b] = St::Member;
            let loc = if members.is_empty() {
                Loc::End
            } else {
                match r.below(6) {
                    0..=1 => Loc::End,
                    2 => Loc::Index(r.below(members.len() as u64 + 2) as usize),
                    3 => Loc::FromBack(r.below(members.len() as u64 + 2) as usize),
                    4 => Loc::After(*r.pick(&members)),
                    _ => Loc::Before(*r.pick(&members)),
                }
            };
            Op::Insert(loc, b)
        } else if members.is_empty() {
            Op::MPrintln(gen_multiline(r, wu))
        } else if roll < cfg.w_struct {
            match r.below(4) {
                0 => {
                    let b = *r.pick(&members);
                    st[b] = St::Removed;
                    Op::Remove(b)
                }
                1 if cfg.bottom => Op::SetAlign(r.chance(1, 2)),
                _ => {
                    let b = *r.pick(&members);
                    st[b] = St::Dropped;
                    Op::Drop(b)
                }
            }
        } else if roll < cfg.w_struct + cfg.w_log {
            match r.below(6) {
                0..=1 => Op::MPrintln(gen_multiline(r, wu)),
                2 => Op::Println(*r.pick(&members), gen_multiline(r, wu)),
                3 => Op::MSuspend(gen_suspend_lines(r, wu)),
                4 => Op::Suspend(*r.pick(&members), gen_suspend_lines(r, wu)),
                _ => Op::MClear,
            }
        } else if roll < cfg.w_struct + cfg.w_log + cfg.w_finish {
            let b = *r.pick(&members);
            match r.below(4) {
                0 => Op::FinishUsingStyle(b),
                1 => {
                    st[b] = St::Dropped;
                    Op::Drop(b)
                }
                _ => Op::Finish(b, gen_fin_short(r, wu)),
            }
        } else {
            let b = *r.pick(&members);
            match r.below(12) {
                0..=2 => Op::Tick(b),
                3..=5 => Op::Inc(b, r.below(5)),
                6 => Op::SetPos(b, r.below(40)),
                7..=8 => Op::SetMsg(b, gen_short_text(r, wu)),
                9 => Op::SetLen(b, r.below(40)),
                10 => Op::Reset(b),
                _ => Op::ForceDraw(b),
            }
        };
        ops.push((t, op));
    }
    // often: drop everything that is left, in a random order (C04 kept clause)
    if r.chance(1, 3) {
        let mut left: Vec<usize> = (0..nb).filter(|&i| st[i] == St::Member).collect();
        while !left.is_empty() {
            let k = r.below(left.len() as u64) as usize;
            let b = left.remove(k);
            t += 1_000_000;
            if r.chance(1, 2) {
                ops.push((t, Op::Finish(b, gen_fin_short(r, wu))));
                t += 1_000_000;
            }
            ops.push((t, Op::Drop(b)));
        }
    }
    Case {
        w,
        h,
        fail_at: vec![],
        fail_from: None,
        mp: TInit::Term(cfg.hz),
        bars,
        ops,
    }
}

pub fn gen_short_text(r: &mut Rng, w: usize) -> String {
    let n = match r.below(8) {
        0 => 0,
        1 => w,
        2 => w + 1,
        3 => w.saturating_sub(1),
        _ => r.below(w as u64 + 3) as usize,
    }
    .min(30);
    let mut s = gen_word(r, n);
    if s.ends_with(' ') {
        s.pop();
        s.push('y');
    }
    if r.chance(1, 10) {
        s.push_str("\nq");
    }
    s
}
pub fn gen_fin_short(r: &mut Rng, w: usize) -> Fin {
    match r.below(5) {
        0 => Fin::AndLeave,
        1 => Fin::WithMessage(gen_short_text(r, w)),
        2 => Fin::AndClear,
        3 => Fin::Abandon,
        _ => Fin::AbandonWithMessage(gen_short_text(r, w)),
    }
}
/// small templates that identify the bar: "<letter>{pos}" [msg] ...
pub fn gen_small_tmpl(r: &mut Rng, w: usize, i: usize) -> Vec<TPart> {
    let id = ((b'A' + i as u8) as char).to_string();
    let _ = w;
    match r.below(7) {
        0 => vec![TPart::Lit(id), TPart::Pos],
        1 => vec![TPart::Lit(id), TPart::Msg],
        2 => vec![TPart::Lit(id), TPart::Pos, TPart::Lit("/".into()), TPart::Len, TPart::Lit(" ".into()), TPart::Msg],
        3 => vec![TPart::Lit(id), TPart::Spinner, TPart::NewLine, TPart::Msg],
        4 => vec![TPart::Msg, TPart::NewLine, TPart::Lit(id), TPart::Pos],
        5 => vec![TPart::Lit(id), TPart::Prefix, TPart::Msg, TPart::Pos],
        _ => vec![TPart::Lit(id), TPart::Msg, TPart::NewLine, TPart::Lit("=".into()), TPart::Pos, TPart::NewLine],
    }
}

// ------------------------------------------------------------------ oracle-only stream: zero-width and double-width text
/// display width of the characters this stream generates (combining marks / ZWJ / variation selector: 0,
/// the CJK characters of `UW_WIDE`: 2, everything else: 1)
pub fn uw_char_width(c: char) -> usize {
    match c as u32 {
        0x300..=0x36F | 0x200D | 0xFE0F | 0x20D0..=0x20FF => 0,
        x if x >= 0x1100 => 2,
        _ => 1,
    }
}
const UW_WIDE: [char; 6] = ['進', '捗', '状', '況', '確', '認'];
const UW_ZERO: [char; 5] = ['\u{301}', '\u{308}', '\u{323}', '\u{300}', '\u{20D7}'];

/// the rows a line occupies on a terminal `w` columns wide (by DISPLAY width; zero-width characters stay in
/// the cell of their base character, also at the right edge)
pub fn uw_rows(line: &str, w: usize) -> Vec<String> {
    let mut out = vec![String::new()];
    let mut col = 0;
    for c in line.chars() {
        let cw = uw_char_width(c);
        if cw > 0 && col + cw > w {
            out.push(String::new());
            col = 0;
        }
        out.last_mut().unwrap().push(c);
        col += cw;
    }
    out.iter().map(|x| x.trim_end().to_string()).collect()
}

/// A text of display width `cols` that starts at display column `start` of a row `w` wide: ASCII letters,
/// letters with 1..3 combining marks (more chars than columns), double-width characters (fewer chars than
/// columns, never straddling a row boundary - vt100 and real terminals leave a hole there, outside every model).
pub fn gen_uw_text(r: &mut Rng, start: usize, cols: usize, w: usize, zero: bool, wide: bool) -> String {
    let mut s = String::new();
    let mut col = start;
    let end = start + cols;
    while col < end {
        let room_in_row = w - col % w;
        if wide && w >= 2 && room_in_row >= 2 && end - col >= 2 && r.chance(1, 3) {
            s.push(*r.pick(&UW_WIDE));
            col += 2;
        } else {
            s.push((b'a' + r.below(26) as u8) as char);
            col += 1;
            if zero && r.chance(1, 2) {
                for _ in 0..r.range(1, 3) {
                    s.push(*r.pick(&UW_ZERO));
                }
            }
        }
    }
    s
}

/// Oracle-only stream for the row accounting of lines whose `chars().count()` differs from their display
/// width: zero-width combining characters and double-width characters
///   - in messages / prefixes of the NON-LAST bars of a MultiProgress (one-line templates), and
///   - in the non-last lines of two- and three-line templates of a single bar,
/// with `println` (bar / MultiProgress) between the draws, executed on the implementation and judged on the
/// vt100 crate (H = 40: nothing scrolls):  after every painted call the screen is exactly
///     every log line, once, in order   ++   the current frame,
/// i.e. no redraw erased or duplicated a log line and no frame row was left behind.
/// Display widths are clustered around W (real width <= W < char count and the converse).
/// Classes: 'log-line-lost-next-to-non-unit-width-text' (the log part differs),
/// 'non-unit-width-frame-rows-miscounted' (only the region differs).  Returns the number of screen checks.
pub fn unicode_width_stream(s: &mut crate::Session, r: &mut Rng, n: usize) -> u64 {
    fn render(t: &[TPart], g: &Getters) -> Vec<String> {
        let mut all = String::new();
        for p in t {
            match p {
                TPart::Lit(l) => all.push_str(l),
                TPart::Msg => all.push_str(&g.msg),
                TPart::Prefix => all.push_str(&g.prefix),
                TPart::Pos => all.push_str(&g.pos.to_string()),
                TPart::Len => all.push_str(&g.len.unwrap_or(g.pos).to_string()),
                TPart::Spinner => {}
                TPart::NewLine => all.push('\n'),
            }
        }
        all.split('\n').map(|x| x.to_string()).collect()
    }
    let mut checks = 0u64;
    for i in 0..n {
        let w = *r.pick(&[6u16, 8, 10, 12, 22]);
        let h = 40u16;
        let wu = w as usize;
        let multi = i % 2 == 1;
        let (zero, wide) = match r.below(4) {
            0 => (true, false),
            1 => (false, true),
            _ => (true, true),
        };
        // display width of a generated text: at / around the terminal width (minus what the template adds)
        let pick_cols = |r: &mut Rng, used: usize| -> usize {
            let room = wu.saturating_sub(used);
            match r.below(6) {
                0 => room,
                1 => room.saturating_sub(1),
                2 => room.saturating_sub(2),
                3 => room + 1,
                4 => room + wu,
                _ => r.below(2 * wu as u64 + 1) as usize,
            }
        };
        let mut ops: Vec<Op> = vec![];
        let bars: Vec<BarInit>;
        // (bar, part) slots that take non-unit-width text, with the display columns the template puts before them
        let mut slots: Vec<(usize, bool, usize)> = vec![]; // (bar, is_prefix, columns before)
        if multi {
            let nb = r.range(2, 3) as usize;
            let mut bs = vec![];
            for b in 0..nb {
                let id = ((b'A' + b as u8) as char).to_string();
                let tmpl = if b + 1 == nb {
                    vec![TPart::Lit(id), TPart::Lit(" last ".into()), TPart::Pos]
                } else if r.chance(1, 2) {
                    slots.push((b, false, 1));
                    vec![TPart::Lit(id), TPart::Msg]
                } else {
                    slots.push((b, true, 0));
                    vec![TPart::Prefix, TPart::Lit(id)]
                };
                bs.push(BarInit { len: Some(9), fin: Fin::AndLeave, tmpl, target: TInit::Hidden });
            }
            for b in 0..nb {
                ops.push(Op::Insert(Loc::End, b));
            }
            for b in 0..nb {
                ops.push(Op::Tick(b));
            }
            bars = bs;
        } else {
            let tmpl = match r.below(3) {
                0 => {
                    slots.push((0, false, 0));
                    vec![TPart::Msg, TPart::NewLine, TPart::Pos, TPart::Lit("/".into()), TPart::Len]
                }
                1 => {
                    slots.push((0, true, 0));
                    slots.push((0, false, 0));
                    vec![TPart::Prefix, TPart::NewLine, TPart::Msg, TPart::NewLine, TPart::Lit("row ".into()), TPart::Pos]
                }
                _ => {
                    slots.push((0, false, 2));
                    vec![TPart::Lit("> ".into()), TPart::Msg, TPart::NewLine, TPart::Lit("=".into()), TPart::Pos]
                }
            };
            bars = vec![BarInit { len: Some(9), fin: Fin::AndLeave, tmpl, target: TInit::Term(None) }];
            ops.push(Op::Tick(0));
        }
        let nb = bars.len();
        let setup = ops.len();
        let nops = r.range(4, 10);
        let mut logn = 0;
        for _ in 0..nops {
            let (b, is_prefix, used) = *r.pick(&slots);
            ops.push(match r.below(9) {
                0..=3 => {
                    let k = pick_cols(r, used);
                    let t = gen_uw_text(r, used % wu, k, wu, zero, wide);
                    if is_prefix {
                        Op::SetPrefix(b, t)
                    } else {
                        Op::SetMsg(b, t)
                    }
                }
                4..=5 => {
                    logn += 1;
                    let mut line = format!("log{logn}");
                    if r.chance(1, 3) {
                        let k = pick_cols(r, line.len());
                        line.push_str(&gen_uw_text(r, line.len() % wu, k, wu, zero, wide));
                    }
                    if multi && r.chance(1, 2) {
                        Op::MPrintln(line)
                    } else {
                        Op::Println(r.below(nb as u64) as usize, line)
                    }
                }
                6 => Op::Tick(r.below(nb as u64) as usize),
                7 => Op::Inc(r.below(nb as u64) as usize, 1),
                _ => Op::ForceDraw(r.below(nb as u64) as usize),
            });
        }
        let case = Case {
            w,
            h,
            fail_at: vec![],
            fail_from: None,
            mp: if multi { TInit::Term(None) } else { TInit::Hidden },
            bars,
            ops: ops.into_iter().enumerate().map(|(j, o)| ((j as u64 + 1) * 1_000_000_000, o)).collect(),
        };
        let obs = run_case(&case);
        let desc = format!("NON-UNIT-WIDTH {}", describe(&case));
        let mut vt = Vt100::new(w, h);
        let mut log: Vec<String> = vec![];
        let mut bad: Option<(&'static str, String)> = None;
        for (j, ((_, op), o)) in case.ops.iter().zip(obs.iter()).enumerate() {
            if let Some(p) = &o.panic {
                bad = Some(("panic", format!("panic: {p}")));
                break;
            }
            match op {
                Op::Println(_, m) | Op::MPrintln(m) => log.push(m.clone()),
                _ => {}
            }
            let fed = {
                let v = &mut vt;
                catch(|| v.feed(&o.emitted)).is_ok()
            };
            if !fed {
                break; // the vt100 crate itself gave up: no reference
            }
            if j + 1 < setup || !o.emitted.iter().any(|x| *x == TOp::Flush) {
                continue;
            }
            let log_rows: Vec<String> = log.iter().flat_map(|l| uw_rows(l, wu)).collect();
            let mut want = log_rows.clone();
            for (b, g) in o.getters.iter().enumerate() {
                if let Some(g) = g {
                    for l in render(&case.bars[b].tmpl, g) {
                        want.extend(uw_rows(&l, wu));
                    }
                }
            }
            while want.last().map_or(false, |x| x.is_empty()) {
                want.pop();
            }
            let mut got = vt.visible_rows();
            while got.last().map_or(false, |x| x.is_empty()) {
                got.pop();
            }
            checks += 1;
            s.count("non_unit_width_screen_checks");
            if got != want {
                let log_ok = got.len() >= log_rows.len() && got[..log_rows.len()] == log_rows[..];
                bad = Some((
                    if log_ok { "non-unit-width-frame-rows-miscounted" } else { "log-line-lost-next-to-non-unit-width-text" },
                    format!(
                        "after op #{j} {:?}: the screen shows {:?} but the log lines (each once, in order) followed by the frame are {:?}",
                        op, got, want
                    ),
                ));
                break;
            }
        }
        s.count(&format!("non_unit_width:{}:{}{}", if multi { "multi" } else { "single" }, if zero { "zero-width " } else { "" }, if wide { "double-width" } else { "" }));
        if let Some((class, d)) = bad {
            s.fail(class, d, desc.clone());
        }
        s.oracle_only(desc, true);
    }
    checks
}

// ------------------------------------------------------------------ fixed witnesses of the OPEN findings
/// One minimal fixed history per open finding of known_findings.json that the shared screen oracle
/// classifies, so that every quick run of a property that lists the finding exhibits it at every seed
/// (`which`: "D22", "D17", "D28").  The model (Sys.v) follows the code on all of them: the cases are
/// ordinary correspondence cases.
///  - D22 `bottom-alignment-kept-rows-misplaced` (Coq: C02_kept_bottom_D22_refuted): Bottom alignment, a, b, c
///    drawn; b.finish_and_clear() (one padding row on top of the region); a.finish(); drop(a): the reap keeps
///    the blank padding row instead of a's final row; c.tick() shows it.
///  - D17 `finished-bar-reaped-behind-the-cut` (Coq: C19_D17_reaped_behind_cut_witness): 3x2 terminal, a frame
///    taller than the terminal, finished + dropped bars behind the height cut are reaped unpainted.
///  - D28 `empty-line-after-text-only-draw-swallowed` (Coq: C01_empty_line_swallowed_refuted): finish_and_clear;
///    println (text-only draw, cursor wrap-pending); suspend whose closure writes an EMPTY first line; println.
pub fn finding_witnesses(which: &[&str]) -> Vec<Case> {
    let timed = |ops: Vec<Op>| -> Vec<(u64, Op)> {
        ops.into_iter().enumerate().map(|(i, o)| ((i as u64 + 1) * 1_000_000_000, o)).collect()
    };
    let hb = |tmpl: Vec<TPart>, len| BarInit { len, fin: Fin::AndLeave, tmpl, target: TInit::Hidden };
    let one = |x: &str| vec![TPart::Lit(x.into())];
    let mut out = vec![];
    if which.contains(&"D22") {
        let b = |c: &str| hb(vec![TPart::Lit(c.into()), TPart::Pos], Some(10));
        out.push(Case {
            w: 4,
            h: 10,
            fail_at: vec![],
            fail_from: None,
            mp: TInit::Term(None),
            bars: vec![b("A"), b("B"), b("C")],
            ops: timed(vec![
                Op::SetAlign(true),
                Op::Insert(Loc::End, 0),
                Op::Insert(Loc::End, 1),
                Op::Insert(Loc::End, 2),
                Op::Tick(0),
                Op::Tick(1),
                Op::Tick(2),
                Op::Finish(1, Fin::AndClear),
                Op::Finish(0, Fin::AndLeave),
                Op::Drop(0),
                Op::Tick(2),
            ]),
        });
    }
    if which.contains(&"D17") {
        out.push(Case {
            w: 3,
            h: 2,
            fail_at: vec![],
            fail_from: None,
            mp: TInit::Term(None),
            bars: vec![
                hb(one("Z"), None),
                hb(vec![TPart::Lit("P".into()), TPart::NewLine, TPart::Lit("p".into())], None),
                hb(one("Q"), None),
                hb(one("R"), None),
            ],
            ops: timed(vec![
                Op::Insert(Loc::End, 0),
                Op::Insert(Loc::End, 1),
                Op::Insert(Loc::End, 2),
                Op::Insert(Loc::End, 3),
                Op::Tick(0),
                Op::Tick(1),
                Op::Tick(2),
                Op::Tick(3),
                Op::Drop(1),
                Op::Drop(2),
                Op::Remove(0),
                Op::Tick(3),
                Op::Tick(3),
            ]),
        });
    }
    if which.contains(&"D28") {
        out.push(Case {
            w: 5,
            h: 10,
            fail_at: vec![],
            fail_from: None,
            mp: TInit::Hidden,
            bars: vec![BarInit {
                len: Some(3),
                fin: Fin::AndLeave,
                tmpl: vec![TPart::Msg, TPart::NewLine, TPart::Pos, TPart::Lit("/".into()), TPart::Len],
                target: TInit::Term(None),
            }],
            ops: timed(vec![
                Op::Finish(0, Fin::AndClear),
                Op::Println(0, "hello".into()),
                Op::Suspend(0, vec!["".into()]),
                Op::Println(0, "after".into()),
            ]),
        });
    }
    out
}
