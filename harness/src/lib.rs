//! Shared plumbing of the correspondence / oracle harness.
//!
//! Every property has a binary `src/bin/cXX.rs` that
//!   1. generates cases from one PRNG state (`--seed`), the corpus first,
//!   2. runs the real implementation (path dependency on /repo, built with
//!      `--cfg indicatif_verif`, i.e. with the mock clock) on each case,
//!   3. evaluates the property oracle on the implementation's outputs,
//!   4. writes `cases_<k>.v` files in which Coq compares the model with the
//!      observed outputs (`Eval vm_compute in mismatches ...`), a text file with
//!      one replayable description per case, and `report.json`.
//! The python driver (`/verif/check`) runs coqc on the shards and decides.

use std::fmt::Write as _;
use std::io::Write as _;
use std::path::PathBuf;
use std::sync::{Arc, Mutex};

pub mod spy;
pub mod sysrun;
pub mod sysoracle;

// ---------------------------------------------------------------- PRNG
#[derive(Clone)]
pub struct Rng(pub u64);

impl Rng {
    pub fn new(seed: u64) -> Self {
        Rng(seed.wrapping_mul(0x9E37_79B9_7F4A_7C15) ^ 0xD1B5_4A32_D192_ED03)
    }
    pub fn next(&mut self) -> u64 {
        // splitmix64
        self.0 = self.0.wrapping_add(0x9E37_79B9_7F4A_7C15);
        let mut z = self.0;
        z = (z ^ (z >> 30)).wrapping_mul(0xBF58_476D_1CE4_E5B9);
        z = (z ^ (z >> 27)).wrapping_mul(0x94D0_49BB_1331_11EB);
        z ^ (z >> 31)
    }
    pub fn below(&mut self, n: u64) -> u64 {
        if n == 0 {
            0
        } else {
            self.next() % n
        }
    }
    pub fn range(&mut self, lo: u64, hi: u64) -> u64 {
        lo + self.below(hi - lo + 1)
    }
    pub fn chance(&mut self, num: u64, den: u64) -> bool {
        self.below(den) < num
    }
    pub fn pick<'a, T>(&mut self, xs: &'a [T]) -> &'a T {
        &xs[self.below(xs.len() as u64) as usize]
    }
    pub fn fork(&mut self) -> Rng {
        Rng(self.next())
    }
}

// ---------------------------------------------------------------- CLI
pub struct Args {
    pub seed: u64,
    pub thorough: bool,
    pub out: PathBuf,
    pub replay: Option<PathBuf>,
    pub extended: bool,
}

pub fn args() -> Args {
    let mut a = Args {
        seed: 1,
        thorough: false,
        out: PathBuf::from("."),
        replay: None,
        extended: false,
    };
    let mut it = std::env::args().skip(1);
    while let Some(x) = it.next() {
        match x.as_str() {
            "--seed" => a.seed = it.next().unwrap().parse().unwrap(),
            "--tier" => a.thorough = it.next().unwrap() == "thorough",
            "--out" => a.out = PathBuf::from(it.next().unwrap()),
            "--replay" => a.replay = Some(PathBuf::from(it.next().unwrap())),
            "--extended" => a.extended = true,
            _ => panic!("unknown argument {x}"),
        }
    }
    std::fs::create_dir_all(&a.out).unwrap();
    a
}

// ---------------------------------------------------------------- Coq syntax helpers
pub fn cn(n: u128) -> String {
    format!("{n}")
}
pub fn cbool(b: bool) -> &'static str {
    if b {
        "true"
    } else {
        "false"
    }
}
pub fn copt(o: Option<String>) -> String {
    match o {
        Some(s) => format!("(Some {s})"),
        None => "None".to_string(),
    }
}
pub fn clist<I: IntoIterator<Item = String>>(xs: I) -> String {
    let v: Vec<String> = xs.into_iter().collect();
    format!("[{}]", v.join("; "))
}
/// A Rust string as a Coq `list N` of Unicode scalar values.
pub fn cstr(s: &str) -> String {
    clist(s.chars().map(|c| format!("{}", c as u32)))
}
/// A Rust string as a Coq `list N` of UTF-8 bytes.
pub fn cbytes(s: &str) -> String {
    clist(s.bytes().map(|c| format!("{c}")))
}

// ---------------------------------------------------------------- JSON (write only)
pub fn jstr(s: &str) -> String {
    let mut o = String::from("\"");
    for c in s.chars() {
        match c {
            '"' => o.push_str("\\\""),
            '\\' => o.push_str("\\\\"),
            '\n' => o.push_str("\\n"),
            '\r' => o.push_str("\\r"),
            '\t' => o.push_str("\\t"),
            c if (c as u32) < 0x20 || c == '\u{7f}' => {
                let _ = write!(o, "\\u{:04x}", c as u32);
            }
            c => o.push(c),
        }
    }
    o.push('"');
    o
}

/// A violation of the property found by the direct oracle on the implementation.
pub struct Failure {
    /// short machine-matchable class (compared with known_findings.json `class`)
    pub class: String,
    /// what failed, human readable
    pub detail: String,
    /// the replayable case (same text as in cases_<k>.txt)
    pub case: String,
}

/// Collects cases, shards them into Coq files, writes report.json.
pub struct Session {
    pub out: PathBuf,
    pub prop: String,
    pub seed: u64,
    pub thorough: bool,
    /// Coq header of every shard: Require lines + `Definition chk := ...`
    pub header: String,
    /// the Coq type of one case, e.g. "(option N * list pop * (N * option N * bool))%type"
    pub case_ty: String,
    /// the Coq checker function name : case_ty -> bool
    pub checker: String,
    pub shard_size: usize,
    cur: Vec<(String, String)>, // (coq term, description)
    shards: Vec<String>,
    pub evaluations: u64,
    pub distinct: std::collections::HashSet<u64>,
    pub rule: String,
    pub samples: Vec<String>,
    pub dist: std::collections::BTreeMap<String, u64>,
    pub failures: Vec<Failure>,
    pub notes: Vec<String>,
}

impl Session {
    pub fn new(a: &Args, prop: &str, header: &str, case_ty: &str, checker: &str) -> Self {
        Session {
            out: a.out.clone(),
            prop: prop.to_string(),
            seed: a.seed,
            thorough: a.thorough,
            header: header.to_string(),
            case_ty: case_ty.to_string(),
            checker: checker.to_string(),
            shard_size: 400,
            cur: vec![],
            shards: vec![],
            evaluations: 0,
            distinct: Default::default(),
            rule: String::new(),
            samples: vec![],
            dist: Default::default(),
            failures: vec![],
            notes: vec![],
        }
    }

    pub fn count(&mut self, key: &str) {
        *self.dist.entry(key.to_string()).or_insert(0) += 1;
    }
    pub fn count_n(&mut self, key: &str, n: u64) {
        *self.dist.entry(key.to_string()).or_insert(0) += n;
    }

    /// Register one executed case. `coq` is the Coq term of type `case_ty` (inputs and the
    /// outputs observed on the implementation); `desc` is a one-line replayable description;
    /// `nontrivial` says whether the case counts as non-trivial by the session's rule.
    pub fn case(&mut self, coq: String, desc: String, nontrivial: bool) {
        self.evaluations += 1;
        if nontrivial {
            self.distinct.insert(fxhash(desc.as_bytes()));
        }
        if self.samples.len() < 5 || (self.evaluations % 997 == 0 && self.samples.len() < 12) {
            self.samples.push(desc.clone());
        }
        self.cur.push((coq, desc));
        if self.cur.len() >= self.shard_size {
            self.flush_shard();
        }
    }

    /// A case that is only evaluated by the oracle (no model comparison).
    pub fn oracle_only(&mut self, desc: String, nontrivial: bool) {
        self.evaluations += 1;
        if nontrivial {
            self.distinct.insert(fxhash(desc.as_bytes()));
        }
        if self.samples.len() < 5 {
            self.samples.push(desc);
        }
    }

    pub fn fail(&mut self, class: &str, detail: String, case: String) {
        // keep at most 25 failures PER CLASS (and 600 in all): a flood of one class - typically a
        // known finding - must never push a failure of another class out of the report
        let same = self.failures.iter().filter(|f| f.class == class).count();
        if same < 25 && self.failures.len() < 600 {
            self.failures.push(Failure {
                class: class.to_string(),
                detail,
                case,
            });
        }
        self.count(&format!("oracle_failure:{class}"));
    }

    fn flush_shard(&mut self) {
        if self.cur.is_empty() {
            return;
        }
        let k = self.shards.len();
        let name = format!("cases_{k}");
        let mut v = String::new();
        v.push_str(&self.header);
        let _ = writeln!(v, "\nDefinition cases : list {} := [", self.case_ty);
        let n = self.cur.len();
        for (i, (c, _)) in self.cur.iter().enumerate() {
            let _ = writeln!(v, "  {}{}", c, if i + 1 == n { "" } else { ";" });
        }
        let _ = writeln!(v, "].");
        let _ = writeln!(
            v,
            "Definition bad := Eval vm_compute in (mismatches {} cases).",
            self.checker
        );
        let _ = writeln!(v, "Print bad.");
        std::fs::write(self.out.join(format!("{name}.v")), v).unwrap();
        let mut t = std::fs::File::create(self.out.join(format!("{name}.txt"))).unwrap();
        for (c, d) in &self.cur {
            writeln!(t, "{}\t{}", d.replace(['\n', '\t'], " "), c.replace('\n', " ")).unwrap();
        }
        self.shards.push(name);
        self.cur.clear();
    }

    pub fn finish(mut self) {
        self.flush_shard();
        let mut j = String::from("{\n");
        let _ = writeln!(j, " \"property\": {},", jstr(&self.prop));
        let _ = writeln!(j, " \"seed\": {},", self.seed);
        let _ = writeln!(j, " \"tier\": {},", jstr(if self.thorough { "thorough" } else { "quick" }));
        let _ = writeln!(j, " \"evaluations\": {},", self.evaluations);
        let _ = writeln!(j, " \"distinct_nontrivial\": {},", self.distinct.len());
        let _ = writeln!(j, " \"rule\": {},", jstr(&self.rule));
        let _ = writeln!(
            j,
            " \"samples\": [{}],",
            self.samples.iter().map(|s| jstr(s)).collect::<Vec<_>>().join(", ")
        );
        let _ = writeln!(
            j,
            " \"distribution\": {{{}}},",
            self.dist
                .iter()
                .map(|(k, v)| format!("{}: {}", jstr(k), v))
                .collect::<Vec<_>>()
                .join(", ")
        );
        let _ = writeln!(
            j,
            " \"notes\": [{}],",
            self.notes.iter().map(|s| jstr(s)).collect::<Vec<_>>().join(", ")
        );
        let _ = writeln!(
            j,
            " \"shards\": [{}],",
            self.shards.iter().map(|s| jstr(s)).collect::<Vec<_>>().join(", ")
        );
        let _ = writeln!(
            j,
            " \"failures\": [{}]",
            self.failures
                .iter()
                .map(|f| format!(
                    "{{\"class\": {}, \"detail\": {}, \"case\": {}}}",
                    jstr(&f.class),
                    jstr(&f.detail),
                    jstr(&f.case)
                ))
                .collect::<Vec<_>>()
                .join(",\n  ")
        );
        j.push_str("}\n");
        std::fs::write(self.out.join("report.json"), j).unwrap();
    }
}

pub fn fxhash(b: &[u8]) -> u64 {
    let mut h: u64 = 0xcbf29ce484222325;
    for &x in b {
        h ^= x as u64;
        h = h.wrapping_mul(0x100000001b3);
    }
    h
}

thread_local! { static IN_CATCH: std::cell::Cell<u32> = std::cell::Cell::new(0); }

/// Run `f`, turning a panic into `Err(message)`.  Panics inside `catch` are silent; a panic of the
/// harness itself (outside `catch`) is still printed.
pub fn catch<R>(f: impl FnOnce() -> R) -> Result<R, String> {
    static ONCE: std::sync::Once = std::sync::Once::new();
    ONCE.call_once(|| {
        let default = std::panic::take_hook();
        std::panic::set_hook(Box::new(move |info| {
            if IN_CATCH.with(|c| c.get()) == 0 && std::thread::current().name() == Some("main") {
                default(info);
            }
        }))
    });
    IN_CATCH.with(|c| c.set(c.get() + 1));
    let r = std::panic::catch_unwind(std::panic::AssertUnwindSafe(f));
    IN_CATCH.with(|c| c.set(c.get() - 1));
    r.map_err(|e| {
        if let Some(s) = e.downcast_ref::<&str>() {
            s.to_string()
        } else if let Some(s) = e.downcast_ref::<String>() {
            s.clone()
        } else {
            "panic".to_string()
        }
    })
}

pub type Shared<T> = Arc<Mutex<T>>;
pub fn shared<T>(t: T) -> Shared<T> {
    Arc::new(Mutex::new(t))
}
