//! Static audit of index / arithmetic sites for C18 (included by src/bin/c18.rs).
//!
//! Second audit m8 + seeded defect C18-5 (`RateLimiter::refund`: `self.capacity += 1` on a u8):
//! the `psite` inventory of coq/model/SysPanic.v and the limiter panic sites of
//! coq/model/Limiter.v are MANUAL transcriptions.  This scan makes every Vec/slice index and every
//! unchecked arithmetic operator (`+ - * / % << += -= *= /= %=`) in EVERY function body of the four
//! files whose code runs on a draw path visible: each such line (outside the test modules and
//! outside function signatures) must be in the audited list below, with the theorem that covers it
//! or the reason it cannot panic.  A new or changed line fails with class
//! `unaudited-index-or-arith-site`.  Textual (no type information), like the unwrap scan in c18.rs:
//! method calls (`checked_*`, `saturating_*`, `fetch_add`, ...) and casts are not patterns;
//! `.unwrap()` / `.expect(` / `assert*!` are covered by the unwrap scan.
use verif_harness::Session;

const FILES: &[&str] = &["draw_target.rs", "multi.rs", "state.rs", "progress_bar.rs"];

/// (file, whitespace-normalised code line, verdict)
const AUDITED_IDX_ARITH: &[(&str, &str, &str)] = &[
    // ---- RateLimiter (draw_target.rs): model coq/model/Limiter.v rl_new / rl_allow, theorem C05_no_panic
    ("draw_target.rs", "interval: (1_000_000_000 + (rate as u32) - 1) / (rate as u32),", "RateLimiter::new: u32, rate in 1..=255 => numerator < 2^32, divisor > 0 (Limiter.rl_interval_of); rate = 0 is the documented panic of ProgressDrawTarget::term(_, 0) - outside every history (C05_no_panic hypothesis 1 <= R <= 255)"),
    ("draw_target.rs", "let elapsed = now - self.prev;", "RateLimiter::allow: Instant - Instant after the early return `now < self.prev` (Limiter.rl_allow line 465)"),
    ("draw_target.rs", "elapsed.as_nanos() / self.interval as u128,", "RateLimiter::allow: interval >= 3_921_569 > 0 for rate in 1..=255 (C05_rl_normal_form: rl_interval s = rl_interval_of R)"),
    ("draw_target.rs", "elapsed.as_nanos() % self.interval as u128,", "as the line above"),
    ("draw_target.rs", "self.capacity = (Ord::min(MAX_BURST as u128, (self.capacity as u128) + new) - 1) as u8;", "RateLimiter::allow: Limiter.rl_allow `Panic 1` (the `- 1`), u128 sum cannot overflow, result <= 19 fits u8: C05_no_panic"),
    // ---- DrawState::draw_to_term, VisualLines, LineType (draw_target.rs): model coq/model/SysPanic.v
    ("draw_target.rs", "if i + 1 != n {", "total: i < n"),
    ("draw_target.rs", "MultiProgressAlignment::Bottom if full_height < *bar_count => *bar_count - full_height,", "psite P_dt_shift_sub: C18_no_panic_reachable"),
    ("draw_target.rs", "for _ in 0..shift.as_usize() - usize::from(full_screen_padding) {", "psite P_dt_pad_sub (fix 881c313): C18_no_panic_reachable"),
    ("draw_target.rs", "real_height += line_height;", "psite P_dt_real_add: C18_no_panic_reachable"),
    ("draw_target.rs", "if idx + 1 == self.lines.len() || (idx == 0 && line.console_width() == 0) {", "total: idx < lines.len()"),
    ("draw_target.rs", "*bar_count = real_height + shift;", "psite P_dt_count_add: C18_no_panic_reachable"),
    ("draw_target.rs", "visual_line_count(&self.lines[range], width)", "total: only ever called with the full range `..`"),
    ("draw_target.rs", "Self(self.0 + rhs.0)", "the Add impl behind P_dt_count_add"),
    ("draw_target.rs", "self.0 += rhs.0;", "the AddAssign impl behind P_dt_real_add (and, before fix f8fa07f, P_draw_adjust_add)"),
    ("draw_target.rs", "Self(self.0 - rhs.0)", "the Sub impl behind P_dt_shift_sub"),
    ("draw_target.rs", "let terminal_len = (self.console_width() as f64 / width as f64).ceil() as usize;", "f64 division, saturating cast (SysPanic.wrapped_height_rs)"),
    // ---- MultiState (multi.rs): model coq/model/SysPanic.v
    ("multi.rs", "let member = &mut self.members[index];", "psite P_mark_members_index: C18_no_panic_reachable"),
    ("multi.rs", "let member = &self.members[index];", "psite P_draw_scan_index: C18_no_panic_reachable"),
    ("multi.rs", "let member = &self.members[*index];", "psite P_draw_compose_index: C18_no_panic_reachable"),
    ("multi.rs", "draw_state.lines.extend_from_slice(&state.lines[..]);", "total: full range"),
    ("multi.rs", "self.members[idx] = MultiStateMember::default();", "psite P_insert_free_index (insert) / P_remove_members_index (remove_idx): C18_no_panic_reachable"),
    ("multi.rs", "self.members.len() - 1", "total: right after a push"),
    ("multi.rs", "self.ordering.insert(pos + 1, idx);", "total: pos < len from position(); Vec::insert panics only above len"),
    ("multi.rs", "self.members.len() - self.free_set.len()", "psite P_len_sub: C18_no_panic_reachable"),
    // ---- AtomicPosition (state.rs): model coq/model/Limiter.v ap_allow, theorem C05_no_panic
    ("state.rs", "let elapsed = (now - self.start).as_nanos() as u64;", "AtomicPosition::allow: Instant - Instant after the early return `now < self.start` (Limiter.ap_allow line 573)"),
    ("state.rs", "let (new, remainder) = ((diff / INTERVAL), (diff % INTERVAL));", "AtomicPosition::allow: INTERVAL is the non-zero constant 1_000_000"),
    ("state.rs", "capacity = (Ord::min(MAX_BURST as u128, (capacity as u128) + (new as u128)) - 1) as u8;", "AtomicPosition::allow: Limiter.ap_allow `Panic 3`: C05_no_panic"),
    ("state.rs", "self.prev.store(elapsed - remainder, Ordering::Release);", "AtomicPosition::allow: Limiter.ap_allow `Panic 4`: C05_no_panic"),
    // ---- ProgressState getters / Estimator (state.rs): rendering and estimation, properties C09 / C13
    ("state.rs", "(pos, Some(len)) => pos as f32 / len as f32,", "f32 division (C13)"),
    ("state.rs", "secs_to_duration(len.saturating_sub(pos) as f64 / sps)", "f64 division (C09/C13)"),
    ("state.rs", "self.pos() as f64 / self.started.elapsed().as_secs_f64()", "f64 division (C09)"),
    ("state.rs", "let delta_steps = new_steps - self.prev_steps;", "Estimator::record: u64, after the early return `new_steps <= self.prev_steps || now <= self.prev_time` (C09 model Estimator.v)"),
    ("state.rs", "let delta_t = duration_to_secs(now - self.prev_time);", "Instant - Instant after the same early return (`now > self.prev_time`) in record; in steps_per_second = duration_since, saturating since Rust 1.60 (C09)"),
    ("state.rs", "let new_steps_per_second = delta_steps as f64 / delta_t;", "f64 (C09)"),
    ("state.rs", "self.smoothed_steps_per_sec * weight + new_steps_per_second * (1.0 - weight);", "f64 (C09)"),
    ("state.rs", "let delta_t_start = duration_to_secs(now - self.start_time);", "Instant - Instant, saturating (C09)"),
    ("state.rs", "let total_weight = 1.0 - estimator_weight(delta_t_start);", "f64 (C09)"),
    ("state.rs", "let normalized_smoothed_steps_per_sec = self.smoothed_steps_per_sec / total_weight;", "f64 (C09)"),
    ("state.rs", "self.double_smoothed_steps_per_sec = self.double_smoothed_steps_per_sec * weight", "f64 (C09)"),
    ("state.rs", "+ normalized_smoothed_steps_per_sec * (1.0 - weight);", "f64 (C09)"),
    ("state.rs", "let sps = self.smoothed_steps_per_sec * reweight / total_weight;", "f64 (C09)"),
    ("state.rs", "let dsps = self.double_smoothed_steps_per_sec * reweight + sps * (1.0 - reweight);", "f64 (C09)"),
    ("state.rs", "dsps / total_weight", "f64 (C09)"),
    ("state.rs", "0.1_f64.powf(age / EXPONENTIAL_WEIGHTING_SECONDS)", "f64 (C09)"),
    ("state.rs", "d.as_secs() as f64 + f64::from(d.subsec_nanos()) / 1_000_000_000f64", "f64 (C09)"),
    ("state.rs", "let nanos = (s.fract() * 1_000_000_000f64) as u32;", "f64, saturating cast (C09/C13)"),
];

fn strip_strings(code: &str) -> String {
    let mut out = String::new();
    let mut in_str = false;
    let mut prev = ' ';
    for c in code.chars() {
        if c == '"' && prev != '\\' && prev != '\'' {
            in_str = !in_str;
            out.push('"');
        } else if !in_str {
            out.push(c);
        }
        prev = c;
    }
    out
}

fn has_index_or_arith(code: &str) -> bool {
    let cs: Vec<char> = code.chars().collect();
    for (i, &c) in cs.iter().enumerate() {
        if c == '[' && i > 0 {
            let p = cs[i - 1];
            if p.is_alphanumeric() || p == '_' || p == ')' || p == ']' {
                return true; // expr[..]: an index (macros have `!`, types `&`/`<`/space, attributes `#` before `[`)
            }
        }
    }
    let padded = format!(" {code} ");
    [" + ", " - ", " * ", " / ", " % ", "+=", "-=", "*=", "/=", "%=", "<<"].iter().any(|t| padded.contains(t))
}

/// name following the first `fn ` of the line, if any
fn fn_name(code: &str) -> Option<String> {
    let mut from = 0;
    while let Some(k) = code[from..].find("fn ") {
        let at = from + k;
        let boundary = at == 0 || !(code.as_bytes()[at - 1].is_ascii_alphanumeric() || code.as_bytes()[at - 1] == b'_');
        if boundary {
            let name: String = code[at + 3..].chars().take_while(|c| c.is_alphanumeric() || *c == '_').collect();
            if !name.is_empty() {
                return Some(name);
            }
        }
        from = at + 3;
    }
    None
}

/// Returns the number of failures it reported.
pub fn audit_index_arith_sites(s: &mut Session) -> usize {
    let mut bad = 0;
    let repo = std::env::var("VERIF_REPO").unwrap_or_else(|_| "/repo".into());
    let mut sites = 0;
    let mut seen = vec![false; AUDITED_IDX_ARITH.len()];
    for file in FILES {
        let src = match std::fs::read_to_string(format!("{repo}/src/{file}")) {
            Ok(x) => x,
            Err(e) => {
                s.fail("source-unreadable", format!("{file}: {e}"), format!("static index/arith audit of {file}"));
                continue;
            }
        };
        let lines: Vec<&str> = src.lines().collect();
        let end = lines.iter().position(|l| l.starts_with("mod tests") || l.starts_with("mod test ")).unwrap_or(lines.len());
        let mut depth: i64 = 0;
        let mut cur: Option<String> = None; // the function whose signature/body we are in
        let mut fn_depth: i64 = 0;
        let mut in_sig = false; // between `fn` and the opening brace of its body (type bounds use `+`)
        for i in 0..end {
            let code = strip_strings(lines[i].split("//").next().unwrap_or("").trim());
            if cur.is_none() {
                if let Some(n) = fn_name(&code) {
                    cur = Some(n);
                    in_sig = true;
                    fn_depth = depth;
                }
            }
            let was_sig = in_sig;
            for c in code.chars() {
                if c == '{' {
                    depth += 1;
                    in_sig = false;
                } else if c == '}' {
                    depth -= 1;
                }
            }
            if in_sig && code.ends_with(';') {
                in_sig = false; // a declaration without body
                cur = None;
            }
            if !was_sig && has_index_or_arith(&code) {
                sites += 1;
                let norm = code.split_whitespace().collect::<Vec<_>>().join(" ");
                let hit = AUDITED_IDX_ARITH.iter().position(|(f, t, _)| f == file && *t == norm);
                if let Some(k) = hit {
                    seen[k] = true;
                }
                if std::env::var("C18_LIST_SITES").is_ok() {
                    println!("IDXARITH {file}:{} [{}] {} `{norm}`", i + 1, cur.clone().unwrap_or_default(), if hit.is_some() { "ok" } else { "UNAUDITED" });
                }
                if hit.is_none() {
                    bad += 1;
                    s.fail(
                        "unaudited-index-or-arith-site",
                        format!(
                            "src/{file}:{} (fn {}): `{norm}` indexes a Vec/slice or uses an unchecked arithmetic operator and is not in the audited list of harness/src/c18_scan.rs: which theorem shows that it cannot panic (overflow checks on)?",
                            i + 1,
                            cur.clone().unwrap_or_else(|| "<top level>".into())
                        ),
                        format!("static index/arith audit of src/{file}:{}", i + 1),
                    );
                }
            }
            if cur.is_some() && !in_sig && depth <= fn_depth {
                cur = None;
            }
        }
    }
    // an audited line that no longer exists: the code changed under the audit (the verdict may be stale)
    for (k, (f, t, _)) in AUDITED_IDX_ARITH.iter().enumerate() {
        if !seen[k] {
            bad += 1;
            s.fail(
                "audited-arith-site-vanished",
                format!("src/{f}: the audited line `{t}` is no longer in the source: re-audit the function (and the model that transcribes it)"),
                format!("static index/arith audit of src/{f}"),
            );
        }
    }
    s.count_n("static_index_arith_sites_audited", sites);
    s.oracle_only(
        "static audit: Vec/slice index and unchecked arithmetic sites in every function body of draw_target.rs multi.rs state.rs progress_bar.rs".into(),
        true,
    );
    bad
}
