//! C06 – hidden or non-terminal targets are silent and state-equivalent.
//!
//! Four ways of being hidden are exercised on the implementation:
//!   (a) `ProgressDrawTarget::hidden()`                       (way "hidden-target")
//!   (b) `ProgressDrawTarget::term(Term, hz)` with a Term that is not a tty
//!       (console::Term::read_write_pair over a regular file descriptor and a recording writer)
//!                                                             (way "non-tty")
//!   (c) member of a MultiProgress whose own target is (a) or (b)   (way "hidden-multi")
//!   (d) bar removed from a visible MultiProgress              (way "removed")
//! plus mixed systems (hidden bars next to visible ones).  Oracle, independent of the model:
//!   * a call whose subject is hidden makes no TermLike call (the recording terminal of the
//!     targets is distinct from the one the suspend closures write to) and writes no byte,
//!   * position/length/message/prefix/is_finished after EVERY op equal those of a visible twin
//!     (same history, every hidden target replaced by a terminal),
//!   * is_hidden() is true.
//! Correspondence: the Case-expressible systems ((a), (c) with a hidden() multi, (d), mixed) are
//! compared with model/Sys.v through sys_check (emitted calls, io results, getters per op).
use indicatif::{MultiProgress, ProgressBar, ProgressDrawTarget, ProgressFinish, ProgressStyle};
use std::io::Write;
use std::os::fd::{AsRawFd, RawFd};
use std::sync::{Arc, Mutex};
use verif_harness::spy::{Spy, TOp};
use verif_harness::sysrun::*;
use verif_harness::*;

// ------------------------------------------------------------------ a writer that is not a tty
#[derive(Debug)]
struct RecW {
    file: std::fs::File,
    buf: Arc<Mutex<Vec<u8>>>,
}
impl Write for RecW {
    fn write(&mut self, b: &[u8]) -> std::io::Result<usize> {
        self.buf.lock().unwrap().extend_from_slice(b);
        Ok(b.len())
    }
    fn flush(&mut self) -> std::io::Result<()> {
        self.buf.lock().unwrap().push(0xff); // a flush is an effect too
        Ok(())
    }
}
impl AsRawFd for RecW {
    fn as_raw_fd(&self) -> RawFd {
        self.file.as_raw_fd()
    }
}
#[derive(Debug)]
struct RecR(std::fs::File);
impl std::io::Read for RecR {
    fn read(&mut self, _b: &mut [u8]) -> std::io::Result<usize> {
        Ok(0)
    }
}
impl AsRawFd for RecR {
    fn as_raw_fd(&self) -> RawFd {
        self.0.as_raw_fd()
    }
}

struct NonTty {
    path: std::path::PathBuf,
    buf: Arc<Mutex<Vec<u8>>>,
}
impl NonTty {
    fn new(out: &std::path::Path) -> Self {
        let path = out.join("c06_not_a_tty.bin");
        std::fs::write(&path, b"").unwrap();
        NonTty { path, buf: Arc::new(Mutex::new(vec![])) }
    }
    fn target(&self) -> ProgressDrawTarget {
        self.target_hz(20)
    }
    /// `ProgressDrawTarget::term(<not a tty>, hz)`; hz = 0 is documented to panic
    fn target_hz(&self, hz: u8) -> ProgressDrawTarget {
        let w = RecW { file: std::fs::OpenOptions::new().write(true).open(&self.path).unwrap(), buf: self.buf.clone() };
        let r = RecR(std::fs::File::open(&self.path).unwrap());
        let term = console::Term::read_write_pair(r, w);
        assert!(!term.is_term(), "a regular file must not be a tty");
        ProgressDrawTarget::term(term, hz)
    }
    fn written(&self) -> usize {
        self.buf.lock().unwrap().len() + std::fs::metadata(&self.path).map(|m| m.len() as usize).unwrap_or(0)
    }
}

fn fin_of(f: &Fin) -> ProgressFinish {
    match f {
        Fin::AndLeave => ProgressFinish::AndLeave,
        Fin::WithMessage(m) => ProgressFinish::WithMessage(m.clone().into()),
        Fin::AndClear => ProgressFinish::AndClear,
        Fin::Abandon => ProgressFinish::Abandon,
        Fin::AbandonWithMessage(m) => ProgressFinish::AbandonWithMessage(m.clone().into()),
    }
}
fn get(pb: &ProgressBar) -> Getters {
    Getters { pos: pb.position(), len: pb.length(), finished: pb.is_finished(), msg: pb.message(), prefix: pb.prefix() }
}
fn all_getters(r: &Running) -> Vec<Option<Getters>> {
    r.bars.iter().map(|b| b.as_ref().map(get)).collect()
}

// ------------------------------------------------------------------ generator
#[derive(Clone, Copy, PartialEq, Debug)]
enum Way {
    HiddenTarget,
    HiddenMulti,
    Removed,
    Mixed,
}

/// A history over `nb` bars; structural validity (insert references are members, no op on a
/// dropped handle) is tracked here.  Every op of sysrun::Op occurs.
fn gen_case(r: &mut Rng, way: Way) -> Case {
    let w = *r.pick(&[1u16, 3, 8, 20, 80]);
    let wu = w as usize;
    let nb = r.range(1, 3) as usize;
    let mp = match way {
        Way::HiddenTarget | Way::HiddenMulti => TInit::Hidden,
        Way::Removed => TInit::Term(*r.pick(&[None, Some(20u8)])),
        Way::Mixed => *r.pick(&[TInit::Hidden, TInit::Term(None), TInit::Term(Some(20))]),
    };
    let bars: Vec<BarInit> = (0..nb)
        .map(|i| BarInit {
            len: if r.chance(1, 4) { None } else { Some(gen_u64(r)) },
            fin: gen_fin_short(r, wu),
            tmpl: gen_small_tmpl(r, wu, i),
            target: match way {
                Way::Mixed => *r.pick(&[TInit::Hidden, TInit::Hidden, TInit::Term(None), TInit::Term(Some(20))]),
                _ => TInit::Hidden,
            },
        })
        .collect();
    #[derive(Clone, Copy, PartialEq)]
    enum St {
        Detached,
        Member,
        Dropped,
    }
    let mut st = vec![St::Detached; nb];
    let mut ops: Vec<(u64, Op)> = vec![];
    let mut t = 0u64;
    if matches!(way, Way::HiddenMulti | Way::Removed) {
        for b in 0..nb {
            let members: Vec<usize> = (0..nb).filter(|&i| st[i] == St::Member).collect();
            let loc = if members.is_empty() {
                Loc::End
            } else {
                match r.below(5) {
                    0 => Loc::End,
                    1 => Loc::Index(r.below(3) as usize),
                    2 => Loc::FromBack(r.below(3) as usize),
                    3 => Loc::After(*r.pick(&members)),
                    _ => Loc::Before(*r.pick(&members)),
                }
            };
            ops.push((t, Op::Insert(loc, b)));
            st[b] = St::Member;
        }
    }
    if way == Way::Removed {
        // some ordinary traffic first, then the removal
        for _ in 0..r.below(4) {
            t += gen_gap(r);
            let b = r.below(nb as u64) as usize;
            ops.push((t, r.pick(&[Op::Tick(b), Op::Inc(b, 1), Op::ForceDraw(b)]).clone()));
        }
        let b = r.below(nb as u64) as usize;
        t += gen_gap(r);
        ops.push((t, Op::Remove(b)));
        st[b] = St::Detached;
    }
    let n = r.range(5, 28);
    for _ in 0..n {
        t += if r.chance(1, 3) { 0 } else { gen_gap(r) };
        let alive: Vec<usize> = (0..nb).filter(|&i| st[i] != St::Dropped).collect();
        if alive.is_empty() {
            ops.push((t, Op::MPrintln(gen_short_text(r, wu))));
            continue;
        }
        let b = *r.pick(&alive);
        let members: Vec<usize> = (0..nb).filter(|&i| st[i] == St::Member && i != b).collect();
        let op = match r.below(34) {
            0..=2 => Op::Tick(b),
            3..=5 => Op::Inc(b, gen_u64(r)),
            6 => Op::Dec(b, gen_u64(r)),
            7..=8 => Op::SetPos(b, gen_u64(r)),
            9 => Op::SetLen(b, gen_u64(r)),
            10 => Op::IncLen(b, gen_u64(r)),
            11 => Op::DecLen(b, gen_u64(r)),
            12 => Op::UnsetLen(b),
            13..=14 => Op::SetMsg(b, gen_short_text(r, wu)),
            15 => Op::SetPrefix(b, gen_short_text(r, wu)),
            16 => Op::SetStyle(b, gen_small_tmpl(r, wu, b)),
            17..=18 => Op::Println(b, gen_multiline(r, wu)),
            19 => Op::Suspend(b, gen_suspend_lines(r, wu)),
            20 => Op::Reset(b),
            21 => r.pick(&[Op::ResetEta(b), Op::ResetElapsed(b)]).clone(),
            22..=23 => Op::Finish(b, gen_fin_short(r, wu)),
            24 => Op::FinishUsingStyle(b),
            25 => Op::ForceDraw(b),
            26 => Op::SetTabWidth(b),
            27 => {
                st[b] = St::Dropped;
                Op::Drop(b)
            }
            28 if way != Way::HiddenTarget && st[b] == St::Detached => {
                st[b] = St::Member;
                let loc = if members.is_empty() {
                    Loc::End
                } else {
                    match r.below(5) {
                        0 => Loc::End,
                        1 => Loc::Index(r.below(3) as usize),
                        2 => Loc::FromBack(r.below(3) as usize),
                        3 => Loc::After(*r.pick(&members)),
                        _ => Loc::Before(*r.pick(&members)),
                    }
                };
                Op::Insert(loc, b)
            }
            29 if st[b] == St::Member => {
                st[b] = St::Detached;
                Op::Remove(b)
            }
            30 => Op::MPrintln(gen_multiline(r, wu)),
            31 => Op::MSuspend(gen_suspend_lines(r, wu)),
            32 => Op::MClear,
            33 => Op::SetAlign(r.chance(1, 2)),
            _ => Op::Tick(b),
        };
        ops.push((t, op));
    }
    Case { w, h: *r.pick(&[2u16, 5, 40]), fail_at: vec![], fail_from: None, mp, bars, ops }
}

/// the visible twin: every hidden target replaced by an unlimited terminal target
fn twin_of(c: &Case) -> Case {
    let mut t = c.clone();
    if t.mp == TInit::Hidden {
        t.mp = TInit::Term(None);
    }
    for b in t.bars.iter_mut() {
        if b.target == TInit::Hidden {
            b.target = TInit::Term(None);
        }
    }
    t
}

fn closure_lines(op: &Op) -> Vec<TOp> {
    match op {
        Op::Suspend(_, ws) | Op::MSuspend(ws) => ws.iter().map(|w| TOp::Line(w.clone())).collect(),
        _ => vec![],
    }
}

/// which bars cannot draw, tracked from the public API semantics only
struct HiddenTracker {
    mp_hidden: bool,
    bar_hidden: Vec<bool>,
    member: Vec<bool>,
}
impl HiddenTracker {
    fn new(c: &Case) -> Self {
        HiddenTracker {
            mp_hidden: c.mp == TInit::Hidden,
            bar_hidden: c.bars.iter().map(|b| b.target == TInit::Hidden).collect(),
            member: vec![false; c.bars.len()],
        }
    }
    fn subject_hidden(&self, op: &Op) -> bool {
        match op.bar() {
            Some(b) => self.bar_hidden[b],
            None => self.mp_hidden,
        }
    }
    fn after(&mut self, op: &Op) {
        match op {
            Op::Insert(_, b) => {
                self.member[*b] = true;
                self.bar_hidden[*b] = self.mp_hidden;
            }
            Op::Remove(b) if self.member[*b] => {
                self.member[*b] = false;
                self.bar_hidden[*b] = true;
            }
            _ => {}
        }
    }
}

fn way_name(w: Way) -> &'static str {
    match w {
        Way::HiddenTarget => "hidden-target",
        Way::HiddenMulti => "hidden-multi",
        Way::Removed => "removed",
        Way::Mixed => "mixed",
    }
}

/// Runs `case.ops` on hand-built objects (targets that a Case cannot express) and returns the
/// getters after every op, the TermLike calls seen by `target_spy` per op, and panics.
fn run_manual(
    case: &Case,
    mk_bar_target: &dyn Fn(usize) -> ProgressDrawTarget,
    mp_target: ProgressDrawTarget,
    closure_spy: &Spy,
    expect_hidden: bool,
) -> Result<Vec<Vec<Option<Getters>>>, String> {
    indicatif::verif_clock::set_auto_step_ns(0);
    indicatif::verif_clock::set_clock_ns(indicatif::verif_clock::ORIGIN_NS);
    let mp = MultiProgress::with_draw_target(mp_target);
    let bars = case
        .bars
        .iter()
        .enumerate()
        .map(|(i, b)| {
            let pb = ProgressBar::with_draw_target(b.len, mk_bar_target(i)).with_finish(fin_of(&b.fin));
            pb.set_style(style_of(&b.tmpl));
            Some(pb)
        })
        .collect();
    let mut r = Running { spy: closure_spy.clone(), mp, bars };
    let mut out = vec![];
    for (t, op) in &case.ops {
        apply(&mut r, *t, op).map_err(|e| format!("{} panicked: {e}", op.name()))?;
        out.push(catch(|| all_getters(&r)).map_err(|e| format!("getter panicked after {}: {e}", op.name()))?);
        if expect_hidden {
            if let Some(i) = r.bars.iter().position(|b| b.as_ref().map_or(false, |p| !p.is_hidden())) {
                return Err(format!("is_hidden() is false for bar {i} after {}", op.name()));
            }
            if !r.mp.is_hidden() {
                return Err(format!("MultiProgress::is_hidden() is false after {}", op.name()));
            }
        }
    }
    catch(move || drop(r)).map_err(|e| format!("drop panicked: {e}"))?;
    Ok(out)
}

/// Texts with TABs and changing tab widths, which the Case/Op vocabulary of sysrun.rs does not
/// have (its set_tab_width always passes 8 and its texts have no tab): the same call sequence on a
/// hidden bar (hidden target / removed from its MultiProgress / member of a hidden MultiProgress)
/// and on a visible twin; message() prefix() position() length() is_finished() must agree after
/// every call, and the hidden one must make no TermLike call.  Oracle only.
fn tab_twins(s: &mut Session, r: &mut Rng, n: usize) {
    const TEXTS: [&str; 8] = ["a\tb", "\tdown\tloading", "x", "p\t\tq", "", "tab at end\t", "no tab", "\t"];
    for i in 0..n {
        let way = i % 3;
        let hidden_spy = Spy::new(40, 20);
        let twin_spy = Spy::new(40, 20);
        let mut calls: Vec<String> = vec![];
        let res = catch(|| {
            let style = || ProgressStyle::with_template("{prefix}|{msg}|{pos}/{len}").unwrap();
            let mp_hidden = MultiProgress::with_draw_target(ProgressDrawTarget::hidden());
            let mp_vis = MultiProgress::with_draw_target(ProgressDrawTarget::term_like(Box::new(hidden_spy.clone())));
            let hid = match way {
                0 => ProgressBar::with_draw_target(Some(10), ProgressDrawTarget::hidden()),
                1 => mp_hidden.add(ProgressBar::new(10)),
                _ => {
                    let b = mp_vis.add(ProgressBar::new(10));
                    mp_vis.remove(&b);
                    b
                }
            };
            hid.set_style(style());
            let vis = ProgressBar::with_draw_target(Some(10), ProgressDrawTarget::term_like(Box::new(twin_spy.clone())));
            vis.set_style(style());
            hidden_spy.take();
            let mut out = vec![];
            let len = 4 + (r.below(10) as usize);
            for _ in 0..len {
                let k = r.below(7);
                let t = r.pick(&TEXTS).to_string();
                let w = *r.pick(&[0usize, 1, 2, 3, 4, 8, 13]);
                let desc = match k {
                    0 | 1 => {
                        hid.set_message(t.clone());
                        vis.set_message(t.clone());
                        format!("set_message({t:?})")
                    }
                    2 => {
                        hid.set_prefix(t.clone());
                        vis.set_prefix(t.clone());
                        format!("set_prefix({t:?})")
                    }
                    3 | 4 => {
                        hid.set_tab_width(w);
                        vis.set_tab_width(w);
                        format!("set_tab_width({w})")
                    }
                    5 => {
                        hid.inc(1);
                        vis.inc(1);
                        "inc(1)".to_string()
                    }
                    _ => {
                        hid.finish_with_message(t.clone());
                        vis.finish_with_message(t.clone());
                        format!("finish_with_message({t:?})")
                    }
                };
                out.push((desc, get(&hid), get(&vis), hidden_spy.take().len()));
            }
            out
        });
        let wname = ["hidden-target", "hidden-multi", "removed"][way];
        match res {
            Err(e) => s.fail("panic", format!("tab twins: {e}"), format!("tab-twins way={wname}")),
            Ok(out) => {
                for (desc, gh, gv, ncalls) in &out {
                    calls.push(desc.clone());
                    let d = format!("tab-twins way={wname} calls={calls:?}");
                    if gh != gv {
                        s.fail(
                            &format!("hidden-getter-mismatch:{wname}"),
                            format!("after {desc}: hidden {gh:?} vs visible twin {gv:?}"),
                            d.clone(),
                        );
                        break;
                    }
                    if *ncalls != 0 {
                        s.fail(&format!("hidden-target-call:{wname}"), format!("{desc} on a hidden bar made {ncalls} TermLike calls"), d);
                        break;
                    }
                }
                s.count("tab-twins");
                s.oracle_only(format!("tab-twins way={wname} calls={calls:?}"), out.len() >= 4);
            }
        }
    }
}

// ------------------------------------------------------------------ iterator-driven completion of hidden bars
const ITER_WAYS: [&str; 4] = ["hidden-target", "non-tty", "hidden-multi", "removed"];

/// One bar, hidden in one of the four ways (or its visible twin), wrapped around `0..items` with
/// `progress_with` (the iterator holds the only handle; getters through `it.progress`) or
/// `wrap_iter` (another handle alive), driven `next()` by `next()` to exhaustion (+ one more call),
/// optionally finished by hand half way.  Returns the model's view of the history, the
/// observations (TermLike calls on the target terminal, getters after every step - in particular
/// after the None, BEFORE any handle is dropped) and the index of the None steps.
#[allow(clippy::too_many_arguments)]
fn run_iter_twin(
    way: usize,
    visible: bool,
    own: bool,
    fin: &Fin,
    len: Option<u64>,
    items: u32,
    early: bool,
    gaps: &[u64],
    w: u16,
    nontty: &NonTty,
    back: bool,
) -> (Case, Vec<StepObs>, Vec<usize>) {
    use indicatif::verif_clock as vc;
    use indicatif::ProgressIterator;
    vc::set_auto_step_ns(0);
    vc::set_clock_ns(vc::ORIGIN_NS);
    let spy = Spy::new(w, 40);
    let term = |spy: &Spy| ProgressDrawTarget::term_like(Box::new(spy.clone()));
    let tmpl = vec![TPart::Lit("A".into()), TPart::Pos, TPart::Lit(" ".into()), TPart::Msg];
    let (mp_t, bar_t) = match (way, visible) {
        (0, false) => (ProgressDrawTarget::hidden(), ProgressDrawTarget::hidden()),
        (1, false) => (ProgressDrawTarget::hidden(), nontty.target()),
        (0 | 1, true) => (ProgressDrawTarget::hidden(), term(&spy)),
        (2, false) => (ProgressDrawTarget::hidden(), ProgressDrawTarget::hidden()),
        _ => (term(&spy), ProgressDrawTarget::hidden()), // hidden-multi twin, removed (both runs)
    };
    let mp = MultiProgress::with_draw_target(mp_t);
    let pb = ProgressBar::with_draw_target(len, bar_t).with_finish(fin_of(fin));
    pb.set_style(style_of(&tmpl));
    let mut ops: Vec<(u64, Op)> = vec![];
    let mut obs: Vec<StepObs> = vec![];
    let mut t = 0u64;
    let mut gi = 0usize;
    let mut tick = |t: &mut u64| {
        *t += gaps[gi % gaps.len()];
        gi += 1;
        vc::set_clock_ns(vc::ORIGIN_NS + *t);
    };
    let pb = if way >= 2 {
        tick(&mut t);
        let p = mp.add(pb);
        ops.push((t, Op::Insert(Loc::End, 0)));
        obs.push(StepObs { emitted: spy.take(), ok: true, getters: vec![Some(get(&p))], panic: None });
        if way == 3 && !visible {
            tick(&mut t);
            mp.remove(&p);
            ops.push((t, Op::Remove(0)));
            obs.push(StepObs { emitted: spy.take(), ok: true, getters: vec![Some(get(&p))], panic: None });
        }
        p
    } else {
        pb
    };
    tick(&mut t);
    pb.set_message("m");
    ops.push((t, Op::SetMsg(0, "m".into())));
    obs.push(StepObs { emitted: spy.take(), ok: true, getters: vec![Some(get(&pb))], panic: None });
    let keep = if own { None } else { Some(pb.clone()) };
    let mut it = (0..items).progress_with(pb);
    let mut nones = vec![];
    let mut calls = 0u32;
    loop {
        if early && calls == items / 2 {
            tick(&mut t);
            let r = catch(|| it.progress.abandon_with_message("early"));
            ops.push((t, Op::Finish(0, Fin::AbandonWithMessage("early".into()))));
            obs.push(StepObs { emitted: spy.take(), ok: true, getters: vec![Some(get(&it.progress))], panic: r.err() });
        }
        tick(&mut t);
        // `back`: the DoubleEndedIterator side (next_back has its own copy of the finish-on-None code)
        let item = catch(|| if back { it.next_back() } else { it.next() });
        calls += 1;
        let emitted = spy.take();
        // the getters are read through a live handle, BEFORE anything is dropped
        let g = catch(|| get(&it.progress)).ok();
        match item {
            Err(e) => {
                ops.push((t, Op::Inc(0, 1)));
                obs.push(StepObs { emitted, ok: true, getters: vec![g], panic: Some(e) });
                break;
            }
            Ok(Some(_)) => {
                ops.push((t, Op::Inc(0, 1)));
                obs.push(StepObs { emitted, ok: true, getters: vec![g], panic: None });
            }
            Ok(None) => {
                nones.push(ops.len());
                ops.push((t, Op::FinishUsingStyle(0))); // the oracle's/description's view; the model evaluates IterNone
                obs.push(StepObs { emitted, ok: true, getters: vec![g], panic: None });
                if nones.len() == 2 {
                    break; // an exhausted iterator polled once more: nothing may change
                }
            }
        }
    }
    tick(&mut t);
    let r = catch(move || {
        drop(it);
        drop(keep);
    });
    ops.push((t, Op::Drop(0)));
    obs.push(StepObs { emitted: spy.take(), ok: true, getters: vec![None], panic: r.err() });
    let _ = catch(move || drop(mp));
    let case = Case {
        w,
        h: 40,
        fail_at: vec![],
        fail_from: None,
        mp: match (way, visible) {
            (0 | 1, _) | (2, false) => TInit::Hidden,
            _ => TInit::Term(None),
        },
        bars: vec![BarInit { len, fin: fin.clone(), tmpl, target: if visible && way < 2 { TInit::Term(None) } else { TInit::Hidden } }],
        ops,
    };
    (case, obs, nones)
}

fn iter_twins(s: &mut Session, r: &mut Rng, rounds: usize, nontty: &NonTty) {
    let fins = [
        Fin::AndLeave,
        Fin::WithMessage("done".into()),
        Fin::AndClear,
        Fin::Abandon,
        Fin::AbandonWithMessage("gone".into()),
    ];
    for _ in 0..rounds {
        for way in 0..4 {
            for own in [true, false] {
                for fin in &fins {
                    let items = r.below(7) as u32;
                    let len = match r.below(3) {
                        0 => None,
                        1 => Some(items as u64 + r.below(4)),
                        _ => Some(items as u64),
                    };
                    let early = r.chance(1, 5);
                    let back = r.chance(1, 2);
                    let w = *r.pick(&[8u16, 20]);
                    let gaps: Vec<u64> = (0..8).map(|_| *r.pick(&[0u64, 1, 1000, 60_000_000])).collect();
                    let before = nontty.written();
                    let (case, obs, nones) = run_iter_twin(way, false, own, fin, len, items, early, &gaps, w, nontty, back);
                    let (_tc, tobs, _) = run_iter_twin(way, true, own, fin, len, items, early, &gaps, w, nontty, back);
                    let desc = format!(
                        "iterator way={} adaptor={} via={} fin={:?} items={items} early-finish={early} {}",
                        ITER_WAYS[way],
                        if own { "progress_with(only handle)" } else { "wrap_iter(other handle alive)" },
                        if back { "next_back" } else { "next" },
                        fin,
                        describe(&case)
                    );
                    s.count(&format!("iter-way:{}", ITER_WAYS[way]));
                    s.count(if own { "iter-adaptor:progress_with" } else { "iter-adaptor:wrap_iter" });
                    s.count(if back { "iter-via:next_back" } else { "iter-via:next" });
                    s.count(&format!("iter-fin:{}", Op::Finish(0, fin.clone()).name()));
                    if let Some(p) = obs.iter().chain(tobs.iter()).find_map(|o| o.panic.clone()) {
                        s.fail("panic", p, desc.clone());
                        continue;
                    }
                    // silence of the hidden bar: from the point where it is hidden (way "removed":
                    // after the remove) no TermLike call, no byte
                    let from = case.ops.iter().position(|(_, o)| matches!(o, Op::Remove(_))).map_or(0, |k| k + 1);
                    if let Some((k, o)) = obs.iter().enumerate().skip(from).find(|(_, o)| !o.emitted.is_empty()) {
                        s.fail(
                            &format!("hidden-target-call:{}", ITER_WAYS[way]),
                            format!("step {k} {:?} of a hidden bar made TermLike calls {:?}", case.ops[k].1, o.emitted),
                            desc.clone(),
                        );
                    }
                    if nontty.written() != before {
                        s.fail("non-tty-bytes-written", "bytes reached a writer that is not a tty".into(), desc.clone());
                        nontty.buf.lock().unwrap().clear();
                    }
                    // getters of the hidden bar = getters of the visible twin after EVERY step; the
                    // twin of a removed bar has no remove step: align at the end
                    let skip = obs.len() - tobs.len();
                    for (k, t) in tobs.iter().enumerate() {
                        let o = &obs[k + if k >= from.saturating_sub(skip) { skip } else { 0 }];
                        if o.getters != t.getters {
                            s.fail(
                                &format!("hidden-getter-mismatch:iterator:{}", ITER_WAYS[way]),
                                format!(
                                    "after step {k} ({:?}): hidden bar {:?}, visible twin {:?}",
                                    _tc.ops[k].1, o.getters, t.getters
                                ),
                                desc.clone(),
                            );
                            break;
                        }
                    }
                    // the model: the None steps are IterNone (iter_none_step), everything else an op
                    let n = obs.len();
                    let iops: Vec<String> = case.ops[..n]
                        .iter()
                        .enumerate()
                        .map(|(i, (t, o))| if nones.contains(&i) { format!("({t}, IterNone 0)") } else { format!("({t}, IOp ({}))", cop(o)) })
                        .collect();
                    let term = format!("(CIter {} {})", coq_case(&case, &obs).replacen("(mkcase ", "(SysCheck.mkcase ", 1), clist(iops));
                    s.case(term, desc, true);
                }
            }
        }
    }
}

fn main() {
    let a = args();
    // c04case of model/SimCheck.v: ordinary system cases (`mkcase` is a notation wrapping them) and
    // iterator-driven histories whose end is evaluated with iter_none_step
    let header = format!(
        "{}From IndModel Require Import SimCheck.\nNotation mkcase := (fun a b c d e f g h => CSys (SysCheck.mkcase a b c d e f g h)).\n",
        COQ_HEADER
    );
    let mut s = Session::new(&a, "C06", &header, "c04case", "c04_check");
    s.shard_size = 150;
    s.rule = "histories of 5-35 ops over 1-3 bars drawing on every public op (tick/inc/dec/set_position/length ops/set_message/set_prefix/set_style/println/suspend/reset*/finish variants/finish_using_style/force_draw/set_tab_width/drop/add/insert*/remove, mp.println/suspend/clear/set_alignment), in four configurations: all targets ProgressDrawTarget::hidden(); members of a hidden MultiProgress; bars removed from a visible MultiProgress; mixed hidden/visible. Each history also runs on a visible twin (hidden targets replaced by terminals) and, for the first two configurations, with a console::Term that is not a tty (bars resp. the MultiProgress), also constructed with refresh rate 0 (documented panic at construction, or as silent as any other rate). Plus iterator-driven completion: one bar hidden in each of the four ways (hidden target, non-tty Term, member of a hidden MultiProgress, removed bar) x {progress_with: only handle, wrap_iter: other handle alive} x the five ProgressFinish variants, driven next() by next() (half of the cases: next_back() by next_back()) to exhaustion and once more, getters read through a live handle after every step (before anything is dropped) and compared with the visible twin; the None steps are evaluated in the model with iter_none_step (CIter cases). Oracle: calls with a hidden subject make no TermLike call / write no byte; getters equal the twin's after every op; is_hidden(). non-trivial = at least 5 ops with a hidden subject and the twin emitted calls; distinct = distinct case text".into();
    let mut r = Rng::new(a.seed);
    let n = if a.thorough { 4000 } else if a.extended { 2500 } else { 400 };
    let nontty = NonTty::new(&a.out);
    let ways = [Way::HiddenTarget, Way::HiddenMulti, Way::Removed, Way::Mixed];
    for i in 0..n {
        let way = ways[i % 4];
        let case = gen_case(&mut r, way);
        let desc = format!("way={} {}", way_name(way), describe(&case));
        s.count(&format!("way:{}", way_name(way)));
        for (_, o) in &case.ops {
            s.count(&format!("op:{}", o.name()));
            s.count(&format!("way-op:{}:{}", way_name(way), o.name()));
        }
        s.count(&format!("W:{}", case.w));
        s.count(&format!("H:{}", case.h));
        s.count(&format!("bars:{}", case.bars.len()));
        // ---- implementation run + silence oracle
        let obs = run_case(&case);
        let mut tr = HiddenTracker::new(&case);
        let mut hidden_subject_ops = 0;
        for ((_, op), o) in case.ops.iter().zip(obs.iter()) {
            if let Some(p) = &o.panic {
                s.fail("panic", p.clone(), desc.clone());
                break;
            }
            if tr.subject_hidden(op) {
                hidden_subject_ops += 1;
                if o.emitted != closure_lines(op) {
                    s.fail(
                        &format!("hidden-target-call:{}", way_name(way)),
                        format!("{:?} on a hidden subject made TermLike calls {:?}", op, o.emitted),
                        desc.clone(),
                    );
                    break;
                }
                if !o.ok {
                    s.fail("hidden-call-reports-error", format!("{:?} returned Err", op), desc.clone());
                }
            }
            tr.after(op);
        }
        s.count_n("ops_with_hidden_subject", hidden_subject_ops);
        // ---- visible twin: getters after every op
        let twin = twin_of(&case);
        let tobs = run_case(&twin);
        let twin_calls: usize = tobs.iter().map(|o| o.emitted.len()).sum();
        s.count_n("twin_termlike_calls", twin_calls as u64);
        for (k, (o, t)) in obs.iter().zip(tobs.iter()).enumerate() {
            if let Some(p) = &t.panic {
                s.fail("panic", format!("visible twin: {p}"), desc.clone());
                break;
            }
            if o.panic.is_none() && o.getters != t.getters {
                s.fail(
                    &format!("hidden-getter-mismatch:{}", way_name(way)),
                    format!("after op {k} {:?}: hidden {:?} vs visible twin {:?}", case.ops[k].1, o.getters, t.getters),
                    desc.clone(),
                );
                break;
            }
        }
        let nt = hidden_subject_ops >= 5 && twin_calls > 0;
        s.case(coq_case(&case, &obs), desc.clone(), nt);
        // ---- targets a Case cannot express: a Term that is not a tty, is_hidden()
        if matches!(way, Way::HiddenTarget | Way::HiddenMulti) {
            let expected_closure: Vec<TOp> = case.ops.iter().flat_map(|(_, o)| closure_lines(o)).collect();
            for variant in 0..3 {
                // variant 0: hidden() everywhere (checks is_hidden()); variant 1: the non-tty Term;
                // variant 2: the non-tty Term with refresh rate 0 - documented to panic at
                // construction; if it constructs, it must be as silent as any other rate
                if variant == 2 {
                    if i >= 80 {
                        continue;
                    }
                    match catch(|| nontty.target_hz(0)) {
                        Err(_) => {
                            s.count("rate0:panics-at-construction(documented)");
                            s.oracle_only(format!("rate0 construction {}", desc), false);
                            continue;
                        }
                        Ok(_) => s.count("rate0:constructs"),
                    }
                }
                let cs = Spy::new(case.w, case.h);
                let before = nontty.written();
                let res = if variant == 2 {
                    if way == Way::HiddenTarget {
                        run_manual(&case, &|_| nontty.target_hz(0), nontty.target_hz(0), &cs, true)
                    } else {
                        run_manual(&case, &|_| ProgressDrawTarget::hidden(), nontty.target_hz(0), &cs, true)
                    }
                } else if way == Way::HiddenTarget {
                    if variant == 0 {
                        run_manual(&case, &|_| ProgressDrawTarget::hidden(), ProgressDrawTarget::hidden(), &cs, true)
                    } else {
                        run_manual(&case, &|_| nontty.target(), nontty.target(), &cs, true)
                    }
                } else if variant == 0 {
                    run_manual(&case, &|_| ProgressDrawTarget::hidden(), ProgressDrawTarget::hidden(), &cs, true)
                } else {
                    run_manual(&case, &|_| ProgressDrawTarget::hidden(), nontty.target(), &cs, true)
                };
                let vdesc = format!("{}{} {}", ["is_hidden ", "non-tty ", "non-tty rate0 "][variant], way_name(way), desc);
                if variant == 2 && nontty.written() != before {
                    // (also when the run ended early because is_hidden() was false)
                    s.fail(
                        "non-tty-bytes-written:rate0",
                        format!("{} bytes/flushes reached a writer that is not a tty through a target built with refresh rate 0", nontty.written() - before),
                        vdesc.clone(),
                    );
                    nontty.buf.lock().unwrap().clear();
                }
                match res {
                    Err(e) => s.fail(
                        &format!("{}{}", if e.contains("is_hidden") { "is-hidden-false" } else { "panic" }, if variant == 2 { ":rate0" } else { "" }),
                        e,
                        vdesc.clone(),
                    ),
                    Ok(gs) => {
                        if nontty.written() != before {
                            s.fail(
                                "non-tty-bytes-written",
                                format!("{} bytes/flushes reached a writer that is not a tty", nontty.written() - before),
                                vdesc.clone(),
                            );
                            nontty.buf.lock().unwrap().clear();
                        }
                        if cs.take() != expected_closure {
                            s.fail("closure-output-wrong", "the suspend closures' own writes differ".into(), vdesc.clone());
                        }
                        for (k, (g, t)) in gs.iter().zip(tobs.iter()).enumerate() {
                            if t.panic.is_none() && *g != t.getters {
                                s.fail(
                                    &format!("hidden-getter-mismatch:{}", if variant == 1 { "non-tty" } else { way_name(way) }),
                                    format!("after op {k} {:?}: {:?} vs visible twin {:?}", case.ops[k].1, g, t.getters),
                                    vdesc.clone(),
                                );
                                break;
                            }
                        }
                    }
                }
                s.count(["runs:is_hidden", "runs:non-tty", "runs:non-tty-rate0"][variant]);
                s.oracle_only(vdesc, hidden_subject_ops >= 5);
            }
        }
    }
    // the other public constructors that take a refresh rate, with rate 0: a panic at construction
    // (documented) or a target that is hidden whenever the stream is not a tty
    for (name, is_tty, mk) in [
        ("stdout_with_hz(0)", console::Term::stdout().is_term(), (|| ProgressDrawTarget::stdout_with_hz(0)) as fn() -> ProgressDrawTarget),
        ("stderr_with_hz(0)", console::Term::stderr().is_term(), (|| ProgressDrawTarget::stderr_with_hz(0)) as fn() -> ProgressDrawTarget),
    ] {
        match catch(mk) {
            Err(_) => s.count(&format!("rate0:{name}:panics-at-construction(documented)")),
            Ok(t) => {
                s.count(&format!("rate0:{name}:constructs"));
                if !is_tty && !t.is_hidden() {
                    s.fail(
                        "non-tty-bytes-written:rate0",
                        format!("ProgressDrawTarget::{name} on a stream that is not a tty is not hidden: it would draw into redirected output"),
                        format!("constructor probe {name}"),
                    );
                }
            }
        }
        s.oracle_only(format!("constructor probe {name} (stream is a tty: {is_tty})"), !is_tty);
    }
    let nontty_iter = NonTty::new(&a.out);
    tab_twins(&mut s, &mut r, if a.thorough { 1500 } else { 200 });
    iter_twins(&mut s, &mut r, if a.thorough { 12 } else { 2 }, &nontty_iter);
    let _ = std::fs::remove_file(&nontty_iter.path);
    s.finish();
}
