//! C05 – redraw throttling: correspondence with model/Limiter.v + direct oracle.
//!
//! Everything goes through the public API under the mock clock: the verdict of the draw
//! target's RateLimiter for a request is observed as "did exactly one Flush reach the spy
//! terminal during this call", the verdict of the bar's AtomicPosition limiter as "was the
//! `tick` callback of a custom ProgressTracker invoked during this call".
//!
//! The oracle states the property on these observations with its own bookkeeping of the live
//! state of every bar (docs/C05.md, "The tie"): window bound and liveness of painted frames,
//! window bound and liveness of the position limiter, staleness (`stale` stand-alone,
//! `multi-stale` per MultiProgress member), and frame content = the LATEST state of the bar resp.
//! of every member that has a row.  The one known deviation (open finding D27) is recognised by a
//! predicate on the failing row, see `D27_CLASS`.
use indicatif::verif_clock::{set_auto_step_ns, set_clock_ns, Instant, ORIGIN_NS};
use indicatif::{MultiProgress, ProgressBar, ProgressDrawTarget, ProgressState, ProgressStyle};
use std::sync::atomic::{AtomicU64, Ordering};
use std::sync::Arc;
use verif_harness::spy::{Spy, TOp};
use verif_harness::*;

const NS: u64 = 1_000_000_000;
const MS: u64 = 1_000_000;
const HOUR: u64 = 3600 * NS;

/// Open finding D27 (known_findings.json).  The class is a predicate on ONE failing observation:
/// a painted MultiProgress frame triggered by the call of another member shows for member `b`
/// exactly `b`'s state as of its last draw step, which differs from `b`'s current state in the
/// position only, AND `b`'s last inc/dec/set_position was refused by `b`'s own position limiter
/// (no tracker tick) with no later draw step of `b`.  Any other row mismatch is `frame-content`.
const D27_CLASS: &str = "multi-member-stale-after-throttled-position-update";
/// D27 is listed as open in known_findings.json, so it is reported (KNOWN-FINDING line).  Set to
/// false only if the entry is removed from that file: occurrences are then still counted
/// (`d27:*` keys of the input distribution) but not reported.
const REPORT_D27_FINDING: bool = true;
/// `Session::fail` keeps at most 200 failures: never let the known class crowd out a new one
const D27_REPORT_CAP: u64 = 12;

#[derive(Clone, Debug, PartialEq)]
enum Op {
    Inc(u64),
    Dec(u64),
    SetPos(u64),
    Tick,
    SetMsg(u64),
    SetLen(u64),
    SetPrefix(u64),
    Reset,
}

impl Op {
    fn coq(&self) -> String {
        match self {
            Op::Inc(d) => format!("OInc {d}"),
            Op::Dec(d) => format!("ODec {d}"),
            Op::SetPos(d) => format!("OSetPos {d}"),
            Op::Tick => "OTick".into(),
            Op::SetMsg(d) => format!("OSetMsg {d}"),
            Op::SetLen(d) => format!("OSetLen {d}"),
            Op::SetPrefix(d) => format!("OSetPrefix {d}"),
            Op::Reset => "OReset".into(),
        }
    }
    fn name(&self) -> &'static str {
        match self {
            Op::Inc(_) => "inc",
            Op::Dec(_) => "dec",
            Op::SetPos(_) => "set_position",
            Op::Tick => "tick",
            Op::SetMsg(_) => "set_message",
            Op::SetLen(_) => "set_length",
            Op::SetPrefix(_) => "set_prefix",
            Op::Reset => "reset",
        }
    }
    /// goes through AtomicPosition::allow first
    fn via_pos_limiter(&self) -> bool {
        matches!(self, Op::Inc(_) | Op::Dec(_) | Op::SetPos(_))
    }
    fn apply(&self, pb: &ProgressBar) {
        match self {
            Op::Inc(d) => pb.inc(*d),
            Op::Dec(d) => pb.dec(*d),
            Op::SetPos(d) => pb.set_position(*d),
            Op::Tick => pb.tick(),
            Op::SetMsg(d) => pb.set_message(format!("{d}")),
            Op::SetLen(d) => pb.set_length(*d),
            Op::SetPrefix(d) => pb.set_prefix(format!("{d}")),
            Op::Reset => pb.reset(),
        }
    }
}

/// counts the tick()/reset() notifications a bar's style receives
#[derive(Clone)]
struct Counter {
    ticks: Arc<AtomicU64>,
    resets: Arc<AtomicU64>,
    last_now: Arc<AtomicU64>,
}
impl indicatif::style::ProgressTracker for Counter {
    fn clone_box(&self) -> Box<dyn indicatif::style::ProgressTracker> {
        Box::new(self.clone())
    }
    fn tick(&mut self, _: &ProgressState, now: Instant) {
        self.ticks.fetch_add(1, Ordering::SeqCst);
        self.last_now.store(now.as_ns(), Ordering::SeqCst);
    }
    fn reset(&mut self, _: &ProgressState, _: Instant) {
        self.resets.fetch_add(1, Ordering::SeqCst);
    }
    fn write(&self, _: &ProgressState, _: &mut dyn std::fmt::Write) {}
}

#[derive(Clone, Debug)]
struct Case {
    multi: bool,
    rate: Option<u8>,
    t0: u64,
    bars: Vec<(u64, u64)>,         // (clock at creation, initial length)
    /// calls made while the (stand-alone) bar is still on ProgressDrawTarget::hidden(); if `late`,
    /// the target is created and attached with set_draw_target at `t0`, after these calls
    pre: Vec<(u64, usize, Op)>,
    late: bool,
    ops: Vec<(u64, usize, Op)>,    // (absolute clock, bar index, op)
    tag: String,
}

impl Case {
    fn all_ops(&self) -> impl Iterator<Item = &(u64, usize, Op)> {
        self.pre.iter().chain(self.ops.iter())
    }
    /// the property's quantifier: non-decreasing call instants, none before the creation of the
    /// bars (all calls) or of the target (calls after it exists)
    fn monotone(&self) -> bool {
        let tb = self.bars.iter().map(|b| b.0).max().unwrap();
        let mut prev = tb;
        for (t, _, _) in self.pre.iter() {
            if *t < prev {
                return false;
            }
            prev = *t;
        }
        prev = prev.max(self.t0);
        if self.late && self.pre.iter().any(|x| x.0 > self.t0) {
            return false;
        }
        for (t, _, _) in self.ops.iter() {
            if *t < prev {
                return false;
            }
            prev = *t;
        }
        true
    }
}

/// one painted row: position, length, message, prefix (the Coq model keeps the first three)
type Row = (u64, u64, u64, u64);

#[derive(Clone, Debug)]
struct Obs {
    reached: bool,
    frame: Option<Vec<Row>>,
}

fn parse_row(s: &str) -> Option<Row> {
    let mut it = s.split('/');
    let a = it.next()?.parse().ok()?;
    let b = it.next()?.parse().ok()?;
    let c = it.next()?.parse().ok()?;
    let d = it.next()?.parse().ok()?;
    if it.next().is_some() {
        return None;
    }
    Some((a, b, c, d))
}

fn interval_ns(rate: u8) -> u64 {
    // "one refresh interval" = 1/R s, in whole nanoseconds rounded up
    (NS + rate as u64 - 1) / rate as u64
}

fn describe(c: &Case) -> String {
    let rel = |t: u64, base: u64| if t >= base { format!("+{}", t - base) } else { format!("-{}", base - t) };
    let fmt_ops = |ops: &[(u64, usize, Op)], start: u64| -> String {
        let mut prev = start;
        ops.iter()
            .map(|(t, i, o)| {
                let g = rel(*t, prev);
                prev = *t;
                format!("{g}:b{i}.{}", o.coq())
            })
            .collect::<Vec<_>>()
            .join(" ")
    };
    let pre = if c.late { format!(" hidden-until-t0 pre=[{}]", fmt_ops(&c.pre, c.bars[0].0)) } else { String::new() };
    format!(
        "{} multi={} rate={:?} t0={} bars=[{}]{} ops=[{}]",
        c.tag,
        c.multi,
        c.rate,
        c.t0,
        c.bars.iter().map(|(t, l)| format!("{}:len{}", rel(*t, c.t0), l)).collect::<Vec<_>>().join(","),
        pre,
        fmt_ops(&c.ops, c.t0)
    )
}

/// run the implementation; returns the per-call observations (stops at the first panic)
fn run_impl(c: &Case) -> (Vec<Result<Obs, String>>, Vec<String>) {
    let mut problems = vec![];
    set_auto_step_ns(0);
    set_clock_ns(c.t0);
    let spy = Spy::new(80, 24);
    // the target's limiter reads the clock when the target is created: now (t0), or - late attach -
    // after the calls `pre`, again at t0
    let mk_target = |spy: &Spy| match c.rate {
        Some(r) => ProgressDrawTarget::term_like_with_hz(Box::new(spy.clone()), r),
        None => ProgressDrawTarget::term_like(Box::new(spy.clone())),
    };
    let target = if c.late { ProgressDrawTarget::hidden() } else { mk_target(&spy) };
    let mut counters = vec![];
    let mut pbs = vec![];
    let mk_style = |cnt: &Counter| {
        ProgressStyle::with_template("{pos}/{len}/{msg}/{prefix}").unwrap().with_key("c05probe", cnt.clone())
    };
    let mut mp = None;
    if c.multi {
        let m = MultiProgress::with_draw_target(target);
        for (tb, len) in &c.bars {
            set_clock_ns(*tb);
            let cnt = Counter {
                ticks: Default::default(),
                resets: Default::default(),
                last_now: Default::default(),
            };
            let pb = ProgressBar::with_draw_target(Some(*len), ProgressDrawTarget::hidden()).with_message("0").with_prefix("0");
            pb.set_style(mk_style(&cnt));
            let pb = m.add(pb);
            counters.push(cnt);
            pbs.push(pb);
        }
        mp = Some(m);
    } else {
        let (tb, len) = c.bars[0];
        set_clock_ns(tb);
        let cnt = Counter {
            ticks: Default::default(),
            resets: Default::default(),
            last_now: Default::default(),
        };
        let pb = ProgressBar::with_draw_target(Some(len), target).with_message("0").with_prefix("0");
        pb.set_style(mk_style(&cnt));
        counters.push(cnt);
        pbs.push(pb);
    }
    if !spy.take().is_empty() {
        problems.push("terminal output during construction".to_string());
    }
    let mut out = vec![];
    for (k, (t, i, o)) in c.all_ops().enumerate() {
        if c.late && k == c.pre.len() {
            // ProgressBar::set_draw_target: the new target is created at t0, the bar keeps its state
            set_clock_ns(c.t0);
            let r = catch(|| pbs[0].set_draw_target(mk_target(&spy)));
            if let Err(e) = r {
                problems.push(format!("set_draw_target panicked: {e}"));
            }
            if !spy.take().is_empty() {
                problems.push("terminal output during set_draw_target".to_string());
            }
        }
        set_clock_ns(*t);
        let before: Vec<(u64, u64)> = counters
            .iter()
            .map(|c| (c.ticks.load(Ordering::SeqCst), c.resets.load(Ordering::SeqCst)))
            .collect();
        let r = catch(|| o.apply(&pbs[*i]));
        if let Err(e) = r {
            out.push(Err(e));
            break;
        }
        let ops = spy.take();
        let flushes = ops.iter().filter(|x| **x == TOp::Flush).count();
        if flushes > 1 {
            problems.push(format!("call #{k}: {flushes} flushes in one call"));
        }
        if flushes == 1 && ops.last() != Some(&TOp::Flush) {
            problems.push(format!("call #{k}: output after the flush"));
        }
        let rows: Vec<Row> = ops
            .iter()
            .filter_map(|x| match x {
                TOp::Str(s) => parse_row(s),
                _ => None,
            })
            .collect();
        if flushes == 0 && !ops.is_empty() {
            problems.push(format!("call #{k}: terminal output without a flush: {ops:?}"));
        }
        let mut reached = false;
        for (j, cnt) in counters.iter().enumerate() {
            let dt = cnt.ticks.load(Ordering::SeqCst) - before[j].0;
            let dr = cnt.resets.load(Ordering::SeqCst) - before[j].1;
            if j == *i {
                if dt > 1 || dr > 1 || (dr == 1) != (*o == Op::Reset) {
                    problems.push(format!("call #{k}: {dt} tick / {dr} reset notifications"));
                }
                reached = dt == 1;
                if reached && cnt.last_now.load(Ordering::SeqCst) != *t {
                    problems.push(format!("call #{k}: tick saw a different instant than the clock"));
                }
            } else if dt != 0 || dr != 0 {
                problems.push(format!("call #{k}: notification on another bar"));
            }
        }
        out.push(Ok(Obs {
            reached,
            frame: if flushes >= 1 { Some(rows) } else { None },
        }));
    }
    // dropping the bars finishes them (forced draws) – not part of the observation
    let _ = catch(move || {
        drop(pbs);
        drop(mp);
    });
    (out, problems)
}

fn report_d27(s: &mut Session, reported: &mut u64, detail: String, desc: &str) {
    s.count("d27:occurrences");
    if REPORT_D27_FINDING && *reported < D27_REPORT_CAP {
        *reported += 1;
        s.fail(D27_CLASS, detail, desc.to_string());
    } else if REPORT_D27_FINDING {
        s.count(&format!("oracle_failure:{D27_CLASS}"));
    }
}

/// The property, evaluated directly on what the implementation did.
fn oracle(s: &mut Session, c: &Case, obs: &[Result<Obs, String>], problems: &[String], desc: &str, d27_reported: &mut u64) {
    for p in problems {
        s.fail("protocol", p.clone(), desc.to_string());
    }
    // own bookkeeping of the live state (wrapping u64 arithmetic), independent of the limiter
    let n = c.bars.len();
    let mut live: Vec<Row> = c.bars.iter().map(|(_, l)| (0, *l, 0, 0)).collect();
    let mut shown: Vec<Option<Row>> = vec![None; n];
    // requests that arrived at the draw target: (time, painted)
    let mut reqs: Vec<(u64, bool)> = vec![];
    // per bar: position updates (time, reached) and the last allowed update / reset
    let mut upd: Vec<Vec<(u64, bool)>> = vec![vec![]; n];
    let mut last_ev: Vec<Option<u64>> = vec![None; n];
    let mut last_paint: Option<u64> = None;
    // MultiProgress members.  pos_refused[m]: m's last inc/dec/set_position did not produce a
    // tracker tick (refused by m's own position limiter) and m has made no draw step since;
    // good[m] / stale27[m]: instant of the most recent painted frame whose row for m was m's
    // then-current state / was stale in the D27 way; these feed the multi staleness oracle
    let mut pos_refused: Vec<bool> = vec![false; n];
    let mut good: Vec<Option<u64>> = vec![None; n];
    let mut stale27: Vec<Option<u64>> = vec![None; n];
    let mut had_row: Vec<bool> = vec![false; n];
    let mut d27_in_case = false;
    let mut multi_stale_in_case = false;
    let stale_limit = c.rate.map(|r| interval_ns(r) + MS);
    // The timing clauses (window bounds, liveness, staleness) are stated for the property's
    // quantifier: non-decreasing call instants.  The `step-back` stream sets the clock backwards to
    // drive the early exits `now < prev` / `now < start` of the two `allow` functions through the
    // correspondence; for such a history the oracle checks what does not depend on time: no
    // panic, the protocol, and the content of whatever is painted.
    let timed = c.monotone();
    let npre = if c.late { c.pre.len() } else { 0 };
    for (k, ((t, i, o), ob)) in c.all_ops().zip(obs.iter()).enumerate() {
        let ob = match ob {
            Ok(ob) => ob,
            Err(e) => {
                s.fail("panic", format!("call #{k} {} panicked: {e}", o.coq()), desc.to_string());
                return;
            }
        };
        let (t, i) = (*t, *i);
        match o {
            Op::Inc(d) => live[i].0 = live[i].0.wrapping_add(*d),
            Op::Dec(d) => live[i].0 = live[i].0.wrapping_sub(*d),
            Op::SetPos(p) => live[i].0 = *p,
            Op::SetMsg(m) => live[i].2 = *m,
            Op::SetLen(l) => live[i].1 = *l,
            Op::SetPrefix(p) => live[i].3 = *p,
            Op::Reset => live[i].0 = 0,
            Op::Tick => {}
        }
        let arrives = if o.via_pos_limiter() {
            // position limiter: liveness
            if !timed {
            } else if let Some(u) = last_ev[i] {
                if t - u >= MS && !ob.reached {
                    s.fail(
                        "pos-liveness",
                        format!("call #{k}: position update {} ns after the last allowed one did not request a redraw", t - u),
                        desc.to_string(),
                    );
                }
            } else if !ob.reached {
                s.fail("pos-liveness", format!("call #{k}: first position update was throttled"), desc.to_string());
            }
            upd[i].push((t, ob.reached));
            if ob.reached {
                last_ev[i] = Some(t);
            }
            ob.reached
        } else {
            if (*o == Op::Reset) == ob.reached {
                s.fail("protocol", format!("call #{k}: {} reached-flag {}", o.name(), ob.reached), desc.to_string());
            }
            if *o == Op::Reset {
                last_ev[i] = Some(t);
            }
            true
        };
        if k < npre {
            // the bar is still on a hidden target: nothing can be painted, whatever the call
            if ob.frame.is_some() {
                s.fail("protocol", format!("call #{k}: frame painted while the bar is on a hidden target"), desc.to_string());
            }
            if arrives {
                shown[i] = Some(live[i]);
            }
            continue;
        }
        if !arrives {
            if ob.frame.is_some() {
                s.fail("protocol", format!("call #{k}: frame painted for a throttled position update"), desc.to_string());
            }
            pos_refused[i] = true;
            if c.multi && timed {
                multi_stale(s, c, k, t, i, stale_limit, last_paint, &good, &stale27, &had_row, &mut multi_stale_in_case, &mut d27_in_case, d27_reported, desc);
            }
            continue;
        }
        shown[i] = Some(live[i]);
        pos_refused[i] = false;
        let painted = ob.frame.is_some();
        reqs.push((t, painted));
        // liveness of the target limiter
        if !timed {
        } else if let Some(r) = c.rate {
            match last_paint {
                Some(f) => {
                    if (t - f) as u128 * r as u128 >= NS as u128 && !painted {
                        s.fail(
                            "liveness",
                            format!("call #{k}: request {} ns (>= 1/{r} s) after the last painted frame was not painted", t - f),
                            desc.to_string(),
                        );
                    }
                }
                None => {
                    if !painted {
                        s.fail("liveness", format!("call #{k}: first request was not painted"), desc.to_string());
                    }
                }
            }
        } else if !painted {
            s.fail("liveness", format!("call #{k}: request on an unthrottled target not painted"), desc.to_string());
        }
        if painted {
            last_paint = Some(t);
            // nothing lost: the frame shows the LATEST state - of the bar, and for a MultiProgress
            // of every member that has a row (a member gets its row with its first draw step)
            let got = ob.frame.clone().unwrap();
            if !c.multi {
                let want = vec![live[i]];
                if got != want {
                    s.fail(
                        "frame-content",
                        format!("call #{k}: painted rows {got:?}, latest state is {want:?}"),
                        desc.to_string(),
                    );
                }
            } else {
                let members: Vec<usize> = (0..n).filter(|m| shown[*m].is_some()).collect();
                let want: Vec<Row> = members.iter().map(|m| live[*m]).collect();
                if got.len() != want.len() {
                    s.fail(
                        "frame-content",
                        format!("call #{k}: painted rows {got:?}, latest state of the members with a row is {want:?}"),
                        desc.to_string(),
                    );
                } else {
                    for (j, &m) in members.iter().enumerate() {
                        had_row[m] = true;
                        if got[j] == want[j] {
                            good[m] = Some(t);
                            continue;
                        }
                        // the D27 predicate, on this row of this frame: length, message and
                        // prefix must be the LATEST ones (set_length / set_message / set_prefix are
                        // always draw steps: C02_logic_change, C05_member_refused_update_position_only);
                        // a stale length / message / prefix is never the known finding
                        let is_d27 = m != i
                            && pos_refused[m]
                            && Some(got[j]) == shown[m]
                            && got[j].1 == live[m].1
                            && got[j].2 == live[m].2
                            && got[j].3 == live[m].3
                            && got[j].0 != live[m].0;
                        for (name, g, w) in [("length", got[j].1, live[m].1), ("message", got[j].2, live[m].2), ("prefix", got[j].3, live[m].3)] {
                            if g != w {
                                s.count(&format!("stale-field:{name}"));
                            }
                        }
                        if is_d27 {
                            stale27[m] = Some(t);
                            s.count("d27:stale-rows");
                            if !d27_in_case {
                                d27_in_case = true;
                                report_d27(
                                    s,
                                    d27_reported,
                                    format!(
                                        "call #{k} (bar {i}) painted {got:?}: member {m} is shown as {:?} (its last draw step) but its latest state is {:?}; its last position update was refused by its own position limiter",
                                        got[j], live[m]
                                    ),
                                    desc,
                                );
                            }
                        } else {
                            s.fail(
                                "frame-content",
                                format!("call #{k}: painted rows {got:?}, latest state is {want:?} (member {m} differs, not the known D27 pattern)"),
                                desc.to_string(),
                            );
                        }
                    }
                }
            }
        }
        if c.multi && timed {
            multi_stale(s, c, k, t, i, stale_limit, last_paint, &good, &stale27, &had_row, &mut multi_stale_in_case, &mut d27_in_case, d27_reported, desc);
        }
    }
    if !timed {
        s.count("oracle:untimed-history");
        return;
    }
    // window bound of the target limiter: every window [t_i, t_j]
    if let Some(r) = c.rate {
        let p: Vec<u64> = reqs.iter().filter(|x| x.1).map(|x| x.0).collect();
        'w: for a in 0..p.len() {
            for b in a..p.len() {
                let cnt = (b - a + 1) as u128;
                let t = (p[b] - p[a]) as u128;
                if cnt * NS as u128 > 21 * NS as u128 + r as u128 * t {
                    s.fail(
                        "window-bound",
                        format!("{cnt} frames painted within {t} ns at {r} Hz (> 20 + R*T + 1)"),
                        desc.to_string(),
                    );
                    break 'w;
                }
            }
        }
        // staleness of a single continuously updated bar: at every call the last painted frame is
        // younger than one refresh interval + 1 ms
        if !c.multi {
            let mut lastp: Option<u64> = None;
            for ((t, _, _), ob) in c.ops.iter().zip(obs.iter().skip(npre)) {
                let ob = ob.as_ref().unwrap();
                if ob.frame.is_some() {
                    lastp = Some(*t);
                }
                // a target attached late (set_draw_target) to a bar that was already driven: the
                // bar's own position limiter may swallow the updates of the first millisecond
                // (C05_frame_age_late_target_partial / _refuted); no claim there
                if c.late && *t < c.t0 + MS {
                    s.count("stale:late-target-first-ms-waived");
                    continue;
                }
                match lastp {
                    Some(f) if *t - f < interval_ns(r) + MS => {}
                    _ => {
                        s.fail(
                            "stale",
                            format!("at clock {t} the last painted frame is {:?} ns old (>= 1/{r} s + 1 ms)", lastp.map(|f| t - f)),
                            desc.to_string(),
                        );
                        break;
                    }
                }
            }
        }
    }
    // window bound of the position limiters
    for u in &upd {
        let p: Vec<u64> = u.iter().filter(|x| x.1).map(|x| x.0).collect();
        'v: for a in 0..p.len() {
            for b in a..p.len() {
                let cnt = (b - a + 1) as u128;
                let t = (p[b] - p[a]) as u128;
                if cnt * MS as u128 > 11 * MS as u128 + t {
                    s.fail(
                        "pos-window-bound",
                        format!("{cnt} position updates requested a redraw within {t} ns (> 10 + T/1ms + 1)"),
                        desc.to_string(),
                    );
                    break 'v;
                }
            }
        }
    }
}

/// Staleness for a member of a MultiProgress, at the instant `t` of call #k on member `i` (after
/// the call's own frame, if any, has been taken into account): (A) the last painted frame -
/// whoever triggered it - is younger than one refresh interval + 1 ms (C05_frame_age_partial),
/// and (B) there is such a young frame whose row for `i` was `i`'s then-current state.
/// (B) is waived while no painted frame has contained a row of `i` yet (docs/C05.md,
/// Interpretations: a member appears with the first frame painted after its first draw step;
/// `frame-content` checks that it does).  (B) failing although a young frame exists that shows
/// `i` stale in the D27 way is D27 again; anything else is `multi-stale`.
#[allow(clippy::too_many_arguments)]
fn multi_stale(
    s: &mut Session,
    c: &Case,
    k: usize,
    t: u64,
    i: usize,
    limit: Option<u64>,
    last_paint: Option<u64>,
    good: &[Option<u64>],
    stale27: &[Option<u64>],
    had_row: &[bool],
    failed: &mut bool,
    d27_in_case: &mut bool,
    d27_reported: &mut u64,
    desc: &str,
) {
    let Some(limit) = limit else { return };
    let r = c.rate.unwrap();
    let young = |f: Option<u64>| matches!(f, Some(f) if t - f < limit);
    if !young(last_paint) {
        if !*failed {
            *failed = true;
            s.fail(
                "multi-stale",
                format!("call #{k} (member {i}) at clock {t}: the last painted frame of the MultiProgress is {:?} ns old (>= 1/{r} s + 1 ms)", last_paint.map(|f| t - f)),
                desc.to_string(),
            );
        }
        return;
    }
    if young(good[i]) {
        s.count("multi-stale:checked-ok");
        return;
    }
    if young(stale27[i]) {
        s.count("d27:stale-at-call");
        if !*d27_in_case {
            *d27_in_case = true;
            report_d27(
                s,
                d27_reported,
                format!("call #{k} (member {i}) at clock {t}: the only frames younger than 1/{r} s + 1 ms show member {i} at the position of its last draw step (last frame with its then-current row: {:?})", good[i]),
                desc,
            );
        }
        return;
    }
    if !had_row[i] {
        s.count("multi-stale:not-yet-displayed");
        return;
    }
    if !*failed {
        *failed = true;
        s.fail(
            "multi-stale",
            format!("call #{k} (member {i}) at clock {t}: no frame younger than 1/{r} s + 1 ms contains member {i}'s then-current row (last one: {:?})", good[i]),
            desc.to_string(),
        );
    }
}

fn coq_case(c: &Case, obs: &[Result<Obs, String>]) -> String {
    let cfg = format!(
        "({}, {}, {}, {})",
        cbool(c.multi),
        copt(c.rate.map(|r| r.to_string())),
        c.t0,
        clist(c.bars.iter().map(|(t, l)| format!("({t}, {l})")))
    );
    let fmt = |ops: &[(u64, usize, Op)]| clist(ops.iter().map(|(t, i, o)| format!("({t}, {i}, {})", o.coq())));
    let pre = if c.late { fmt(&c.pre) } else { "[]".to_string() };
    let ops = fmt(&c.ops);
    let outs = clist(obs.iter().map(|o| match o {
        Err(_) => "Panic 0".to_string(),
        Ok(ob) => format!(
            "Ok ({}, {})",
            cbool(ob.reached),
            copt(ob.frame.as_ref().map(|f| clist(f.iter().map(|(a, b, c, _)| format!("({a}, {b}, {c})")))))
        ),
    }));
    format!("({cfg}, {pre}, {ops}, {outs})")
}

fn gap_class(g: u64, iv: u64) -> &'static str {
    if g == 0 {
        "0"
    } else if g == 1 {
        "1ns"
    } else if g >= HOUR {
        ">=1h"
    } else if g % iv == 0 {
        "k*I"
    } else if g % iv == iv - 1 {
        "k*I-1"
    } else if g % iv == 1 {
        "k*I+1"
    } else if g % MS == 0 {
        "k*1ms"
    } else if g % MS == MS - 1 {
        "k*1ms-1"
    } else if g % MS == 1 {
        "k*1ms+1"
    } else if g < MS {
        "<1ms"
    } else if g < iv {
        "<I"
    } else {
        ">I"
    }
}

fn run_case(s: &mut Session, c: &Case, d27_reported: &mut u64) {
    let desc = describe(c);
    let (obs, problems) = run_impl(c);
    oracle(s, c, &obs, &problems, &desc, d27_reported);
    // input / outcome distribution
    let iv = c.rate.map(interval_ns).unwrap_or(MS);
    let mut prev = c.t0.min(c.bars.iter().map(|b| b.0).min().unwrap());
    for ((t, _, o), ob) in c.all_ops().zip(obs.iter()) {
        if *t < prev {
            s.count("gap:negative(clock-set-back)");
        } else {
            s.count(&format!("gap:{}", gap_class(t - prev, iv)));
        }
        prev = *t;
        s.count(&format!("op:{}", o.name()));
        if let Ok(ob) = ob {
            if o.via_pos_limiter() {
                s.count(if ob.reached { "pos-limiter:allowed" } else { "pos-limiter:throttled" });
            }
            if ob.reached || !o.via_pos_limiter() {
                s.count(if ob.frame.is_some() { "target-limiter:painted" } else { "target-limiter:skipped" });
            }
        }
    }
    s.count(&format!(
        "target:{}{}",
        if c.multi { format!("multi{}", c.bars.len()) } else { "standalone".into() },
        if c.rate.is_some() { "+hz" } else { "+nolimit" }
    ));
    if let Some(r) = c.rate {
        s.count(&format!("rate:{:03}-{:03}", r / 32 * 32, r / 32 * 32 + 31));
    }
    s.count(&format!("calls:{:03}+", (c.pre.len() + c.ops.len()).min(399) / 50 * 50));
    if c.late {
        s.count("stream:late-target(set_draw_target)");
    }
    if !c.monotone() {
        s.count("stream:step-back(non-monotone)");
    }
    if c.bars.iter().any(|b| b.0 < c.t0) {
        s.count("cfg:t0>tb(target-younger-than-a-bar)");
    }
    let painted = obs.iter().filter(|o| matches!(o, Ok(ob) if ob.frame.is_some())).count();
    let skipped = obs.len() - painted;
    // non-trivial: the case shows both verdicts
    let nontrivial = painted > 0 && skipped > 0;
    s.case(coq_case(c, &obs), desc, nontrivial);
}

// ------------------------------------------------------------------ generators

fn gen_gap(r: &mut Rng, iv: u64) -> u64 {
    let k = if r.chance(1, 5) { r.range(2, 30) } else { r.range(2, 3) };
    match r.below(24) {
        0..=3 => 0,
        4 => 1,
        5 => iv - 1,
        6 => iv,
        7 => iv + 1,
        8 => k * iv - 1,
        9 => k * iv,
        10 => k * iv + 1,
        11 => HOUR + r.below(3) * iv,
        12 => MS - 1,
        13 => MS,
        14 => MS + 1,
        15 => k * MS - 1 + r.below(3),
        16 => r.below(MS),
        17 => r.below(iv),
        18 => r.below(2 * iv),
        19 => iv / 2 + r.below(3),
        20 => r.below(1000),
        21 => r.below(25 * iv),
        22 => iv - 1 - r.below(MS.min(iv - 1)),
        _ => r.below(3 * MS),
    }
}

fn gen_op(r: &mut Rng, style: u64) -> Op {
    let d = |r: &mut Rng| match r.below(6) {
        0 => 0,
        1 => u64::MAX,
        2 => r.next(),
        _ => r.range(1, 9),
    };
    match style {
        0 => Op::Tick,
        1 => Op::Inc(1),
        _ => match r.below(20) {
            0..=7 => Op::Inc(d(r)),
            8..=9 => Op::Dec(d(r)),
            10..=11 => Op::SetPos(d(r)),
            12..=15 => Op::Tick,
            16 => Op::SetMsg(r.below(1000)),
            17 => {
                if r.chance(1, 2) {
                    Op::SetMsg(r.below(1000))
                } else {
                    Op::SetPrefix(r.below(1000))
                }
            }
            18 => Op::SetLen(d(r)),
            _ => Op::Reset,
        },
    }
}

fn gen_case(r: &mut Rng, rate: Option<u8>, multi: bool, tag: &str) -> Case {
    let iv = rate.map(interval_ns).unwrap_or(MS);
    let t0 = ORIGIN_NS + r.below(1000) * r.below(NS);
    let nb = if multi { r.range(1, 3) as usize } else { 1 };
    // in a quarter of the cases the bars (some of them) are OLDER than the target (t0 > tb): the mock
    // clock is simply set back for their creation
    let older = r.chance(1, 4);
    let bars: Vec<(u64, u64)> = (0..nb)
        .map(|_| {
            let off = *r.pick(&[0u64, 0, 1, MS - 1, MS, 5 * MS + 7, NS]);
            let tb = if older && r.chance(2, 3) { t0 - off } else { t0 + off };
            (tb, *r.pick(&[0u64, 10, 1000, u64::MAX]))
        })
        .collect();
    let mut now = bars.iter().map(|b| b.0).max().unwrap().max(t0);
    // op style: 0 = ticks only (pure target limiter), 1 = inc(1) only (continuous update), 2 = mixed
    let style = if rate.is_some() { *r.pick(&[0u64, 0, 0, 1, 2, 2, 2]) } else { *r.pick(&[1u64, 1, 2, 2, 2]) };
    // time pattern
    let pattern = *r.pick(&[0u64, 0, 1, 1, 2, 3, 3, 4, 4, 5, 6, 6, 6, 7]);
    let len = if r.chance(1, 12) { r.range(1, 8) } else { r.range(24, 110) } as usize + if r.chance(1, 6) { 40 } else { 0 };
    let mut ops = vec![];
    // most cases first empty the target's bucket so that the boundary gaps decide the verdicts
    let predrain = if r.chance(2, 3) { 21 + r.below(3) as usize } else { 0 };
    // MultiProgress: in a third of the cases the last member stays out of the drain, so that its
    // first draw step meets an empty shared bucket (docs/C05.md, Interpretation 1)
    let drainers = if multi && nb > 1 && r.chance(1, 3) { nb - 1 } else { nb };
    for _ in 0..predrain {
        now += r.below(2);
        ops.push((now, r.below(drainers as u64) as usize, if style == 1 { Op::Tick } else { gen_op(r, style.min(2)) }));
    }
    for k in 0..len {
        let g = match pattern {
            0 => gen_gap(r, iv),
            1 => {
                // a burst, then a sustained stream right at the interval
                if k < 26 {
                    r.below(2)
                } else {
                    *r.pick(&[iv - 1, iv, iv, iv + 1])
                }
            }
            2 => *r.pick(&[iv - 1, iv, iv + 1, 0, 1]),
            3 => {
                // around the 1 ms law of the position limiter
                if k < 14 {
                    r.below(2)
                } else {
                    *r.pick(&[MS - 1, MS, MS + 1, 0, 1, 2 * MS - 1, 2 * MS])
                }
            }
            4 => {
                // drain, wait for k tokens, drain again
                if r.chance(1, 12) {
                    r.range(1, 24) * iv + *r.pick(&[0u64, 1]) - r.below(2).min(1)
                } else {
                    r.below(3)
                }
            }
            6 | 7 => {
                // instants on the limiter's own grid (creation + m*I + {-1,0,+1}): `prev` stays on
                // that grid, so these hit `elapsed == I` / `== I-1` exactly with an empty bucket
                let (origin, step) = if pattern == 6 { (t0, iv) } else { (bars[0].0, MS) };
                let m = (now.saturating_sub(origin)) / step + r.below(3).min(1) + if r.chance(1, 10) { r.below(4) } else { 0 };
                let target = (origin + m * step + *r.pick(&[0u64, 0, 1, 2]) + r.below(2).min(1)).saturating_sub(1);
                target.max(now) - now
            }
            _ => {
                if r.chance(1, 2) {
                    gen_gap(r, iv)
                } else {
                    gen_gap(r, MS)
                }
            }
        };
        now += g;
        ops.push((now, r.below(nb as u64) as usize, gen_op(r, style)));
    }
    Case { multi, rate, t0, bars, pre: vec![], late: false, ops, tag: tag.to_string() }
}

/// stream `late-target`: a stand-alone bar is driven on a hidden target (bursts that drain its own
/// position limiter, mixed calls), then a throttled target is attached with set_draw_target at an
/// instant up to a few ms after the last of these calls, then an ordinary history follows
fn gen_late_case(r: &mut Rng, rate: u8) -> Case {
    let mut c = gen_case(r, Some(rate), false, "late-target");
    let base = c.bars[0].0.max(c.t0);
    let tb = c.bars[0].0.min(c.t0);
    let mut now = tb;
    let mut pre = vec![];
    let npre = *r.pick(&[0u64, 3, 11, 12, 25, 40]);
    let style = *r.pick(&[1u64, 1, 2]);
    for _ in 0..npre {
        now += match r.below(8) {
            0..=3 => 0,
            4 => 1,
            5 => r.below(MS),
            6 => *r.pick(&[MS - 1, MS, MS + 1]),
            _ => r.below(3 * MS),
        };
        pre.push((now, 0, gen_op(r, style)));
    }
    let t_attach = now + *r.pick(&[0u64, 0, 1, MS / 2, MS - 1, MS, MS + 1, 5 * MS]);
    for op in c.ops.iter_mut() {
        op.0 = t_attach + (op.0 - base);
    }
    c.t0 = t_attach;
    c.bars[0].0 = tb;
    c.pre = pre;
    c.late = true;
    c
}

/// stream `step-back`: an ordinary history in which some calls are made with the mock clock set
/// BACKWARDS - a little (before the limiter's `prev`: early exit of RateLimiter::allow), before the
/// creation of the called bar (early exit of AtomicPosition::allow) or before the creation of the
/// target -, after which the clock either returns to where it was or continues from there
fn gen_step_back_case(r: &mut Rng, rate: Option<u8>, multi: bool) -> Case {
    let mut c = gen_case(r, rate, multi, "step-back");
    let iv = rate.map(interval_ns).unwrap_or(MS);
    let mut shift: u64 = 0; // permanent backward shift accumulated so far
    let mut any = false;
    let n = c.ops.len();
    for k in 0..n {
        let (t, i, _) = c.ops[k].clone();
        let mut t2 = t - shift.min(t - 1);
        if r.chance(1, 7) || (k + 1 == n && !any) {
            any = true;
            let back = match r.below(6) {
                0 => 1,
                1 => r.range(1, iv),
                2 => r.range(1, 3 * iv),
                3 => t2.saturating_sub(c.bars[i].0) + 1 + r.below(1000), // before the bar's creation
                4 => t2.saturating_sub(c.t0) + 1 + r.below(1000),        // before the target's creation
                _ => r.range(1, MS),
            }
            .min(t2 - 1);
            t2 -= back;
            if r.chance(1, 3) {
                shift += back;
            }
        }
        c.ops[k].0 = t2;
    }
    c
}

fn corpus() -> Vec<Case> {
    let t0 = ORIGIN_NS;
    let ticks = |times: Vec<u64>| -> Vec<(u64, usize, Op)> { times.into_iter().map(|t| (t, 0, Op::Tick)).collect() };
    let mut v = vec![];
    // D27 (OPEN, known_findings.json; Coq: C05_nothing_lost_member_refuted, C05_nonvacuous_sys):
    // deterministic witness, first in the corpus so that the KNOWN-FINDING line always appears.
    // MultiProgress at 1 Hz, members A and B.  Eleven A.inc(1) at +5 ns: ten reach and are painted,
    // the eleventh is refused by A's own position limiter (burst 10, 1 ms) - A.position() == 11, A's
    // stored lines say 10.  B.tick() at +6 ns is painted: the frame shows "10/100/0" for A.
    v.push(Case {
        multi: true,
        rate: Some(1),
        t0,
        bars: vec![(t0, 100), (t0, 100)],
        ops: (0..11).map(|_| (t0 + 5, 0, Op::Inc(1))).chain([(t0 + 6, 1, Op::Tick)]).collect(),
        pre: vec![],
        late: false,
        tag: "corpus:D27-member-stale-after-throttled-inc".into(),
    });
    // the audit's witness (docs/audit-parts/C05.md section 4): twelve inc on member 1, then a tick
    // of member 0 thirty seconds later still shows member 1 at 10
    v.push(Case {
        multi: true,
        rate: Some(1),
        t0,
        bars: vec![(t0, 10), (t0, 10)],
        ops: (0..12).map(|_| (t0, 1, Op::Inc(1))).chain([(t0 + 30 * NS, 0, Op::Tick)]).collect(),
        pre: vec![],
        late: false,
        tag: "corpus:D27-audit-witness-30s".into(),
    });
    // D27 seen by the staleness oracle: A goes out of sync at +10 ns; B drains the bucket at 1.5 s
    // (ten frames, all showing A's old position); A.tick() at 1.9 s is a draw step refused by the
    // target's limiter: the frames younger than 1/R + 1 ms all show A stale, the last frame with
    // A's then-current row is the one at +0 (1.9 s old).  Afterwards A is in sync again (the tick
    // was a draw step) and the frame at 2.0 s shows it.
    v.push(Case {
        multi: true,
        rate: Some(1),
        t0,
        bars: vec![(t0, 100), (t0, 100)],
        ops: (0..10)
            .map(|_| (t0, 0, Op::Inc(1)))
            .chain([(t0 + 10, 0, Op::Inc(1))])
            .chain((0..11).map(|_| (t0 + 1_500_000_000, 1, Op::Tick)))
            .chain([(t0 + 1_900_000_000, 0, Op::Tick), (t0 + 2 * NS, 1, Op::Tick)])
            .collect(),
        pre: vec![],
        late: false,
        tag: "corpus:D27-stale-at-call".into(),
    });
    // a member that asks for its first frame while the bucket is empty appears with the next painted
    // frame, whoever triggers it (Interpretations in docs/C05.md): B drains, A.set_message refused,
    // B.tick one interval later shows both rows
    v.push(Case {
        multi: true,
        rate: Some(2),
        t0,
        bars: vec![(t0, 7), (t0, 8)],
        ops: (0..21)
            .map(|k| (t0 + k, 1, Op::Tick))
            .chain([(t0 + 30, 0, Op::SetMsg(5)), (t0 + 35, 0, Op::SetPrefix(9)), (t0 + 40, 0, Op::Inc(2)), (t0 + NS / 2, 1, Op::Tick), (t0 + NS / 2 + 1, 0, Op::Tick)])
            .collect(),
        pre: vec![],
        late: false,
        tag: "corpus:multi-first-row-waits-for-a-token".into(),
    });
    // finding 25 of docs/AUDIT3.md = C05_frame_age_late_target_refuted / C05_nonvacuous_late_target:
    // ten inc at 0.4 ms on the hidden target drain the bar's position limiter, a 1 Hz target is
    // attached at 0.5 ms; the inc at 0.5 and 0.9 ms are swallowed by the bar's own limiter (no frame
    // although the target's bucket is full), the one at 1.5 ms is painted
    v.push(Case {
        multi: false,
        rate: Some(1),
        t0: t0 + 500_000,
        bars: vec![(t0, 100)],
        pre: (0..10).map(|_| (t0 + 400_000, 0, Op::Inc(1))).collect(),
        late: true,
        ops: vec![(t0 + 500_000, 0, Op::Inc(1)), (t0 + 900_000, 0, Op::Inc(1)), (t0 + 1_500_000, 0, Op::Inc(1))],
        tag: "corpus:late-target-drained-position-limiter".into(),
    });
    // the clock set backwards (finding 26): a tick 1 ns before the limiter's `prev` (early exit
    // `now < prev` of RateLimiter::allow, nothing painted although the bucket is full), an inc
    // before the bar's creation (early exit `now < start` of AtomicPosition::allow: no tracker
    // tick), then forwards again
    v.push(Case {
        multi: false,
        rate: Some(20),
        t0: t0 + 10,
        bars: vec![(t0 + 20, 100)],
        pre: vec![],
        late: false,
        ops: vec![
            (t0 + 30, 0, Op::Tick),
            (t0 + 9, 0, Op::Tick),
            (t0 + 19, 0, Op::Inc(1)),
            (t0 + 5, 0, Op::SetMsg(3)),
            (t0 + 40, 0, Op::Inc(1)),
            (t0 + 29, 0, Op::Tick),
        ],
        tag: "corpus:clock-set-back-early-exits".into(),
    });
    // shape of seeded C05-5: a bar sitting exactly at pos == len under repeated tick / set_message
    // (stand-alone and as a MultiProgress member): 300 requests within 300 microseconds at 1 Hz
    for multi in [false, true] {
        v.push(Case {
            multi,
            rate: Some(1),
            t0,
            bars: if multi { vec![(t0, 7), (t0, 9)] } else { vec![(t0, 7)] },
            pre: vec![],
            late: false,
            ops: std::iter::once((t0 + 1, 0, Op::SetPos(7)))
                .chain((0..300).map(|k| (t0 + 2 + k * 1000, 0, if k % 2 == 0 { Op::Tick } else { Op::SetMsg(k) })))
                .collect(),
            tag: format!("corpus:bar-at-pos-eq-len-{}", if multi { "member" } else { "standalone" }),
        });
    }
    // shape of seeded C05-6: reset() between bursts of position updates on an unthrottled target -
    // 40 batches of reset + 15 inc within 20 microseconds each, 50 microseconds apart
    v.push(Case {
        multi: false,
        rate: None,
        t0,
        bars: vec![(t0, 1000)],
        pre: vec![],
        late: false,
        ops: (0..40u64)
            .flat_map(|b| {
                std::iter::once((t0 + 100 + b * 50_000, 0, Op::Reset))
                    .chain((0..15u64).map(move |k| (t0 + 101 + b * 50_000 + k * 1000, 0, Op::Inc(1))))
            })
            .collect(),
        tag: "corpus:reset-between-bursts".into(),
    });
    // D12 (fixed by e4a1051): 20 Hz, full bucket; 21 requests 1 ns before the second token
    // matures and one when it does: the old code painted all 22 within 1 ns (a request that met a
    // full bucket was free, plus the carried token); at most 21 may be painted
    v.push(Case {
        multi: false,
        rate: Some(20),
        t0,
        bars: vec![(t0, 100)],
        ops: ticks(
            std::iter::repeat(t0 + 100_000_000 - 1).take(21).chain([t0 + 100_000_000, t0 + 100_000_000]).collect(),
        ),
        pre: vec![],
        late: false,
        tag: "corpus:D12-burst-22-in-1ns".into(),
    });
    // the same from a fresh bucket: 23 requests within 1 microsecond
    v.push(Case {
        multi: false,
        rate: Some(20),
        t0,
        bars: vec![(t0, 100)],
        ops: ticks((0..23).map(|k| t0 + 40 * k).collect()),
        pre: vec![],
        late: false,
        tag: "corpus:burst-from-new".into(),
    });
    // D13 (fixed by 3894c8b): 255 Hz, one request every 3 ms (the old interval) for 1.2 s
    v.push(Case {
        multi: false,
        rate: Some(255),
        t0,
        bars: vec![(t0, 100)],
        ops: ticks((0..400).map(|k| t0 + 3 * MS * k).collect()),
        pre: vec![],
        late: false,
        tag: "corpus:D13-255Hz-every-3ms".into(),
    });
    // D13 at 3 Hz: every 333 ms (old interval) for 100 s
    v.push(Case {
        multi: false,
        rate: Some(3),
        t0,
        bars: vec![(t0, 100)],
        ops: ticks((0..300).map(|k| t0 + 333 * MS * k).collect()),
        pre: vec![],
        late: false,
        tag: "corpus:D13-3Hz-every-333ms".into(),
    });
    // D12 on the position limiter (unthrottled target): 11 inc 1 ns before the second token
    // matures and one when it does – the old code let all 12 through within 1 ns
    v.push(Case {
        multi: false,
        rate: None,
        t0,
        bars: vec![(t0, 100)],
        ops: std::iter::repeat(t0 + 2 * MS - 1)
            .take(11)
            .chain([t0 + 2 * MS, t0 + 2 * MS])
            .map(|t| (t, 0, Op::Inc(1)))
            .collect(),
        pre: vec![],
        late: false,
        tag: "corpus:D12-pos-burst-12-in-1ns".into(),
    });
    // position limiter: carried token, then reset() in the middle of a drained bucket
    v.push(Case {
        multi: false,
        rate: None,
        t0,
        bars: vec![(t0, 100)],
        ops: std::iter::once((t0 + MS - 1, 0, Op::Inc(1)))
            .chain((0..13).map(|k| (t0 + MS + k, 0, Op::Inc(1))))
            .chain(std::iter::once((t0 + 2 * MS - 5, 0, Op::Reset)))
            .chain((0..3).map(|k| (t0 + 2 * MS + 10 + k * (MS / 2), 0, Op::Inc(1))))
            .collect(),
        pre: vec![],
        late: false,
        tag: "corpus:pos-carried-token-reset".into(),
    });
    // exact liveness boundary at every "awkward" rate: drain, then I-1 / I after the last frame
    for r in [1u8, 3, 7, 30, 60, 144, 254, 255] {
        let iv = interval_ns(r);
        let mut ts: Vec<u64> = (0..21).map(|_| t0).collect();
        let mut t = t0;
        for _ in 0..6 {
            ts.push(t + iv - 1);
            ts.push(t + iv);
            t += iv;
        }
        v.push(Case {
            multi: false,
            rate: Some(r),
            t0,
            bars: vec![(t0, 100)],
            ops: ticks(ts),
            pre: vec![],
            late: false,
            tag: format!("corpus:liveness-boundary-{r}Hz"),
        });
    }
    // MultiProgress: three bars, a burst of position updates on all of them, frames must show all rows
    v.push(Case {
        multi: true,
        rate: Some(20),
        t0,
        bars: vec![(t0, 10), (t0, 20), (t0 + 1, 30)],
        ops: (0..40).map(|k| (t0 + 2 + k * 1000, (k % 3) as usize, Op::Inc(1))).collect(),
        pre: vec![],
        late: false,
        tag: "corpus:multi-burst".into(),
    });
    // skipped draws lose nothing: message/length/position changed while throttled, next frame shows them
    v.push(Case {
        multi: false,
        rate: Some(1),
        t0,
        bars: vec![(t0, 100)],
        ops: (0..20)
            .map(|k| (t0 + k, 0, Op::Tick))
            .chain(vec![
                (t0 + 100, 0, Op::SetMsg(7)),
                (t0 + 101, 0, Op::SetLen(55)),
                (t0 + 102, 0, Op::SetPos(9)),
                (t0 + 103, 0, Op::Inc(3)),
                (t0 + 104, 0, Op::SetPrefix(42)),
                (t0 + NS - 1, 0, Op::Tick),
                (t0 + NS, 0, Op::Tick),
            ])
            .collect(),
        pre: vec![],
        late: false,
        tag: "corpus:nothing-lost".into(),
    });
    v
}

/// quick tier: these fixed rates (every stratum of 32 has at least one) plus, per run, one rate
/// drawn from each stratum and one more from the whole range (`quick_rates`)
const QUICK_FIXED_RATES: [u8; 15] = [1, 3, 20, 30, 60, 64, 100, 127, 128, 144, 165, 200, 240, 254, 255];

fn quick_rates(r: &mut Rng) -> Vec<u8> {
    let mut v = QUICK_FIXED_RATES.to_vec();
    let mut draw = |lo: u64, hi: u64, v: &mut Vec<u8>| {
        for _ in 0..64 {
            let x = r.range(lo, hi) as u8;
            if !v.contains(&x) {
                v.push(x);
                return;
            }
        }
    };
    for k in 0..8u64 {
        draw((32 * k).max(1), 32 * k + 31, &mut v);
    }
    draw(1, 255, &mut v);
    v.sort_unstable();
    v
}

fn main() {
    let a = args();
    let header = "From IndModel Require Import Base Limiter.\nOpen Scope N_scope.\n";
    let mut s = Session::new(&a, "C05", header, "(syscfg * list (N * N * bop) * list (N * N * bop) * list sout)%type", "c05_check");
    s.shard_size = 60;
    s.rule = "call histories (1..150 calls of tick/inc/dec/set_position/set_message/set_length/set_prefix/reset at chosen mock-clock instants; gaps from the alphabet {0,1ns,I-1,I,I+1,kI-1,kI,kI+1,1h} for I = the refresh interval and I = 1 ms, mixed with random gaps; burst/sustained/drain-refill patterns) on a stand-alone bar over term_like_with_hz(R) (quick: 24 refresh rates per run = 15 fixed awkward ones + one drawn from each of the 8 strata 1-31, 32-63, .., 224-255 + one more, all from the seed; thorough/extended: every R in 1..=255), an unthrottled term_like target, or 1..3 members of a MultiProgress over term_like_with_hz(R); observed per call: tracker tick notification (position limiter verdict) and flush + painted rows pos/len/msg/prefix (target limiter verdict, frame content); two further streams: late-target (a stand-alone bar is first driven on a hidden target, then a throttled target is attached with set_draw_target: t0 > tb, position limiter not fresh) and step-back (the mock clock is set backwards for some calls: the early exits `now < prev` / `now < start`; timing clauses of the oracle off for these histories); in a quarter of all cases bars are older than the target; non-trivial = at least one painted and one skipped call; distinct = distinct case text".into();
    let mut r = Rng::new(a.seed);
    let mut d27_reported = 0u64;
    for c in corpus() {
        run_case(&mut s, &c, &mut d27_reported);
    }
    let per_rate: usize = if a.thorough { 14 } else if a.extended { 40 } else { 16 };
    let rates: Vec<u8> = if a.thorough || a.extended { (1..=255).collect() } else { quick_rates(&mut r) };
    s.notes.push(format!("refresh rates of this run ({}): {:?}; histogram per stratum of 32: input_distribution keys rate:*", rates.len(), rates));
    for &rate in &rates {
        for k in 0..per_rate {
            let multi = k % 4 == 3;
            let c = gen_case(&mut r, Some(rate), multi, "gen");
            run_case(&mut s, &c, &mut d27_reported);
        }
    }
    // stream late-target (set_draw_target after calls on a hidden target) and stream step-back
    // (non-monotone instants); rates from the same stratified list
    let (n_late, n_back): (usize, usize) = if a.thorough { (255, 255) } else if a.extended { (600, 600) } else { (48, 48) };
    for k in 0..n_late {
        let rate = rates[k % rates.len()];
        let c = gen_late_case(&mut r, rate);
        run_case(&mut s, &c, &mut d27_reported);
    }
    for k in 0..n_back {
        let rate = if k % 6 == 5 { None } else { Some(rates[(k * 7) % rates.len()]) };
        let c = gen_step_back_case(&mut r, rate, k % 3 == 2);
        run_case(&mut s, &c, &mut d27_reported);
    }
    // unthrottled target: the position limiter alone
    let n_free = if a.thorough { 600 } else if a.extended { 1500 } else { 200 };
    for k in 0..n_free {
        let c = gen_case(&mut r, None, k % 5 == 4, "gen");
        run_case(&mut s, &c, &mut d27_reported);
    }
    set_auto_step_ns(0);
    s.finish();
}
