//! C03 – printed log lines are never erased, duplicated or reordered: log-heavy histories over a
//! single bar and over a MultiProgress whose refresh limiter is exhausted most of the time.
use verif_harness::sysoracle::*;
use verif_harness::sysrun::*;
use verif_harness::*;

fn main() {
    let a = args();
    let mut s = Session::new(&a, "C03", COQ_HEADER, COQ_CASE_TY, COQ_CHECKER);
    s.shard_size = 120;
    s.rule = "log-heavy histories (println of the MultiProgress and of members, suspend, clear, interleaved with updates, finishes, drops in every order, removals) on targets with refresh rates 1/20/255 Hz and bursts of zero-gap updates so that most ordinary draws are skipped, plus unlimited targets; also single standalone bars; non-trivial = at least two log emissions and one skipped draw or one drop; distinct = distinct case text".into();
    let mut r = Rng::new(a.seed);
    let n = if a.thorough { 6000 } else if a.extended { 3000 } else { 500 };
    let mut cases = corpus();
    for i in 0..n {
        let mut cfg = GenCfg::default_multi();
        cfg.w_log = 35;
        cfg.w_finish = 15;
        cfg.w_struct = 15;
        cfg.bursts = i % 4 != 0;
        cfg.hz = match i % 5 {
            0 => None,
            1 => Some(1),
            2 => Some(20),
            3 => Some(255),
            _ => Some(1),
        };
        cfg.bottom = i % 3 == 1;
        cases.push(gen_multi_case(&mut r, &cfg));
    }
    run_sys_cases(&mut s, &cases, &|c, obs| {
        let logs = c.ops.iter().filter(|(_, o)| matches!(o, Op::Println(..) | Op::MPrintln(_) | Op::Suspend(..) | Op::MSuspend(_))).count();
        let skipped = obs.iter().filter(|o| o.emitted.is_empty()).count();
        let drops = c.ops.iter().filter(|(_, o)| matches!(o, Op::Drop(_))).count();
        logs >= 2 && (skipped >= 1 || drops >= 1)
    });
    s.finish();
}

fn corpus() -> Vec<Case> {
    let b = |tmpl: Vec<TPart>, fin| BarInit { len: Some(10), fin, tmpl, target: TInit::Hidden };
    let t = |id: &str| vec![TPart::Lit(id.into()), TPart::Pos];
    let mk = |hz, bars: Vec<BarInit>, ops: Vec<(u64, Op)>| Case { w: 20, h: 50, fail_at: vec![], fail_from: None, mp: TInit::Term(hz), bars, ops };
    let ml = |id: &str| vec![TPart::Lit(id.into()), TPart::Msg, TPart::Lit(" ".into()), TPart::Pos, TPart::Lit("/".into()), TPart::Len];
    vec![
        // bottom alignment, shrunken frame, then println of a member: the text is painted below the
        // padding rows and counted in last_line_count (reported by the reviewer, InMemoryTerm 12x40)
        Case {
            w: 40,
            h: 12,
            fail_at: vec![],
            fail_from: None,
            mp: TInit::Term(None),
            bars: vec![b(ml("a"), Fin::AndClear), b(ml("b"), Fin::AndClear), b(ml("c"), Fin::AndClear)],
            ops: vec![
                (0, Op::SetAlign(true)),
                (0, Op::Insert(Loc::End, 0)),
                (0, Op::Insert(Loc::End, 1)),
                (0, Op::Insert(Loc::End, 2)),
                (1_000_000, Op::Tick(0)),
                (2_000_000, Op::Tick(1)),
                (3_000_000, Op::Tick(2)),
                (4_000_000, Op::Remove(0)),
                (5_000_000, Op::Finish(1, Fin::AndClear)),
                (6_000_000, Op::Println(2, "x".into())),
                (7_000_000, Op::Tick(2)),
            ],
        },
        // D6: refused draws while the head member is a zombie, then println
        mk(
            Some(1),
            vec![b(t("A"), Fin::AndLeave), b(t("B"), Fin::AndLeave), b(t("C"), Fin::AndLeave)],
            {
                let mut v = vec![
                    (0, Op::MPrintln("log1".into())),
                    (0, Op::MPrintln("log2".into())),
                    (0, Op::MPrintln("log3".into())),
                    (0, Op::Insert(Loc::End, 0)),
                    (0, Op::Insert(Loc::End, 1)),
                    (0, Op::Insert(Loc::End, 2)),
                    (1, Op::Tick(0)),
                    (2, Op::Finish(1, Fin::AndLeave)),
                    (3, Op::Drop(1)),
                    (4, Op::Finish(0, Fin::AndLeave)),
                    (5, Op::Drop(0)),
                ];
                for i in 0..40 {
                    v.push((6 + i, Op::Tick(2)));
                }
                v.push((100, Op::MPrintln("log4".into())));
                v.push((2_000_000_000, Op::Tick(2)));
                v
            },
        ),
        // D8: member println below kept rows, then multi println
        mk(
            None,
            vec![b(t("A"), Fin::AndLeave), b(t("B"), Fin::AndLeave)],
            vec![
                (0, Op::Insert(Loc::End, 0)),
                (0, Op::Insert(Loc::End, 1)),
                (1_000_000, Op::Tick(0)),
                (2_000_000, Op::Tick(1)),
                (3_000_000, Op::Finish(0, Fin::AndLeave)),
                (4_000_000, Op::Drop(0)),
                (5_000_000, Op::Println(1, "from-bar".into())),
                (6_000_000, Op::MPrintln("from-multi".into())),
                (7_000_000, Op::Tick(1)),
            ],
        ),
    ]
}
