//! C03 – printed log lines are never erased, duplicated or reordered: log-heavy histories over a
//! MultiProgress whose refresh limiter is exhausted most of the time, every drop order, both
//! alignments; correspondence with model/Sys.v + the screen oracle (sysoracle.rs).
use verif_harness::sysoracle::*;
use verif_harness::sysrun::*;
use verif_harness::*;

fn main() {
    let a = args();
    let mut s = Session::new(&a, "C03", COQ_HEADER, COQ_CASE_TY, COQ_CHECKER);
    s.shard_size = 120;
    s.rule = "corpus (open-finding witness D28 empty closure line after a text-only draw first, old witnesses D6, D7, D8, D21, suspend/bottom 96a75c4, bottom println 951c29f, always-refusing limiter, every drop order of three bars) + log-heavy random histories (println of the MultiProgress and of members, suspend, clear, interleaved with updates, finishes, drops in every order, removals) on targets with refresh rates 1/20/255 Hz and bursts of zero-gap updates so that most ordinary draws are skipped, plus unlimited targets; top alignment and (one third) bottom alignment; + one direct height-cut witness (D14 on a 3x1 terminal) + an ORACLE-ONLY stream of zero-width / double-width text in bar lines next to printed lines (sysrun::unicode_width_stream, vt100 emulator; the model is single-column); non-trivial = at least two log emissions and one skipped draw or one drop; distinct = distinct case text".into();
    let mut r = Rng::new(a.seed);
    let n = if a.thorough { 6000 } else if a.extended { 3000 } else { 500 };
    let mut cases = corpus();
    for i in 0..n {
        let mut cfg = GenCfg::default_multi();
        cfg.w_log = 35;
        cfg.w_finish = 15;
        cfg.w_struct = 15;
        cfg.bursts = i % 4 != 0;
        cfg.hz = match i % 5 {
            0 => None,
            1 => Some(1),
            2 => Some(20),
            3 => Some(255),
            _ => Some(1),
        };
        cfg.bottom = i % 3 == 1;
        cases.push(gen_multi_case(&mut r, &cfg));
    }
    run_sys_cases_mode(&mut s, &cases, &|c, obs| {
        let logs = c.ops.iter().filter(|(_, o)| matches!(o, Op::Println(..) | Op::MPrintln(_) | Op::Suspend(..) | Op::MSuspend(_))).count();
        let skipped = obs.iter().filter(|o| o.emitted.is_empty()).count();
        let drops = c.ops.iter().filter(|(_, o)| matches!(o, Op::Drop(_))).count();
        logs >= 2 && (skipped >= 1 || drops >= 1)
    }, false); // kept rows of finished, dropped bars are not C03's business (C04/C19 check them)
    height_cut_case(&mut s);
    // ORACLE ONLY (the Coq model is single-column: one char = one cell): zero-width combining and
    // double-width characters in bar lines next to printed lines - a line whose chars().count()
    // differs from its display width must be counted in DISPLAY rows, otherwise a redraw erases the log
    // line above the frame (seeded change C03-6).  Generator and oracle: sysrun::unicode_width_stream
    // (judged on the vt100 crate); classes `log-line-lost-next-to-non-unit-width-text`,
    // `non-unit-width-frame-rows-miscounted`.
    let checks = unicode_width_stream(&mut s, &mut r, if a.thorough { 2000 } else if a.extended { 1000 } else { 200 });
    s.count_n("unicode_width_screen_checks", checks);
    s.finish();
}

/// Coq witness C03_log_outside_fits_refuted replayed on the implementation: a MultiProgress on a
/// 3 x 1 terminal with one member whose frame "AAAA" needs two rows (never fits); println("x");
/// println("y") must leave the rows "x" and "y" - the implementation leaves ONE row "xy" (the frame
/// cut by the height leaves the cursor in the middle of a row, the next text-only draw continues
/// there).  This is the open finding D14 `height-cut-leaves-cursor-mid-row` (C19, C04, and
/// cross-listed for C03: two printed lines merged into one row).  The random histories of this
/// check use heights 60/200 and practically never reach the cut.
const REPORT_HEIGHT_CUT_FINDING: bool = true;

fn height_cut_case(s: &mut Session) {
    use indicatif::verif_clock as vc;
    use indicatif::{MultiProgress, ProgressBar, ProgressDrawTarget, ProgressStyle};
    use verif_harness::spy::Spy;
    let desc = "height-cut witness (C03_log_outside_fits_refuted): 3x1 terminal, member with frame \"AAAA\"; add; tick; println x; println y".to_string();
    vc::set_clock_ns(vc::ORIGIN_NS);
    vc::set_auto_step_ns(0);
    let spy = Spy::new(3, 1);
    let res = catch(|| {
        let mp = MultiProgress::with_draw_target(ProgressDrawTarget::term_like(Box::new(spy.clone())));
        let pb = ProgressBar::with_draw_target(Some(10), ProgressDrawTarget::hidden());
        pb.set_style(ProgressStyle::with_template("AAAA").unwrap());
        let pb = mp.add(pb);
        vc::advance_clock_ns(1_000_000);
        pb.tick();
        vc::advance_clock_ns(1_000_000);
        let _ = mp.println("x");
        vc::advance_clock_ns(1_000_000);
        let _ = mp.println("y");
        (mp, pb)
    });
    let keep = match res {
        Err(e) => {
            s.fail("panic", e, desc.clone());
            s.oracle_only(desc, true);
            return;
        }
        Ok(k) => k,
    };
    let mut vt = Vt::new(3, 1);
    vt.feed(&spy.take());
    let rows = vt.rows();
    let has = |l: &str| rows.iter().filter(|r| r.as_str() == l).count();
    if has("x") != 1 || has("y") != 1 {
        let detail = format!("printed lines \"x\", \"y\" must each be one row of the terminal; rows ever written: {rows:?}");
        if REPORT_HEIGHT_CUT_FINDING {
            s.fail("height-cut-leaves-cursor-mid-row", detail, desc.clone());
        } else {
            s.count("unregistered-finding:height-cut-leaves-cursor-mid-row");
        }
    }
    let _ = catch(move || drop(keep));
    s.oracle_only(desc, true);
}

fn corpus() -> Vec<Case> {
    let b = |tmpl: Vec<TPart>, fin| BarInit { len: Some(10), fin, tmpl, target: TInit::Hidden };
    let t = |id: &str| vec![TPart::Lit(id.into()), TPart::Pos];
    let mk = |w: u16, hz, bars: Vec<BarInit>, ops: Vec<(u64, Op)>| Case { w, h: 50, fail_at: vec![], fail_from: None, mp: TInit::Term(hz), bars, ops };
    let ms = 1_000_000u64;
    let abc = || vec![b(t("A"), Fin::AndLeave), b(t("B"), Fin::AndLeave), b(t("C"), Fin::AndLeave)];
    let mut v = vec![
        // open finding `empty-line-after-text-only-draw-swallowed` (D28; Coq witness
        // C03_empty_line_swallowed_refuted), FIRST so that its KNOWN-FINDING line is stable: a
        // text-only draw that fills the row exactly, then a suspend closure whose first line is empty
        mk(5, None, abc(), vec![(0, Op::MPrintln("hello".into())), (ms, Op::MSuspend(vec!["".into()])), (2 * ms, Op::MPrintln("x".into()))]),
        // D6: refused draws while the head member is a zombie, then println (fixed by 7be6e32)
        mk(20, Some(1), abc(), {
            let mut v = vec![
                (0, Op::MPrintln("log1".into())),
                (0, Op::MPrintln("log2".into())),
                (0, Op::MPrintln("log3".into())),
                (0, Op::Insert(Loc::End, 0)),
                (0, Op::Insert(Loc::End, 1)),
                (0, Op::Insert(Loc::End, 2)),
                (1, Op::Tick(0)),
                (2, Op::Finish(1, Fin::AndLeave)),
                (3, Op::Drop(1)),
                (4, Op::Finish(0, Fin::AndLeave)),
                (5, Op::Drop(0)),
            ];
            for i in 0..40 {
                v.push((6 + i, Op::Tick(2)));
            }
            v.push((100, Op::MPrintln("log4".into())));
            v.push((2_000_000_000, Op::Tick(2)));
            v
        }),
        // D7: println while the head member is a zombie (a non-first bar finished and dropped first)
        mk(
            20,
            None,
            abc(),
            vec![
                (0, Op::MPrintln("log1".into())),
                (0, Op::Insert(Loc::End, 0)),
                (0, Op::Insert(Loc::End, 1)),
                (ms, Op::Tick(0)),
                (2 * ms, Op::Tick(1)),
                (3 * ms, Op::Finish(1, Fin::AndLeave)),
                (4 * ms, Op::Drop(1)),
                (5 * ms, Op::Finish(0, Fin::AndLeave)),
                (6 * ms, Op::MPrintln("log2".into())),
                (7 * ms, Op::Drop(0)),
                (8 * ms, Op::MPrintln("log3".into())),
                (9 * ms, Op::Insert(Loc::End, 2)),
                (10 * ms, Op::Tick(2)),
            ],
        ),
        // D8: member println below kept rows, then multi println (fixed by bae6780)
        mk(
            20,
            None,
            vec![b(t("A"), Fin::AndLeave), b(t("B"), Fin::AndLeave)],
            vec![
                (0, Op::Insert(Loc::End, 0)),
                (0, Op::Insert(Loc::End, 1)),
                (ms, Op::Tick(0)),
                (2 * ms, Op::Tick(1)),
                (3 * ms, Op::Finish(0, Fin::AndLeave)),
                (4 * ms, Op::Drop(0)),
                (5 * ms, Op::Println(1, "from-bar".into())),
                (6 * ms, Op::MPrintln("from-multi".into())),
                (7 * ms, Op::Tick(1)),
            ],
        ),
        // D21: remove(first) then drop of an already finished new head, then println (dbf4cde)
        mk(
            20,
            None,
            abc(),
            vec![
                (0, Op::MPrintln("log1".into())),
                (0, Op::Insert(Loc::End, 0)),
                (0, Op::Insert(Loc::End, 1)),
                (0, Op::Insert(Loc::End, 2)),
                (ms, Op::Tick(0)),
                (2 * ms, Op::Tick(1)),
                (3 * ms, Op::Tick(2)),
                (4 * ms, Op::Finish(1, Fin::AndLeave)),
                (5 * ms, Op::Remove(0)),
                (6 * ms, Op::Drop(1)),
                (7 * ms, Op::MPrintln("log2".into())),
                (8 * ms, Op::Tick(2)),
            ],
        ),
        // always-refusing limiter: all calls at the same instant after the burst is spent
        mk(12, Some(1), abc(), {
            let mut v = vec![(0, Op::Insert(Loc::End, 0)), (0, Op::Insert(Loc::End, 1)), (0, Op::Insert(Loc::End, 2))];
            for i in 0..30u64 {
                v.push((0, Op::Tick((i % 3) as usize)));
            }
            v.push((0, Op::MPrintln("p1".into())));
            for i in 0..10u64 {
                v.push((0, Op::Inc((i % 3) as usize, 1)));
            }
            v.push((0, Op::Println(1, "p2\np3".into())));
            v.push((0, Op::Drop(1)));
            v.push((0, Op::MSuspend(vec!["s1".into()])));
            v.push((0, Op::Drop(0)));
            v.push((0, Op::MPrintln("p4".into())));
            v.push((0, Op::Drop(2)));
            v.push((0, Op::MPrintln("p5".into())));
            v
        }),
        // suspend under bottom alignment (96a75c4) and println on a shrunken bottom frame (951c29f)
        mk(
            40,
            None,
            vec![b(t("a"), Fin::AndClear), b(t("b"), Fin::AndClear), b(t("c"), Fin::AndClear)],
            vec![
                (0, Op::SetAlign(true)),
                (0, Op::Insert(Loc::End, 0)),
                (0, Op::Insert(Loc::End, 1)),
                (0, Op::Insert(Loc::End, 2)),
                (ms, Op::Tick(0)),
                (2 * ms, Op::Tick(1)),
                (3 * ms, Op::Tick(2)),
                (4 * ms, Op::MSuspend(vec!["closure".into()])),
                (5 * ms, Op::Remove(0)),
                (6 * ms, Op::Finish(1, Fin::AndClear)),
                (7 * ms, Op::Println(2, "x".into())),
                (8 * ms, Op::Tick(2)),
                (9 * ms, Op::MPrintln("y\nz".into())),
                (10 * ms, Op::Tick(2)),
                (11 * ms, Op::MClear),
                (12 * ms, Op::MPrintln("w".into())),
            ],
        ),
    ];
    // every order of finishing + dropping three bars, a println after every drop
    let perms: [[usize; 3]; 6] = [[0, 1, 2], [0, 2, 1], [1, 0, 2], [1, 2, 0], [2, 0, 1], [2, 1, 0]];
    for (k, p) in perms.iter().enumerate() {
        let mut ops = vec![
            (0, Op::MPrintln("start".into())),
            (0, Op::Insert(Loc::End, 0)),
            (0, Op::Insert(Loc::End, 1)),
            (0, Op::Insert(Loc::End, 2)),
            (ms, Op::Tick(0)),
            (2 * ms, Op::Tick(1)),
            (3 * ms, Op::Tick(2)),
        ];
        let mut tt = 4 * ms;
        for (j, bb) in p.iter().enumerate() {
            if (k + j) % 2 == 0 {
                ops.push((tt, Op::Finish(*bb, if j == 1 { Fin::AndClear } else { Fin::AndLeave })));
                tt += ms;
            }
            ops.push((tt, Op::Drop(*bb)));
            tt += ms;
            ops.push((tt, if j % 2 == 0 { Op::MPrintln(format!("after{j}")) } else { Op::Println(p[2], format!("bar{j}")) }));
            tt += ms;
        }
        v.push(mk(20, if k % 2 == 0 { None } else { Some(20) }, abc(), ops));
    }
    v
}
