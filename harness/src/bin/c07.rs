//! C07 – position / length bookkeeping: correspondence with model/Pos.v + direct oracle.
use indicatif::{ProgressBar, ProgressDrawTarget};
use verif_harness::*;

#[derive(Clone, Debug)]
enum Op {
    Inc(u64),
    Dec(u64),
    SetPos(u64),
    SetLen(u64),
    IncLen(u64),
    DecLen(u64),
    UnsetLen,
    ResetAll,
    ResetEta,
    ResetElapsed,
    Finish(u8),
    Tick,
}

const FK: [&str; 5] = ["AndLeave", "WithMessage", "AndClear", "Abandon", "AbandonWithMessage"];

impl Op {
    fn coq(&self) -> String {
        match self {
            Op::Inc(d) => format!("Inc {d}"),
            Op::Dec(d) => format!("Dec {d}"),
            Op::SetPos(d) => format!("SetPos {d}"),
            Op::SetLen(d) => format!("SetLen {d}"),
            Op::IncLen(d) => format!("IncLen {d}"),
            Op::DecLen(d) => format!("DecLen {d}"),
            Op::UnsetLen => "UnsetLen".into(),
            Op::ResetAll => "ResetAll".into(),
            Op::ResetEta => "ResetEta".into(),
            Op::ResetElapsed => "ResetElapsed".into(),
            Op::Finish(k) => format!("Finish {}", FK[*k as usize]),
            Op::Tick => "Tick".into(),
        }
    }
    fn apply(&self, pb: &ProgressBar) {
        match self {
            Op::Inc(d) => pb.inc(*d),
            Op::Dec(d) => pb.dec(*d),
            Op::SetPos(d) => pb.set_position(*d),
            Op::SetLen(d) => pb.set_length(*d),
            Op::IncLen(d) => pb.inc_length(*d),
            Op::DecLen(d) => pb.dec_length(*d),
            Op::UnsetLen => pb.unset_length(),
            Op::ResetAll => pb.reset(),
            Op::ResetEta => pb.reset_eta(),
            Op::ResetElapsed => pb.reset_elapsed(),
            Op::Finish(0) => pb.finish(),
            Op::Finish(1) => pb.finish_with_message("m"),
            Op::Finish(2) => pb.finish_and_clear(),
            Op::Finish(3) => pb.abandon(),
            Op::Finish(_) => pb.abandon_with_message("m"),
            Op::Tick => pb.tick(),
        }
    }
}

fn arg(r: &mut Rng) -> u64 {
    const B: [u64; 12] = [
        0,
        1,
        2,
        3,
        1 << 32,
        (1 << 32) - 1,
        1 << 63,
        (1 << 63) - 1,
        u64::MAX - 2,
        u64::MAX - 1,
        u64::MAX,
        1000,
    ];
    if r.chance(3, 5) {
        *r.pick(&B)
    } else if r.chance(1, 2) {
        r.below(100)
    } else {
        r.next()
    }
}

fn gen_op(r: &mut Rng) -> Op {
    match r.below(16) {
        0..=3 => Op::Inc(arg(r)),
        4..=5 => Op::Dec(arg(r)),
        6..=7 => Op::SetPos(arg(r)),
        8 => Op::SetLen(arg(r)),
        9 => Op::IncLen(arg(r)),
        10 => Op::DecLen(arg(r)),
        11 => Op::UnsetLen,
        12 => match r.below(3) {
            0 => Op::ResetAll,
            1 => Op::ResetEta,
            _ => Op::ResetElapsed,
        },
        13..=14 => Op::Finish(r.below(5) as u8),
        _ => Op::Tick,
    }
}

/// independent closed-form oracle (wrapping i128 arithmetic, not a transcription of the code)
fn oracle(l0: Option<u64>, ops: &[Op]) -> (u64, Option<u64>, bool) {
    let m: i128 = 1 << 64;
    let (mut p, mut l, mut f): (i128, Option<i128>, bool) = (0, l0.map(|x| x as i128), false);
    for o in ops {
        match o {
            Op::Inc(d) => p += *d as i128,
            Op::Dec(d) => p -= *d as i128,
            Op::SetPos(d) => p = *d as i128,
            Op::SetLen(d) => l = Some(*d as i128),
            Op::IncLen(d) => l = l.map(|x| (x + *d as i128).min(m - 1)),
            Op::DecLen(d) => l = l.map(|x| (x - *d as i128).max(0)),
            Op::UnsetLen => l = None,
            Op::ResetAll => {
                p = 0;
                f = false
            }
            Op::Finish(k) => {
                f = true;
                if *k <= 2 {
                    if let Some(x) = l {
                        p = x
                    }
                }
            }
            _ => {}
        }
    }
    (p.rem_euclid(m) as u64, l.map(|x| x as u64), f)
}

fn run_case(s: &mut Session, l0: Option<u64>, ops: &[Op], time_step: u64) {
    indicatif::verif_clock::set_auto_step_ns(time_step);
    let desc = format!(
        "len0={:?} step={}ns ops=[{}]",
        l0,
        time_step,
        ops.iter().map(|o| o.coq()).collect::<Vec<_>>().join("; ")
    );
    let pb = ProgressBar::with_draw_target(l0, ProgressDrawTarget::hidden());
    let mut frac_bad = None;
    for (i, o) in ops.iter().enumerate() {
        if let Err(e) = catch(|| o.apply(&pb)) {
            s.fail("panic", format!("op #{i} {} panicked: {e}", o.coq()), desc.clone());
            return;
        }
        // fraction in [0,1], never NaN; 1 for zero length, 0 for unknown length
        let mut fr = 0f32;
        let (mut ps, mut ln) = (0u64, None);
        pb.update(|st| {
            fr = st.fraction();
            ps = st.pos();
            ln = st.len();
        });
        let ok = fr >= 0.0
            && fr <= 1.0
            && match ln {
                None => fr == 0.0,
                Some(0) => fr == 1.0,
                Some(_) if ps == 0 => fr == 0.0,
                Some(l) if ps >= l => fr == 1.0,
                _ => true,
            };
        if !ok && frac_bad.is_none() {
            frac_bad = Some(format!("after op #{i}: fraction={fr} pos={ps} len={ln:?}"));
        }
    }
    let got = (pb.position(), pb.length(), pb.is_finished());
    let want = oracle(l0, ops);
    if got != want {
        s.fail(
            "getter-mismatch",
            format!("getters (pos,len,finished) = {got:?}, history defines {want:?}"),
            desc.clone(),
        );
    }
    if let Some(d) = frac_bad {
        s.fail("fraction", d, desc.clone());
    }
    for o in ops {
        let k = o.coq();
        let k = k.split(' ').next().unwrap().to_string();
        s.count(&format!("op:{k}"));
    }
    s.count(&format!("len:{}", ops.len().min(40) / 10 * 10));
    let coq = format!(
        "({}, {}, ({}, {}, {}))",
        copt(l0.map(|x| x.to_string())),
        clist(ops.iter().map(|o| o.coq())),
        got.0,
        copt(got.1.map(|x| x.to_string())),
        cbool(got.2)
    );
    let nontrivial = ops.len() >= 2;
    s.case(coq, desc, nontrivial);
}

fn stress(s: &mut Session, threads: usize, per: u64) {
    // supporting evidence only (a test, not a proof): no lost update under real threads
    let pb = ProgressBar::with_draw_target(Some(10), ProgressDrawTarget::hidden());
    let mut hs = vec![];
    for t in 0..threads {
        let p = pb.clone();
        hs.push(std::thread::spawn(move || {
            for i in 0..per {
                if (i + t as u64) % 3 == 0 {
                    p.dec(1)
                } else {
                    p.inc(2)
                }
            }
        }));
    }
    let desc = format!("stress threads={threads} per_thread={per}");
    for h in hs {
        if h.join().is_err() {
            s.fail("panic", "a thread calling inc/dec on a clone panicked".into(), desc.clone());
        }
    }
    let mut want: i128 = 0;
    for t in 0..threads {
        for i in 0..per {
            if (i + t as u64) % 3 == 0 {
                want -= 1
            } else {
                want += 2
            }
        }
    }
    let want = want.rem_euclid(1 << 64) as u64;
    if pb.position() != want {
        s.fail(
            "lost-update",
            format!("position {} after concurrent inc/dec, expected {want}", pb.position()),
            desc.clone(),
        );
    }
    s.count("stress_runs");
    s.oracle_only(desc, true);
}

/// Mixed concurrent history whose result does not depend on the interleaving: `threads` clones
/// inc/dec the position while one more clone changes the length (under the bar's mutex) and
/// another one ticks and reads the getters.  Position updates must not be lost, the length must
/// be what its own thread's history defines, and nothing may panic.  (Supporting evidence only.)
fn stress_mixed(s: &mut Session, threads: usize, per: u64) {
    let pb = ProgressBar::with_draw_target(Some(1000), ProgressDrawTarget::hidden());
    let desc = format!("stress-mixed threads={threads}+2 per_thread={per}");
    let mut hs = vec![];
    for t in 0..threads {
        let p = pb.clone();
        hs.push(std::thread::spawn(move || {
            for i in 0..per {
                if (i + t as u64) % 4 == 0 {
                    p.dec(3)
                } else {
                    p.inc(1)
                }
            }
        }));
    }
    let p = pb.clone();
    hs.push(std::thread::spawn(move || {
        for i in 0..per {
            if i % 3 == 0 {
                p.dec_length(1)
            } else {
                p.inc_length(2)
            }
        }
    }));
    let p = pb.clone();
    hs.push(std::thread::spawn(move || {
        for _ in 0..per {
            p.tick();
            let _ = (p.position(), p.length(), p.is_finished());
        }
    }));
    for h in hs {
        if h.join().is_err() {
            s.fail("panic", "a thread of the mixed stress panicked".into(), desc.clone());
        }
    }
    let (mut want, mut wlen): (i128, i128) = (0, 1000);
    for t in 0..threads {
        for i in 0..per {
            want += if (i + t as u64) % 4 == 0 { -3 } else { 1 };
        }
    }
    for i in 0..per {
        wlen += if i % 3 == 0 { -1 } else { 2 };
    }
    let want = want.rem_euclid(1 << 64) as u64;
    if pb.position() != want {
        s.fail(
            "lost-update",
            format!("position {} after concurrent inc/dec next to length changes and ticks, expected {want}", pb.position()),
            desc.clone(),
        );
    }
    if pb.length() != Some(wlen as u64) || pb.is_finished() {
        s.fail(
            "getter-mismatch",
            format!("length {:?} finished {} after the mixed stress, the length thread's history defines Some({wlen}) false", pb.length(), pb.is_finished()),
            desc.clone(),
        );
    }
    s.count("stress_runs");
    s.oracle_only(desc, true);
}

fn main() {
    let a = args();
    let header = "From IndModel Require Import Base Pos.\nOpen Scope N_scope.\n";
    let mut s = Session::new(
        &a,
        "C07",
        header,
        "(option N * list pop * (N * option N * bool))%type",
        "pos_check",
    );
    s.rule = "op histories (length 0..40) over inc/dec/set_position/set_length/inc_length/dec_length/unset_length/reset*/finish*/abandon*/tick with arguments biased to u64 boundaries, on a hidden bar via the public API; non-trivial = at least 2 ops; distinct = distinct (len0, ops) text".into();
    let mut r = Rng::new(a.seed);
    // corpus first
    let corpus: Vec<(Option<u64>, Vec<Op>)> = vec![
        (Some(3), vec![Op::Inc(u64::MAX), Op::Inc(2), Op::Dec(5)]),
        (Some(u64::MAX), vec![Op::IncLen(1), Op::Finish(0), Op::Inc(1)]),
        (None, vec![Op::Finish(0), Op::IncLen(3), Op::DecLen(3)]),
        (Some(0), vec![Op::DecLen(1), Op::SetPos(u64::MAX), Op::Finish(2), Op::ResetAll]),
        (Some(5), vec![Op::SetPos(9), Op::Finish(3), Op::Finish(1)]),
    ];
    for (l, ops) in &corpus {
        run_case(&mut s, *l, ops, 0);
    }
    let n = if a.thorough { 40_000 } else if a.extended { 20_000 } else { 2_000 };
    for _ in 0..n {
        let l0 = match r.below(4) {
            0 => None,
            1 => Some(arg(&mut r)),
            _ => Some(r.below(50)),
        };
        let len = if r.chance(1, 10) { r.below(3) } else { r.below(40) } as usize;
        let ops: Vec<Op> = (0..len).map(|_| gen_op(&mut r)).collect();
        let step = *r.pick(&[0u64, 1, 1_000, 1_000_000, 60_000_000_000]);
        run_case(&mut s, l0, &ops, step);
    }
    indicatif::verif_clock::set_auto_step_ns(0);
    stress(&mut s, 4, 20_000);
    stress(&mut s, 16, if a.thorough { 100_000 } else { 10_000 });
    stress_mixed(&mut s, 8, if a.thorough { 50_000 } else { 5_000 });
    s.finish();
}
