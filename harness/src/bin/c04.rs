//! C04 – finishing or dropping a bar always paints its final state.
//!
//! Generators: (a) a single bar on a 1/20/255 Hz terminal: 25-45 zero-gap ordinary updates (both
//! limiters exhausted), then one of finish / finish_with_message / finish_and_clear / abandon /
//! abandon_with_message / finish_using_style / drop (every stored ProgressFinish), then more
//! calls and the drop; (b) MultiProgress histories with bursts, finishes and drops of all bars
//! in random order; (c) iterator-driven completion: `for _ in pb.wrap_iter(..)` executed on the
//! implementation, every `next()` recorded as one op (Some => inc(1), None => finish_using_style)
//! and compared with the model like any other history.
//! Oracle (independent of the model):
//!   * the final state: position = length (when known) for the finish family and unchanged for
//!     the abandon family, the supplied message, is_finished(),
//!   * the finishing call on a visible standalone bar paints, and what it paints (replayed on
//!     a fresh emulated screen) is exactly the rendering of that final state - nothing for the
//!     clearing variant - however exhausted the limiters are,
//!   * dropping an already finished standalone bar makes no TermLike call,
//!   * MultiProgress members: the screen oracle of sysoracle.rs (forced draws paint; the
//!     screen shows the log, then the items in logical order; visibly finished dropped bars
//!     stay, in order, until a println/clear/suspend/remove intervenes).
use indicatif::{ProgressBar, ProgressDrawTarget, ProgressFinish};
use verif_harness::spy::{Spy, TOp};
use verif_harness::sysoracle::*;
use verif_harness::sysrun::*;
use verif_harness::*;

/// single bar on a rate-limited target: a burst of ordinary updates, then one finish variant / drop
fn gen_single(r: &mut Rng) -> Case {
    let w = *r.pick(&[3u16, 5, 10, 40]);
    let wu = w as usize;
    let bar = BarInit {
        len: if r.chance(1, 4) { None } else { Some(r.below(50)) },
        fin: gen_fin_short(r, wu),
        tmpl: gen_small_tmpl(r, wu, 0),
        target: TInit::Term(Some(*r.pick(&[1u8, 20, 255]))),
    };
    // one case in four: the finishing call carries an instant EARLIER than the last painted frame
    // (what happens when the finishing thread read the clock, then waited for a lock while another
    // thread, with a later instant, painted): the limiter's `prev` is then in the future of `now`,
    // and the final frame must be painted all the same
    let step_back = r.chance(1, 4);
    let mut t = if step_back { 10_000_000_000 } else { 0 };
    let mut ops = vec![];
    for _ in 0..r.range(25, 45) {
        t += *r.pick(&[0u64, 0, 1, 1000]);
        ops.push((
            t,
            match r.below(4) {
                0 => Op::Tick(0),
                1 => Op::Inc(0, 1),
                2 => Op::SetMsg(0, gen_short_text(r, wu)),
                _ => Op::SetPos(0, r.below(60)),
            },
        ));
    }
    t += *r.pick(&[0u64, 1]);
    if step_back {
        t -= *r.pick(&[1u64, 5_000_000, 2_000_000_000]);
    }
    ops.push((
        t,
        match r.below(4) {
            0 => Op::Drop(0),
            1 => Op::FinishUsingStyle(0),
            _ => Op::Finish(0, gen_fin_short(r, wu)),
        },
    ));
    if !matches!(ops.last().unwrap().1, Op::Drop(_)) {
        // afterwards: is_finished, more updates, dropping changes nothing
        if r.chance(1, 2) {
            ops.push((t, Op::Tick(0)));
        }
        if r.chance(1, 4) {
            ops.push((t, Op::Finish(0, gen_fin_short(r, wu)))); // finishing twice
        }
        ops.push((t + 1, Op::Drop(0)));
    }
    Case { w, h: 60, fail_at: vec![], fail_from: None, mp: TInit::Hidden, bars: vec![bar], ops }
}

fn fin_of(f: &Fin) -> ProgressFinish {
    match f {
        Fin::AndLeave => ProgressFinish::AndLeave,
        Fin::WithMessage(m) => ProgressFinish::WithMessage(m.clone().into()),
        Fin::AndClear => ProgressFinish::AndClear,
        Fin::Abandon => ProgressFinish::Abandon,
        Fin::AbandonWithMessage(m) => ProgressFinish::AbandonWithMessage(m.clone().into()),
    }
}

/// Iterator-driven completion on the implementation.  Returns the equivalent Case (ops as the
/// model sees them) and the per-`next()` observations.
fn run_iter_case(r: &mut Rng) -> (Case, Vec<StepObs>, Option<usize>) {
    use indicatif::verif_clock as vc;
    let w = *r.pick(&[5u16, 10, 40]);
    let wu = w as usize;
    let items = r.below(30);
    let bar = BarInit {
        len: match r.below(4) {
            0 => None,
            1 => Some(items + r.below(5)), // the iterator ends before the length is reached
            _ => Some(items),
        },
        fin: gen_fin_short(r, wu),
        tmpl: gen_small_tmpl(r, wu, 0),
        target: TInit::Term(Some(*r.pick(&[1u8, 20]))),
    };
    vc::set_auto_step_ns(0);
    vc::set_clock_ns(vc::ORIGIN_NS);
    let spy = Spy::new(w, 60);
    let pb = ProgressBar::with_draw_target(bar.len, ProgressDrawTarget::term_like_with_hz(Box::new(spy.clone()), match bar.target {
        TInit::Term(Some(h)) => h,
        _ => 20,
    }))
    .with_finish(fin_of(&bar.fin));
    pb.set_style(style_of(&bar.tmpl));
    let get = |pb: &ProgressBar| Getters { pos: pb.position(), len: pb.length(), finished: pb.is_finished(), msg: pb.message(), prefix: pb.prefix() };
    let mut ops = vec![];
    let mut obs = vec![];
    let mut t = 0u64;
    let finished_early = r.chance(1, 6);
    let mut none_idx = None;
    let mut it = pb.wrap_iter(0..items);
    loop {
        t += *r.pick(&[0u64, 0, 1, 1000, 60_000_000]);
        if finished_early && ops.len() as u64 == items / 2 {
            // the bar is finished by hand in the middle: next() == None must not finish again
            vc::set_clock_ns(vc::ORIGIN_NS + t);
            let res = catch(|| pb.abandon());
            ops.push((t, Op::Finish(0, Fin::Abandon)));
            obs.push(StepObs { emitted: spy.take(), ok: true, getters: vec![Some(get(&pb))], panic: res.err() });
        }
        vc::set_clock_ns(vc::ORIGIN_NS + t);
        let item = catch(|| it.next());
        let emitted = spy.take();
        match item {
            Err(e) => {
                ops.push((t, Op::Inc(0, 1)));
                obs.push(StepObs { emitted, ok: true, getters: vec![], panic: Some(e) });
                break;
            }
            Ok(Some(_)) => {
                ops.push((t, Op::Inc(0, 1)));
                obs.push(StepObs { emitted, ok: true, getters: vec![Some(get(&pb))], panic: None });
            }
            Ok(None) => {
                none_idx = Some(ops.len());
                // ProgressBarIter::next (src/iter.rs:120-130): finish_using_style unless finished (this
                // distinction is only the ORACLE's view; the model evaluates iter_none_step)
                if !obs.last().and_then(|o: &StepObs| o.getters.first().cloned().flatten()).map_or(false, |g| g.finished) {
                    ops.push((t, Op::FinishUsingStyle(0)));
                    obs.push(StepObs { emitted, ok: true, getters: vec![Some(get(&pb))], panic: None });
                } else {
                    // already finished: a no-op in the model (reset_eta draws nothing, changes nothing)
                    ops.push((t, Op::ResetEta(0)));
                    obs.push(StepObs { emitted, ok: true, getters: vec![Some(get(&pb))], panic: None });
                }
                break;
            }
        }
    }
    drop(it);
    // the last handle goes away: nothing may be drawn (the bar is finished)
    vc::set_clock_ns(vc::ORIGIN_NS + t + 1);
    let res = catch(move || drop(pb));
    ops.push((t + 1, Op::Drop(0)));
    obs.push(StepObs { emitted: spy.take(), ok: true, getters: vec![None], panic: res.err() });
    (Case { w, h: 60, fail_at: vec![], fail_from: None, mp: TInit::Hidden, bars: vec![bar], ops }, obs, none_idx)
}

/// the Coq term of an iterator-driven history: the end of the wrapped iterator is `IterNone` /
/// `IterNoneThenDrop` (model/SimCheck.v: evaluated with iter_none_step), every other step an op
fn citer(case: &Case, obs: &[StepObs], none: Option<(usize, bool)>) -> String {
    let n = obs.iter().take_while(|o| o.panic.is_none()).count();
    let iops: Vec<String> = case.ops[..n]
        .iter()
        .enumerate()
        .map(|(i, (t, o))| match none {
            Some((k, then_drop)) if k == i => format!("({t}, {} 0)", if then_drop { "IterNoneThenDrop" } else { "IterNone" }),
            _ => format!("({t}, IOp ({}))", cop(o)),
        })
        .collect();
    format!("(CIter {} {})", coq_case(case, obs).replacen("(mkcase ", "(SysCheck.mkcase ", 1), clist(iops))
}

const CONSUMERS: [&str; 13] = [
    "for-loop", "for_each", "fold", "count", "sum", "last", "max", "collect", "nth-past-the-end", "by_ref+take", "try_for_each",
    "next_back-loop", "rev+for_each",
];

/// Drives a ProgressBarIter to exhaustion through one consumer family.  `own`: the iterator holds the
/// only handle (`progress_with(pb)`) instead of a clone (`pb.wrap_iter`); `member`: the bar is a
/// member of a MultiProgress.  Every item and the end of the iteration are observed (inspect /
/// the consumer's own closure).  Returns the oracle's view of the history (the end of the iteration
/// as FinishUsingStyle resp. Drop), the observations and the index of the end step.
fn run_iter_consumer(r: &mut Rng, consumer: usize, own: bool, member: bool) -> (Case, Vec<StepObs>, usize, bool, String) {
    use indicatif::verif_clock as vc;
    use indicatif::{MultiProgress, ProgressIterator};
    use std::cell::RefCell;
    let w = *r.pick(&[10u16, 40]);
    let wu = w as usize;
    let items = r.below(12) as u32;
    let hz = *r.pick(&[None, Some(1u8), Some(20)]);
    let bar = BarInit {
        len: match r.below(4) {
            0 => None,
            1 => Some(items as u64 + r.below(5)),
            _ => Some(items as u64),
        },
        fin: gen_fin_short(r, wu),
        tmpl: gen_small_tmpl(r, wu, 0),
        target: if member { TInit::Hidden } else { TInit::Term(hz) },
    };
    vc::set_auto_step_ns(0);
    vc::set_clock_ns(vc::ORIGIN_NS);
    let spy = Spy::new(w, 60);
    let mk = |spy: &Spy| match hz {
        None => ProgressDrawTarget::term_like(Box::new(spy.clone())),
        Some(h) => ProgressDrawTarget::term_like_with_hz(Box::new(spy.clone()), h),
    };
    let mp = MultiProgress::with_draw_target(if member { mk(&spy) } else { ProgressDrawTarget::hidden() });
    let pb = ProgressBar::with_draw_target(bar.len, if member { ProgressDrawTarget::hidden() } else { mk(&spy) }).with_finish(fin_of(&bar.fin));
    pb.set_style(style_of(&bar.tmpl));
    let ops: RefCell<Vec<(u64, Op)>> = RefCell::new(vec![]);
    let obs: RefCell<Vec<StepObs>> = RefCell::new(vec![]);
    let pb = if member {
        let p = mp.add(pb);
        ops.borrow_mut().push((0, Op::Insert(Loc::End, 0)));
        obs.borrow_mut().push(StepObs {
            emitted: spy.take(),
            ok: true,
            getters: vec![Some(Getters { pos: p.position(), len: p.length(), finished: p.is_finished(), msg: p.message(), prefix: p.prefix() })],
            panic: None,
        });
        p
    } else {
        pb
    };
    let weak = pb.downgrade();
    let get = || weak.upgrade().map(|p| Getters { pos: p.position(), len: p.length(), finished: p.is_finished(), msg: p.message(), prefix: p.prefix() });
    let gaps = [0u64, 0, 1, 1000, 60_000_000];
    let t = RefCell::new(1_000u64);
    vc::set_clock_ns(vc::ORIGIN_NS + *t.borrow());
    let seed = RefCell::new(r.fork());
    // called after every item: the observation of the `inc(1)` that next()/next_back() just made
    let f = |_x: u32| {
        ops.borrow_mut().push((*t.borrow(), Op::Inc(0, 1)));
        obs.borrow_mut().push(StepObs { emitted: spy.take(), ok: true, getters: vec![get()], panic: None });
        *t.borrow_mut() += *seed.borrow_mut().pick(&gaps);
        vc::set_clock_ns(vc::ORIGIN_NS + *t.borrow());
    };
    let keep = if own { None } else { Some(pb.clone()) };
    let it = (0..items).progress_with(pb);
    // consumers that take the iterator by value drop it at the end; the others leave it alive
    let res = catch(|| -> Option<indicatif::ProgressBarIter<std::ops::Range<u32>>> {
        match consumer {
            0 => {
                for x in it {
                    f(x)
                }
                None
            }
            1 => {
                it.for_each(&f);
                None
            }
            2 => {
                let _ = it.fold(0u32, |a, x| {
                    f(x);
                    a + 1
                });
                None
            }
            3 => {
                let _ = it.inspect(|x| f(*x)).count();
                None
            }
            4 => {
                let _: u32 = it.inspect(|x| f(*x)).sum();
                None
            }
            5 => {
                let _ = it.inspect(|x| f(*x)).last();
                None
            }
            6 => {
                let _ = it.inspect(|x| f(*x)).max();
                None
            }
            7 => {
                let _: Vec<u32> = it.inspect(|x| f(*x)).collect();
                None
            }
            8 => {
                let mut it = it;
                let _ = it.by_ref().inspect(|x| f(*x)).nth(items as usize + 3);
                Some(it)
            }
            9 => {
                let mut it = it;
                let _ = it.by_ref().take(items as usize + 2).inspect(|x| f(*x)).count();
                Some(it)
            }
            10 => {
                let mut it = it;
                let _ = it.try_for_each(|x| {
                    f(x);
                    Some(())
                });
                Some(it)
            }
            11 => {
                let mut it = it;
                while let Some(x) = it.next_back() {
                    f(x)
                }
                Some(it)
            }
            _ => {
                it.rev().for_each(&f);
                None
            }
        }
    });
    let (alive_it, panic) = match res {
        Ok(x) => (x, None),
        Err(e) => (None, Some(e)),
    };
    // the end of the iteration: the None branch of next()/next_back(); when the iterator held the
    // only handle and was consumed by value, the bar is gone as well (one combined step)
    let then_drop = own && alive_it.is_none();
    let none_idx = ops.borrow().len();
    ops.borrow_mut().push((*t.borrow(), if then_drop { Op::Drop(0) } else { Op::FinishUsingStyle(0) }));
    obs.borrow_mut().push(StepObs { emitted: spy.take(), ok: true, getters: vec![get()], panic });
    // remaining handles go away: nothing may be drawn any more (the bar is finished)
    if !then_drop {
        *t.borrow_mut() += 1;
        vc::set_clock_ns(vc::ORIGIN_NS + *t.borrow());
        let res = catch(move || {
            drop(alive_it);
            drop(keep);
        });
        ops.borrow_mut().push((*t.borrow(), Op::Drop(0)));
        obs.borrow_mut().push(StepObs { emitted: spy.take(), ok: true, getters: vec![get()], panic: res.err() });
    }
    let _ = catch(move || drop(mp));
    let case = Case {
        w,
        h: 60,
        fail_at: vec![],
        fail_from: None,
        mp: if member { TInit::Term(hz) } else { TInit::Hidden },
        bars: vec![bar],
        ops: ops.into_inner(),
    };
    let desc = format!(
        "iterator consumer={} handle={} {} items={items} {}",
        CONSUMERS[consumer],
        if own { "progress_with(only handle)" } else { "wrap_iter(other handle alive)" },
        if member { "MultiProgress member" } else { "standalone" },
        describe(&case)
    );
    (case, obs.into_inner(), none_idx, then_drop, desc)
}

/// oracle for the end of an iterator-driven history: the bar is finished with its stored
/// ProgressFinish (final state), the end step paints (a forced draw) and, for a standalone bar,
/// what it paints is the rendering of the final state
fn check_iter_end(s: &mut Session, case: &Case, obs: &[StepObs], none_idx: usize, desc: &str) {
    if obs.len() <= none_idx || obs.iter().any(|o| o.panic.is_some()) {
        return;
    }
    let before = if none_idx == 0 { None } else { obs[none_idx - 1].getters[0].clone() };
    let pre = before.unwrap_or(Getters { pos: 0, len: case.bars[0].len, finished: false, msg: String::new(), prefix: String::new() });
    let want = if pre.finished { pre.clone() } else { expected_final(&pre, &case.bars[0].fin) };
    let o = &obs[none_idx];
    if let Some(g) = &o.getters[0] {
        if !g.finished {
            s.fail("iterator-exhaustion-did-not-finish", format!("is_finished() is false after the iterator was exhausted (getters {:?})", g), desc.to_string());
            return;
        }
        if *g != want {
            s.fail("finish-final-state-wrong", format!("after exhaustion: getters {:?}, the stored ProgressFinish defines {:?}", g, want), desc.to_string());
        }
    }
    let visible = matches!(case.bars[0].target, TInit::Term(_)) || matches!(case.mp, TInit::Term(_));
    if visible && !pre.finished {
        if !o.emitted.iter().any(|x| *x == TOp::Flush) {
            s.fail("iterator-exhaustion-did-not-finish", format!("the end of the iteration made no complete draw (emitted {:?})", o.emitted), desc.to_string());
        } else if matches!(case.bars[0].target, TInit::Term(_)) {
            let mut vt = Vt::new(case.w, 60);
            vt.feed(&o.emitted);
            let exp = expected_rows(&case.bars[0].tmpl, &want, matches!(case.bars[0].fin, Fin::AndClear), case.w as usize);
            if vt.rows() != exp {
                s.fail("finish-frame-wrong", format!("the end of the iteration painted {:?}; the final state {:?} renders as {:?}", vt.rows(), want, exp), desc.to_string());
            }
            s.count("final_frames_checked:iterator");
        }
    }
}

fn expected_final(pre: &Getters, k: &Fin) -> Getters {
    let mut g = pre.clone();
    match k {
        Fin::AndLeave | Fin::AndClear => {
            if let Some(l) = g.len {
                g.pos = l
            }
        }
        Fin::WithMessage(m) => {
            if let Some(l) = g.len {
                g.pos = l
            }
            g.msg = m.clone();
        }
        Fin::Abandon => {}
        Fin::AbandonWithMessage(m) => g.msg = m.clone(),
    }
    g.finished = true;
    g
}

/// rows a frame occupies on a terminal of width w (spinner of a finished bar is 'X')
fn expected_rows(tmpl: &[TPart], g: &Getters, cleared: bool, w: usize) -> Vec<String> {
    if cleared {
        return vec![];
    }
    let mut rows: Vec<String> = render_expected(tmpl, g)
        .iter()
        .flat_map(|l| wrap_rows(&l.replace('\u{1}', "X"), w))
        .collect();
    while rows.last().map_or(false, |r| r.is_empty()) {
        rows.pop();
    }
    rows
}

/// The C04 oracle for standalone bars on top of the screen oracle: final state + final frame.
fn check_standalone(s: &mut Session, case: &Case, obs: &[StepObs], desc: &str) {
    let nb = case.bars.len();
    let mut tmpl: Vec<Vec<TPart>> = case.bars.iter().map(|b| b.tmpl.clone()).collect();
    let mut cur: Vec<Getters> = case
        .bars
        .iter()
        .map(|b| Getters { pos: 0, len: b.len, finished: false, msg: String::new(), prefix: String::new() })
        .collect();
    let mut standalone: Vec<bool> = case.bars.iter().map(|b| matches!(b.target, TInit::Term(_))).collect();
    let mut cleared = vec![false; nb];
    for ((_, op), o) in case.ops.iter().zip(obs.iter()) {
        if o.panic.is_some() {
            break;
        }
        let fin_kind: Option<(usize, Fin, bool)> = match op {
            Op::Finish(b, k) => Some((*b, k.clone(), false)),
            Op::FinishUsingStyle(b) => Some((*b, case.bars[*b].fin.clone(), false)),
            Op::Drop(b) if !cur[*b].finished => Some((*b, case.bars[*b].fin.clone(), true)),
            _ => None,
        };
        match op {
            Op::SetStyle(b, t) => tmpl[*b] = t.clone(),
            Op::Insert(_, b) | Op::Remove(b) => standalone[*b] = false,
            Op::Reset(b) => cleared[*b] = false,
            _ => {}
        }
        if let Some((b, k, is_drop)) = fin_kind {
            let want = expected_final(&cur[b], &k);
            cleared[b] = matches!(k, Fin::AndClear);
            if !is_drop {
                match o.getters[b].as_ref() {
                    Some(g) if !g.finished => s.fail("not-finished-after-finish", format!("is_finished() is false after {:?}", op), desc.to_string()),
                    Some(g) if *g != want => s.fail(
                        "finish-final-state-wrong",
                        format!("after {:?}: getters {:?}, the final state defined by the finish variant is {:?}", op, g, want),
                        desc.to_string(),
                    ),
                    _ => {}
                }
            }
            if standalone[b] {
                if !o.emitted.iter().any(|x| *x == TOp::Flush) {
                    s.fail("finish-not-painted", format!("{:?} made no complete draw (emitted {:?})", op, o.emitted), desc.to_string());
                } else if case.h as usize >= 50 || case.h <= 4 {
                    // replayed on a screen that is high enough: the painted rows themselves
                    let mut vt = Vt::new(case.w, 60);
                    vt.feed(&o.emitted);
                    let got = vt.rows();
                    let mut exp = expected_rows(&tmpl[b], &want, cleared[b], case.w as usize);
                    if case.h <= 4 {
                        // a terminal lower than the frame: the LINES are painted in order while
                        // their accumulated rows fit the height (C19); outside C04's Fits proviso
                        let lines: Vec<String> = if cleared[b] { vec![] } else { render_expected(&tmpl[b], &want).iter().map(|l| l.replace('\u{1}', "X")).collect() };
                        let mut used = 0;
                        let mut cut = vec![];
                        for l in &lines {
                            let rows = wrap_rows(l, case.w as usize);
                            if used + rows.len() > case.h as usize {
                                break;
                            }
                            used += rows.len();
                            cut.extend(rows);
                        }
                        while cut.last().map_or(false, |r: &String| r.is_empty()) {
                            cut.pop();
                        }
                        if cut.len() < exp.len() {
                            s.count("final_frames_cut_by_height(outside Fits)");
                        }
                        exp = cut;
                    }
                    s.count(if is_drop { "final_frames_checked:drop" } else { "final_frames_checked:finish" });
                    if got != exp {
                        s.fail(
                            "finish-frame-wrong",
                            format!("{:?} painted rows {:?}; the final state {:?} renders as {:?}", op, got, want, exp),
                            desc.to_string(),
                        );
                    }
                }
            }
            if is_drop {
                cur[b] = want;
            }
        } else if let Op::Drop(b) = op {
            // already finished
            if standalone[*b] && !o.emitted.is_empty() {
                s.fail("drop-of-finished-bar-draws", format!("{:?} on a finished standalone bar emitted {:?}", op, o.emitted), desc.to_string());
            }
        }
        for (b, g) in o.getters.iter().enumerate() {
            if let Some(g) = g {
                cur[b] = g.clone();
            }
        }
    }
}

/// single bar or small MultiProgress on a terminal LOWER than the frames (H in 1..4, narrow W,
/// multi-line templates): outside the `Fits` proviso of C04_final_screen_standalone.  The finishing
/// draw must still happen and paint the maximal prefix of the final frame that fits (C19); the
/// screen oracle classifies the two recorded height-cut defects by cause
/// ('height-cut-leaves-cursor-mid-row' = D14, 'finished-bar-reaped-behind-the-cut' = D17).
fn gen_small_h(r: &mut Rng, multi: bool) -> Case {
    if multi {
        let mut cfg = GenCfg::default_multi();
        cfg.max_bars = 4;
        cfg.max_ops = 25;
        cfg.w_finish = 35;
        cfg.w_log = 5;
        cfg.w_struct = 25;
        cfg.hz = None;
        cfg.bottom = false;
        cfg.widths = vec![2, 3, 5, 8];
        cfg.heights = vec![2, 3, 4, 6];
        return gen_multi_case(r, &cfg);
    }
    let w = *r.pick(&[2u16, 3, 5]);
    let wu = w as usize;
    let bar = BarInit {
        len: Some(r.below(50)),
        fin: gen_fin_short(r, wu),
        tmpl: gen_small_tmpl(r, wu, 0),
        target: TInit::Term(*r.pick(&[None, Some(20u8)])),
    };
    let mut t = 0;
    let mut ops = vec![];
    for _ in 0..r.range(3, 10) {
        t += gen_gap(r).max(1_000_000);
        ops.push((
            t,
            match r.below(4) {
                0 => Op::Tick(0),
                1 => Op::Inc(0, 1),
                2 => Op::SetMsg(0, gen_short_text(r, wu)),
                _ => Op::SetPos(0, r.below(60)),
            },
        ));
    }
    ops.push((
        t + 1,
        match r.below(3) {
            0 => Op::Drop(0),
            1 => Op::FinishUsingStyle(0),
            _ => Op::Finish(0, gen_fin_short(r, wu)),
        },
    ));
    Case { w, h: *r.pick(&[1u16, 2, 3]), fail_at: vec![], fail_from: None, mp: TInit::Hidden, bars: vec![bar], ops }
}

fn main() {
    let a = args();
    // every system case is written as `(mkcase ..)` by sysrun::coq_case (also inside the shared
    // run_sys_cases): in the C04 shards that name is a notation that wraps the record into c04case
    let header = format!(
        "{}From IndModel Require Import SimCheck.\nNotation mkcase := (fun a b c d e f g h => CSys (SysCheck.mkcase a b c d e f g h)).\n",
        COQ_HEADER
    );
    // c04case: system cases (coercion CSys) and iterator-driven histories (CIter, iter_none_step)
    let mut s = Session::new(&a, "C04", &header, "c04case", "c04_check");
    s.shard_size = 120;
    s.rule = "finish-heavy histories: (a) a single bar on a 1/20/255 Hz target, 25-45 zero-gap ordinary updates (both limiters exhausted), then finish/finish_with_message/finish_and_clear/abandon/abandon_with_message/finish_using_style/drop with every stored ProgressFinish, more calls, then drop; (b) MultiProgress histories with bursts, finishes and drops of all bars in random order, one in five with MultiProgressAlignment::Bottom (histograms alignment:/W:/H:/bars: in the distribution); (c) iterator-driven completion: ProgressBarIter::next recorded call by call, and every consumer family (for loop, for_each, fold, count, sum, last, max, collect, nth past the end, by_ref+take, try_for_each, next_back loop, rev+for_each) x {wrap_iter: another handle alive, progress_with: only handle} x {standalone, MultiProgress member}; the end of the iteration is evaluated in the model with iter_none_step; (d) terminals lower than the frames (H 1-6, W 2-8): the finishing draw must paint the fitting prefix, height-cut defects are classified by cause under their C19 class names; oracle: final state, the finishing call paints exactly the rendering of the final state, is_finished() afterwards, dropping a finished bar makes no call, kept bars stay in order (screen oracle); non-trivial = contains a finish/abandon/drop after at least 10 ops (iterator: at least 3 items); distinct = distinct case text".into();
    let mut r = Rng::new(a.seed);
    let n = if a.thorough { 4000 } else if a.extended { 3000 } else { 500 };
    let mut cases = vec![];
    for i in 0..n {
        if i % 2 == 0 {
            cases.push(gen_single(&mut r));
        } else {
            let mut cfg = GenCfg::default_multi();
            cfg.w_finish = 35;
            cfg.w_log = 5;
            cfg.w_struct = 20;
            cfg.bursts = true;
            cfg.hz = *r.pick(&[None, Some(1u8), Some(20)]);
            cfg.max_ops = 40;
            // one MultiProgress history in five runs with MultiProgressAlignment::Bottom (switched on
            // after the first few calls; the generator may switch back and forth later)
            let bottom = i % 10 == 1;
            cfg.bottom = bottom;
            let mut c = gen_multi_case(&mut r, &cfg);
            if bottom {
                let at = (r.range(1, 4) as usize).min(c.ops.len());
                let t = if at == 0 { 0 } else { c.ops[at - 1].0 };
                c.ops.insert(at, (t, Op::SetAlign(true)));
            }
            cases.push(c);
        }
    }
    for case in &cases {
        let obs = run_case(case);
        check_standalone(&mut s, case, &obs, &describe(case));
    }
    let nontrivial = |c: &Case, _: &[StepObs]| {
        c.ops.len() >= 10 && c.ops.iter().any(|(_, o)| matches!(o, Op::Finish(..) | Op::FinishUsingStyle(_) | Op::Drop(_)))
    };
    let (bottom_cases, top_cases): (Vec<Case>, Vec<Case>) =
        cases.into_iter().partition(|c| c.ops.iter().any(|(_, o)| matches!(o, Op::SetAlign(true))));
    s.count_n("alignment:bottom(histories that switch to Bottom)", bottom_cases.len() as u64);
    s.count_n("alignment:top-only", top_cases.len() as u64);
    run_sys_cases(&mut s, &verif_harness::sysrun::finding_witnesses(&["D22", "D17", "D28"]), &nontrivial); // open findings D22, D17-C04, D28-C04 exhibited at every seed
    run_sys_cases(&mut s, &top_cases, &nontrivial);
    // the screen oracle classifies the recorded open finding D22 (bottom alignment, padded frame,
    // visibly finished member reaped at the head) as 'bottom-alignment-kept-rows-misplaced' itself
    run_sys_cases(&mut s, &bottom_cases, &nontrivial);
    // terminals lower than the frames (outside the Fits proviso of the screen-level theorems)
    let small: Vec<Case> = (0..n / 5).map(|i| gen_small_h(&mut r, i % 2 == 1)).collect();
    for case in &small {
        let obs = run_case(case);
        check_standalone(&mut s, case, &obs, &format!("small-H {}", describe(case)));
    }
    s.count_n("cases_with_small_height", small.len() as u64);
    run_sys_cases(&mut s, &small, &nontrivial);
    // (c) iterator-driven completion: next() call by call ...
    for _ in 0..n / 4 {
        let (case, obs, none_idx) = run_iter_case(&mut r);
        let desc = format!("iterator {}", describe(&case));
        if let Some(p) = obs.iter().find_map(|o| o.panic.clone()) {
            s.fail("panic", p, desc.clone());
        }
        check_standalone(&mut s, &case, &obs, &desc);
        let fin_ops = case.ops.iter().filter(|(_, o)| matches!(o, Op::FinishUsingStyle(_) | Op::Finish(..))).count();
        if fin_ops != 1 {
            s.fail("iterator-did-not-finish-once", format!("{fin_ops} finishing calls observed"), desc.clone());
        }
        if obs.len() >= 2 && !obs[obs.len() - 2].getters.first().cloned().flatten().map_or(false, |g| g.finished) {
            s.fail("not-finished-after-finish", "is_finished() is false after the iterator returned None".into(), desc.clone());
        }
        s.count("iterator_runs");
        s.count(&format!("W:{}", case.w));
        s.count(&format!("H:{}", case.h));
        s.count_n("iterator_items", case.ops.iter().filter(|(_, o)| matches!(o, Op::Inc(..))).count() as u64);
        let nt = case.ops.len() >= 5;
        s.case(citer(&case, &obs, none_idx.map(|k| (k, false))), desc, nt);
    }
    // ... and through every consumer family, with and without another handle, standalone and member
    let rounds = if a.thorough { 12 } else if a.extended { 6 } else { 2 };
    for _ in 0..rounds {
        for consumer in 0..CONSUMERS.len() {
            for own in [false, true] {
                for member in [false, true] {
                    let (case, obs, none_idx, then_drop, desc) = run_iter_consumer(&mut r, consumer, own, member);
                    if let Some(p) = obs.iter().find_map(|o| o.panic.clone()) {
                        s.fail("panic", p, desc.clone());
                    }
                    check_iter_end(&mut s, &case, &obs, none_idx, &desc);
                    if !then_drop {
                        // dropping the remaining handles of the finished bar draws nothing
                        if let Some(o) = obs.last() {
                            if !member && !o.emitted.is_empty() {
                                s.fail("drop-of-finished-bar-draws", format!("dropping the handles after the iteration emitted {:?}", o.emitted), desc.clone());
                            }
                        }
                    }
                    s.count(&format!("iterator_consumer:{}", CONSUMERS[consumer]));
                    s.count(if own { "iterator_handle:only" } else { "iterator_handle:other-alive" });
                    s.count(if member { "iterator_bar:member" } else { "iterator_bar:standalone" });
                    s.case(citer(&case, &obs, Some((none_idx, then_drop))), desc, true);
                }
            }
        }
    }
    s.finish();
}
