//! C04 – finishing or dropping a bar always paints its final state.
//!
//! Generators: (a) a single bar on a 1/20/255 Hz terminal: 25-45 zero-gap ordinary updates (both
//! limiters exhausted), then one of finish / finish_with_message / finish_and_clear / abandon /
//! abandon_with_message / finish_using_style / drop (every stored ProgressFinish), then more
//! calls and the drop; (b) MultiProgress histories with bursts, finishes and drops of all bars
//! in random order; (c) iterator-driven completion: `for _ in pb.wrap_iter(..)` executed on the
//! implementation, every `next()` recorded as one op (Some => inc(1), None => finish_using_style)
//! and compared with the model like any other history.
//! Oracle (independent of the model):
//!   * the final state: position = length (when known) for the finish family and unchanged for
//!     the abandon family, the supplied message, is_finished(),
//!   * the finishing call on a visible standalone bar paints, and what it paints (replayed on
//!     a fresh emulated screen) is exactly the rendering of that final state - nothing for the
//!     clearing variant - however exhausted the limiters are,
//!   * dropping an already finished standalone bar makes no TermLike call,
//!   * MultiProgress members: the screen oracle of sysoracle.rs (forced draws paint; the
//!     screen shows the log, then the items in logical order; visibly finished dropped bars
//!     stay, in order, until a println/clear/suspend/remove intervenes).
use indicatif::{ProgressBar, ProgressDrawTarget, ProgressFinish};
use verif_harness::spy::{Spy, TOp};
use verif_harness::sysoracle::*;
use verif_harness::sysrun::*;
use verif_harness::*;

/// single bar on a rate-limited target: a burst of ordinary updates, then one finish variant / drop
fn gen_single(r: &mut Rng) -> Case {
    let w = *r.pick(&[3u16, 5, 10, 40]);
    let wu = w as usize;
    let bar = BarInit {
        len: if r.chance(1, 4) { None } else { Some(r.below(50)) },
        fin: gen_fin_short(r, wu),
        tmpl: gen_small_tmpl(r, wu, 0),
        target: TInit::Term(Some(*r.pick(&[1u8, 20, 255]))),
    };
    // one case in four: the finishing call carries an instant EARLIER than the last painted frame
    // (what happens when the finishing thread read the clock, then waited for a lock while another
    // thread, with a later instant, painted): the limiter's `prev` is then in the future of `now`,
    // and the final frame must be painted all the same
    let step_back = r.chance(1, 4);
    let mut t = if step_back { 10_000_000_000 } else { 0 };
    let mut ops = vec![];
    for _ in 0..r.range(25, 45) {
        t += *r.pick(&[0u64, 0, 1, 1000]);
        ops.push((
            t,
            match r.below(4) {
                0 => Op::Tick(0),
                1 => Op::Inc(0, 1),
                2 => Op::SetMsg(0, gen_short_text(r, wu)),
                _ => Op::SetPos(0, r.below(60)),
            },
        ));
    }
    t += *r.pick(&[0u64, 1]);
    if step_back {
        t -= *r.pick(&[1u64, 5_000_000, 2_000_000_000]);
    }
    ops.push((
        t,
        match r.below(4) {
            0 => Op::Drop(0),
            1 => Op::FinishUsingStyle(0),
            _ => Op::Finish(0, gen_fin_short(r, wu)),
        },
    ));
    if !matches!(ops.last().unwrap().1, Op::Drop(_)) {
        // afterwards: is_finished, more updates, dropping changes nothing
        if r.chance(1, 2) {
            ops.push((t, Op::Tick(0)));
        }
        if r.chance(1, 4) {
            ops.push((t, Op::Finish(0, gen_fin_short(r, wu)))); // finishing twice
        }
        ops.push((t + 1, Op::Drop(0)));
    }
    Case { w, h: 60, fail_at: vec![], fail_from: None, mp: TInit::Hidden, bars: vec![bar], ops }
}

fn fin_of(f: &Fin) -> ProgressFinish {
    match f {
        Fin::AndLeave => ProgressFinish::AndLeave,
        Fin::WithMessage(m) => ProgressFinish::WithMessage(m.clone().into()),
        Fin::AndClear => ProgressFinish::AndClear,
        Fin::Abandon => ProgressFinish::Abandon,
        Fin::AbandonWithMessage(m) => ProgressFinish::AbandonWithMessage(m.clone().into()),
    }
}

/// Iterator-driven completion on the implementation.  Returns the equivalent Case (ops as the
/// model sees them) and the per-`next()` observations.
fn run_iter_case(r: &mut Rng) -> (Case, Vec<StepObs>) {
    use indicatif::verif_clock as vc;
    let w = *r.pick(&[5u16, 10, 40]);
    let wu = w as usize;
    let items = r.below(30);
    let bar = BarInit {
        len: match r.below(4) {
            0 => None,
            1 => Some(items + r.below(5)), // the iterator ends before the length is reached
            _ => Some(items),
        },
        fin: gen_fin_short(r, wu),
        tmpl: gen_small_tmpl(r, wu, 0),
        target: TInit::Term(Some(*r.pick(&[1u8, 20]))),
    };
    vc::set_auto_step_ns(0);
    vc::set_clock_ns(vc::ORIGIN_NS);
    let spy = Spy::new(w, 60);
    let pb = ProgressBar::with_draw_target(bar.len, ProgressDrawTarget::term_like_with_hz(Box::new(spy.clone()), match bar.target {
        TInit::Term(Some(h)) => h,
        _ => 20,
    }))
    .with_finish(fin_of(&bar.fin));
    pb.set_style(style_of(&bar.tmpl));
    let get = |pb: &ProgressBar| Getters { pos: pb.position(), len: pb.length(), finished: pb.is_finished(), msg: pb.message(), prefix: pb.prefix() };
    let mut ops = vec![];
    let mut obs = vec![];
    let mut t = 0u64;
    let finished_early = r.chance(1, 6);
    let mut it = pb.wrap_iter(0..items);
    loop {
        t += *r.pick(&[0u64, 0, 1, 1000, 60_000_000]);
        if finished_early && ops.len() as u64 == items / 2 {
            // the bar is finished by hand in the middle: next() == None must not finish again
            vc::set_clock_ns(vc::ORIGIN_NS + t);
            let res = catch(|| pb.abandon());
            ops.push((t, Op::Finish(0, Fin::Abandon)));
            obs.push(StepObs { emitted: spy.take(), ok: true, getters: vec![Some(get(&pb))], panic: res.err() });
        }
        vc::set_clock_ns(vc::ORIGIN_NS + t);
        let item = catch(|| it.next());
        let emitted = spy.take();
        match item {
            Err(e) => {
                ops.push((t, Op::Inc(0, 1)));
                obs.push(StepObs { emitted, ok: true, getters: vec![], panic: Some(e) });
                break;
            }
            Ok(Some(_)) => {
                ops.push((t, Op::Inc(0, 1)));
                obs.push(StepObs { emitted, ok: true, getters: vec![Some(get(&pb))], panic: None });
            }
            Ok(None) => {
                // ProgressBarIter::next (src/iter.rs:120-130): finish_using_style unless finished
                if !obs.last().and_then(|o: &StepObs| o.getters.first().cloned().flatten()).map_or(false, |g| g.finished) {
                    ops.push((t, Op::FinishUsingStyle(0)));
                    obs.push(StepObs { emitted, ok: true, getters: vec![Some(get(&pb))], panic: None });
                } else {
                    // already finished: a no-op in the model (reset_eta draws nothing, changes nothing)
                    ops.push((t, Op::ResetEta(0)));
                    obs.push(StepObs { emitted, ok: true, getters: vec![Some(get(&pb))], panic: None });
                }
                break;
            }
        }
    }
    drop(it);
    // the last handle goes away: nothing may be drawn (the bar is finished)
    vc::set_clock_ns(vc::ORIGIN_NS + t + 1);
    let res = catch(move || drop(pb));
    ops.push((t + 1, Op::Drop(0)));
    obs.push(StepObs { emitted: spy.take(), ok: true, getters: vec![None], panic: res.err() });
    (Case { w, h: 60, fail_at: vec![], fail_from: None, mp: TInit::Hidden, bars: vec![bar], ops }, obs)
}

fn expected_final(pre: &Getters, k: &Fin) -> Getters {
    let mut g = pre.clone();
    match k {
        Fin::AndLeave | Fin::AndClear => {
            if let Some(l) = g.len {
                g.pos = l
            }
        }
        Fin::WithMessage(m) => {
            if let Some(l) = g.len {
                g.pos = l
            }
            g.msg = m.clone();
        }
        Fin::Abandon => {}
        Fin::AbandonWithMessage(m) => g.msg = m.clone(),
    }
    g.finished = true;
    g
}

/// rows a frame occupies on a terminal of width w (spinner of a finished bar is 'X')
fn expected_rows(tmpl: &[TPart], g: &Getters, cleared: bool, w: usize) -> Vec<String> {
    if cleared {
        return vec![];
    }
    let mut rows: Vec<String> = render_expected(tmpl, g)
        .iter()
        .flat_map(|l| wrap_rows(&l.replace('\u{1}', "X"), w))
        .collect();
    while rows.last().map_or(false, |r| r.is_empty()) {
        rows.pop();
    }
    rows
}

/// The C04 oracle for standalone bars on top of the screen oracle: final state + final frame.
fn check_standalone(s: &mut Session, case: &Case, obs: &[StepObs], desc: &str) {
    let nb = case.bars.len();
    let mut tmpl: Vec<Vec<TPart>> = case.bars.iter().map(|b| b.tmpl.clone()).collect();
    let mut cur: Vec<Getters> = case
        .bars
        .iter()
        .map(|b| Getters { pos: 0, len: b.len, finished: false, msg: String::new(), prefix: String::new() })
        .collect();
    let mut standalone: Vec<bool> = case.bars.iter().map(|b| matches!(b.target, TInit::Term(_))).collect();
    let mut cleared = vec![false; nb];
    for ((_, op), o) in case.ops.iter().zip(obs.iter()) {
        if o.panic.is_some() {
            break;
        }
        let fin_kind: Option<(usize, Fin, bool)> = match op {
            Op::Finish(b, k) => Some((*b, k.clone(), false)),
            Op::FinishUsingStyle(b) => Some((*b, case.bars[*b].fin.clone(), false)),
            Op::Drop(b) if !cur[*b].finished => Some((*b, case.bars[*b].fin.clone(), true)),
            _ => None,
        };
        match op {
            Op::SetStyle(b, t) => tmpl[*b] = t.clone(),
            Op::Insert(_, b) | Op::Remove(b) => standalone[*b] = false,
            Op::Reset(b) => cleared[*b] = false,
            _ => {}
        }
        if let Some((b, k, is_drop)) = fin_kind {
            let want = expected_final(&cur[b], &k);
            cleared[b] = matches!(k, Fin::AndClear);
            if !is_drop {
                match o.getters[b].as_ref() {
                    Some(g) if !g.finished => s.fail("not-finished-after-finish", format!("is_finished() is false after {:?}", op), desc.to_string()),
                    Some(g) if *g != want => s.fail(
                        "finish-final-state-wrong",
                        format!("after {:?}: getters {:?}, the final state defined by the finish variant is {:?}", op, g, want),
                        desc.to_string(),
                    ),
                    _ => {}
                }
            }
            if standalone[b] {
                if !o.emitted.iter().any(|x| *x == TOp::Flush) {
                    s.fail("finish-not-painted", format!("{:?} made no complete draw (emitted {:?})", op, o.emitted), desc.to_string());
                } else if case.h as usize >= 50 {
                    let mut vt = Vt::new(case.w, case.h);
                    vt.feed(&o.emitted);
                    let got = vt.rows();
                    let exp = expected_rows(&tmpl[b], &want, cleared[b], case.w as usize);
                    s.count(if is_drop { "final_frames_checked:drop" } else { "final_frames_checked:finish" });
                    if got != exp {
                        s.fail(
                            "finish-frame-wrong",
                            format!("{:?} painted rows {:?}; the final state {:?} renders as {:?}", op, got, want, exp),
                            desc.to_string(),
                        );
                    }
                }
            }
            if is_drop {
                cur[b] = want;
            }
        } else if let Op::Drop(b) = op {
            // already finished
            if standalone[*b] && !o.emitted.is_empty() {
                s.fail("drop-of-finished-bar-draws", format!("{:?} on a finished standalone bar emitted {:?}", op, o.emitted), desc.to_string());
            }
        }
        for (b, g) in o.getters.iter().enumerate() {
            if let Some(g) = g {
                cur[b] = g.clone();
            }
        }
    }
}

/// a painted draw with padding rows (bottom alignment, shift > 0): after the erase prologue
/// (cursor moves / clear_line only) an empty write_line that does not terminate a written line
fn draw_has_padding(ops: &[TOp]) -> bool {
    let body_start = ops.iter().position(|o| matches!(o, TOp::Str(_) | TOp::Line(_))).unwrap_or(ops.len());
    let body = &ops[body_start..];
    body.iter().enumerate().any(|(i, o)| {
        matches!(o, TOp::Line(l) if l.is_empty()) && (i == 0 || matches!(body[i - 1], TOp::Line(_)))
    })
}

/// Histories that switch to MultiProgressAlignment::Bottom: same screen oracle, but a failure
/// in the narrow situation of the recorded open finding D22 - bottom alignment is on, a frame
/// with padding rows (shift > 0) has been painted, and a VISIBLY finished member has been
/// dropped (its rows are to be kept) - is classified `bottom-alignment-kept-rows-misplaced`;
/// any other failure keeps the oracle's own class.
fn run_bottom_cases(s: &mut Session, cases: &[Case], nontrivial: &dyn Fn(&Case, &[StepObs]) -> bool) {
    for case in cases {
        let obs = run_case(case);
        let desc = describe(case);
        let mut or = Oracle::new(case);
        let nb = case.bars.len();
        let (mut bottom, mut padded, mut kept_candidate) = (false, false, false);
        let mut fin_visible = vec![false; nb];
        let mut bad = None;
        for ((_, op), o) in case.ops.iter().zip(obs.iter()) {
            match op {
                Op::SetAlign(b) => bottom = bottom || *b,
                Op::Finish(b, k) => fin_visible[*b] = !matches!(k, Fin::AndClear),
                Op::FinishUsingStyle(b) => fin_visible[*b] = !matches!(case.bars[*b].fin, Fin::AndClear),
                Op::Reset(b) => fin_visible[*b] = false,
                Op::Drop(b) => {
                    let was_finished = fin_visible[*b];
                    // dropping an unfinished bar applies the stored finish first
                    if was_finished || !matches!(case.bars[*b].fin, Fin::AndClear) {
                        kept_candidate = true;
                    }
                }
                _ => {}
            }
            if bottom && o.emitted.iter().any(|x| *x == TOp::Flush) && draw_has_padding(&o.emitted) {
                padded = true;
            }
            if let Some(v) = or.step(op, o) {
                bad = Some(v);
                break;
            }
        }
        if bad.is_none() && obs.len() == case.ops.len() {
            bad = or.final_cursor_check();
        }
        if let Some(v) = bad {
            let class = if v.class == "bottom-alignment-shrunken-frame" && bottom && padded && kept_candidate {
                "bottom-alignment-kept-rows-misplaced".to_string()
            } else {
                v.class.clone()
            };
            s.fail(&class, v.detail, desc.clone());
        }
        for (_, o) in &case.ops {
            s.count(&format!("op:{}", o.name()));
        }
        s.count("cases_with_bottom_alignment");
        if padded {
            s.count("cases_with_bottom_padding_painted");
        }
        let nt = nontrivial(case, &obs);
        s.case(coq_case(case, &obs), desc, nt);
    }
}

fn main() {
    let a = args();
    let mut s = Session::new(&a, "C04", COQ_HEADER, COQ_CASE_TY, COQ_CHECKER);
    s.shard_size = 120;
    s.rule = "finish-heavy histories: (a) a single bar on a 1/20/255 Hz target, 25-45 zero-gap ordinary updates (both limiters exhausted), then finish/finish_with_message/finish_and_clear/abandon/abandon_with_message/finish_using_style/drop with every stored ProgressFinish, more calls, then drop; (b) MultiProgress histories with bursts, finishes and drops of all bars in random order; (c) iterator-driven completion (ProgressBarIter::next recorded call by call); oracle: final state, the finishing call paints exactly the rendering of the final state, is_finished() afterwards, dropping a finished bar makes no call, kept bars stay in order (screen oracle); non-trivial = contains a finish/abandon/drop after at least 10 ops (iterator: at least 3 items); distinct = distinct case text".into();
    let mut r = Rng::new(a.seed);
    let n = if a.thorough { 4000 } else if a.extended { 3000 } else { 500 };
    let mut cases = vec![];
    for i in 0..n {
        if i % 2 == 0 {
            cases.push(gen_single(&mut r));
        } else {
            let mut cfg = GenCfg::default_multi();
            cfg.w_finish = 35;
            cfg.w_log = 5;
            cfg.w_struct = 20;
            cfg.bursts = true;
            cfg.hz = *r.pick(&[None, Some(1u8), Some(20)]);
            cfg.bottom = i % 5 == 1; // a fraction with MultiProgressAlignment::Bottom (see run_bottom_cases)
            cfg.max_ops = 40;
            cases.push(gen_multi_case(&mut r, &cfg));
        }
    }
    for case in &cases {
        let obs = run_case(case);
        check_standalone(&mut s, case, &obs, &describe(case));
    }
    let nontrivial = |c: &Case, _: &[StepObs]| {
        c.ops.len() >= 10 && c.ops.iter().any(|(_, o)| matches!(o, Op::Finish(..) | Op::FinishUsingStyle(_) | Op::Drop(_)))
    };
    let (bottom_cases, top_cases): (Vec<Case>, Vec<Case>) =
        cases.into_iter().partition(|c| c.ops.iter().any(|(_, o)| matches!(o, Op::SetAlign(true))));
    run_sys_cases(&mut s, &top_cases, &nontrivial);
    run_bottom_cases(&mut s, &bottom_cases, &nontrivial);
    // (c) iterator-driven completion
    for _ in 0..n / 4 {
        let (case, obs) = run_iter_case(&mut r);
        let desc = format!("iterator {}", describe(&case));
        if let Some(p) = obs.iter().find_map(|o| o.panic.clone()) {
            s.fail("panic", p, desc.clone());
        }
        check_standalone(&mut s, &case, &obs, &desc);
        let fin_ops = case.ops.iter().filter(|(_, o)| matches!(o, Op::FinishUsingStyle(_) | Op::Finish(..))).count();
        if fin_ops != 1 {
            s.fail("iterator-did-not-finish-once", format!("{fin_ops} finishing calls observed"), desc.clone());
        }
        if obs.len() >= 2 && !obs[obs.len() - 2].getters.first().cloned().flatten().map_or(false, |g| g.finished) {
            s.fail("not-finished-after-finish", "is_finished() is false after the iterator returned None".into(), desc.clone());
        }
        s.count("iterator_runs");
        s.count_n("iterator_items", case.ops.iter().filter(|(_, o)| matches!(o, Op::Inc(..))).count() as u64);
        let nt = case.ops.len() >= 5;
        s.case(coq_case(&case, &obs), desc, nt);
    }
    s.finish();
}
