//! C04 – finishing or dropping a bar always paints its final state: finish-heavy histories that
//! exhaust every limiter right before finishing; standalone bars and MultiProgress members.
use verif_harness::spy::TOp;
use verif_harness::sysoracle::*;
use verif_harness::sysrun::*;
use verif_harness::*;

/// single bar on a 1 Hz target: a burst of ordinary updates, then one finish variant / drop
fn gen_single(r: &mut Rng) -> Case {
    let w = *r.pick(&[3u16, 5, 10, 40]);
    let wu = w as usize;
    let bar = BarInit {
        len: if r.chance(1, 4) { None } else { Some(r.below(50)) },
        fin: gen_fin_short(r, wu),
        tmpl: gen_small_tmpl(r, wu, 0),
        target: TInit::Term(Some(*r.pick(&[1u8, 20, 255]))),
    };
    let mut t = 0;
    let mut ops = vec![];
    for _ in 0..r.range(25, 45) {
        t += *r.pick(&[0u64, 0, 1, 1000]);
        ops.push((
            t,
            match r.below(4) {
                0 => Op::Tick(0),
                1 => Op::Inc(0, 1),
                2 => Op::SetMsg(0, gen_short_text(r, wu)),
                _ => Op::SetPos(0, r.below(60)),
            },
        ));
    }
    t += *r.pick(&[0u64, 1]);
    ops.push((
        t,
        match r.below(4) {
            0 => Op::Drop(0),
            1 => Op::FinishUsingStyle(0),
            _ => Op::Finish(0, gen_fin_short(r, wu)),
        },
    ));
    if !matches!(ops.last().unwrap().1, Op::Drop(_)) {
        // afterwards: is_finished, more updates, dropping changes nothing
        if r.chance(1, 2) {
            ops.push((t, Op::Tick(0)));
        }
        ops.push((t + 1, Op::Drop(0)));
    }
    Case { w, h: 60, fail_at: vec![], fail_from: None, mp: TInit::Hidden, bars: vec![bar], ops }
}

fn main() {
    let a = args();
    let mut s = Session::new(&a, "C04", COQ_HEADER, COQ_CASE_TY, COQ_CHECKER);
    s.shard_size = 120;
    s.rule = "finish-heavy histories: (a) a single bar on a 1/20/255 Hz target, 25-45 zero-gap ordinary updates (both limiters exhausted), then finish/finish_with_message/finish_and_clear/abandon/abandon_with_message/finish_using_style/drop with every stored ProgressFinish, then drop; (b) MultiProgress histories with bursts, finishes and drops of all bars in random order; oracle: the finishing call paints, the painted frame is the final state, is_finished() afterwards, dropping a finished bar changes nothing on screen, kept bars stay in order; non-trivial = contains a finish/abandon/drop after at least 10 ops; distinct = distinct case text".into();
    let mut r = Rng::new(a.seed);
    let n = if a.thorough { 6000 } else if a.extended { 3000 } else { 500 };
    let mut cases = vec![];
    for i in 0..n {
        if i % 2 == 0 {
            cases.push(gen_single(&mut r));
        } else {
            let mut cfg = GenCfg::default_multi();
            cfg.w_finish = 35;
            cfg.w_log = 5;
            cfg.w_struct = 20;
            cfg.bursts = true;
            cfg.hz = *r.pick(&[None, Some(1u8), Some(20)]);
            cfg.bottom = false;
            cfg.max_ops = 40;
            cases.push(gen_multi_case(&mut r, &cfg));
        }
    }
    // C04-specific checks on top of the screen oracle
    for case in &cases {
        let obs = run_case(case);
        let desc = describe(case);
        let mut fin_before = vec![false; case.bars.len()];
        for ((_, op), o) in case.ops.iter().zip(obs.iter()) {
            if o.panic.is_some() {
                break;
            }
            match op {
                Op::Finish(b, _) | Op::FinishUsingStyle(b) => {
                    if o.getters[*b].as_ref().map_or(false, |g| !g.finished) {
                        s.fail("not-finished-after-finish", format!("is_finished() is false after {:?}", op), desc.clone());
                    }
                }
                Op::Drop(b) if fin_before[*b] => {
                    // standalone: no terminal call at all; member: no visible change is checked by the screen oracle
                    if matches!(case.bars[*b].target, TInit::Term(_)) && !o.emitted.is_empty() {
                        s.fail("drop-of-finished-bar-draws", format!("{:?} on a finished standalone bar emitted {:?}", op, o.emitted), desc.clone());
                    }
                }
                _ => {}
            }
            for (b, g) in o.getters.iter().enumerate() {
                if let Some(g) = g {
                    fin_before[b] = g.finished;
                }
            }
            let _ = TOp::Flush;
        }
    }
    run_sys_cases(&mut s, &cases, &|c, _| {
        c.ops.len() >= 10 && c.ops.iter().any(|(_, o)| matches!(o, Op::Finish(..) | Op::FinishUsingStyle(_) | Op::Drop(_)))
    });
    s.finish();
}
