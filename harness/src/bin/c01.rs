//! C01 – single-bar redraw integrity.  Correspondence with model/Sys.v (exact TermLike call
//! traces + getters, hashed per op) and a direct oracle on the harness reference terminal `Vt`
//! (validated against the vt100 crate by the TermCases below; bin termcheck is a stand-alone tool, not run by ./check):
//! after every painted draw   screen = wrap(log) ++ wrap(frame),   and at the end ordinary output
//! starts on a fresh line below the frame.
use indicatif::verif_clock as vc;
use verif_harness::spy::TOp;
use verif_harness::sysrun::*;
use verif_harness::*;

fn gen_op(r: &mut Rng, w: usize) -> Op {
    match r.below(30) {
        0..=3 => Op::Tick(0),
        4..=6 => Op::Inc(0, gen_u64(r)),
        7 => Op::Dec(0, gen_u64(r)),
        8..=9 => Op::SetPos(0, gen_u64(r)),
        10..=13 => Op::SetMsg(0, gen_multiline(r, w)),
        14 => Op::SetPrefix(0, gen_width_text(r, w)),
        15 => Op::SetStyle(0, gen_tmpl(r, w)),
        16 => Op::SetLen(0, gen_u64(r)),
        17 => match r.below(3) {
            0 => Op::IncLen(0, gen_u64(r)),
            1 => Op::DecLen(0, gen_u64(r)),
            _ => Op::UnsetLen(0),
        },
        18..=21 => Op::Println(0, gen_multiline(r, w)),
        22..=23 => Op::Suspend(0, gen_suspend_lines(r, w)),
        24 => match r.below(3) {
            0 => Op::Reset(0),
            1 => Op::ResetEta(0),
            _ => Op::ResetElapsed(0),
        },
        25..=26 => Op::Finish(0, gen_fin(r, w)),
        27 => Op::FinishUsingStyle(0),
        28 => Op::ForceDraw(0),
        _ => Op::SetTabWidth(0),
    }
}

pub fn gen_case(r: &mut Rng, big: bool) -> Case {
    let w = *r.pick(&[1u16, 2, 3, 4, 5, 7, 10, 20, 80]);
    // mostly tall terminals (the proviso Fits), but also heights close to the frame's rows: the oracle
    // stops a history at the first frame that does not fit (outside the proviso; bin c19 covers those)
    let h = *r.pick(&[60u16, 200, 60, 200, 24, 10, 6, 4]);
    let target = if r.chance(1, 5) {
        TInit::Term(Some(*r.pick(&[1u8, 20, 255])))
    } else {
        TInit::Term(None)
    };
    let bar = BarInit {
        len: if r.chance(1, 4) { None } else { Some(gen_u64(r)) },
        fin: gen_fin(r, w as usize),
        tmpl: gen_tmpl(r, w as usize),
        target,
    };
    let n = if big { r.range(1, 60) } else { r.range(1, 25) } as usize;
    let mut t = 0u64;
    let mut ops = vec![];
    for _ in 0..n {
        t += gen_gap(r);
        ops.push((t, gen_op(r, w as usize)));
    }
    if r.chance(1, 6) {
        t += gen_gap(r);
        ops.push((t, Op::Drop(0)));
    }
    Case {
        w,
        h,
        fail_at: vec![],
        fail_from: None,
        mp: TInit::Hidden,
        bars: vec![bar],
        ops,
    }
}

const WILD: char = '\u{1}';

thread_local! {
    /// the last history judged by `oracle` left the proviso Fits (a painted frame taller than the terminal)
    static LEFT_FITS: std::cell::Cell<bool> = std::cell::Cell::new(false);
}

/// independent rendering of the template family from the public getters
fn render_expected(t: &[TPart], g: &Getters) -> Vec<String> {
    let mut lines = vec![];
    let mut cur = String::new();
    let push = |cur: &mut String, lines: &mut Vec<String>| {
        for piece in std::mem::take(cur).split('\n') {
            lines.push(piece.to_string());
        }
    };
    for p in t {
        match p {
            TPart::Lit(l) => cur.push_str(l),
            TPart::Msg => cur.push_str(&g.msg),
            TPart::Prefix => cur.push_str(&g.prefix),
            TPart::Pos => cur.push_str(&g.pos.to_string()),
            TPart::Len => cur.push_str(&g.len.unwrap_or(g.pos).to_string()),
            TPart::Spinner => cur.push(WILD),
            TPart::NewLine => push(&mut cur, &mut lines),
        }
    }
    if !cur.is_empty() {
        push(&mut cur, &mut lines);
    }
    lines
}

fn rows_match(got: &[String], want: &[String]) -> bool {
    let trim = |v: &[String]| {
        let mut v = v.to_vec();
        while v.last().map_or(false, |r| r.is_empty()) {
            v.pop();
        }
        v
    };
    let (g, w) = (trim(got), trim(want));
    g.len() == w.len()
        && g.iter().zip(w.iter()).all(|(a, b)| {
            let (a, b): (Vec<char>, Vec<char>) = (a.chars().collect(), b.chars().collect());
            // `b` may contain the wildcard; both are right-trimmed
            a.len() == b.len() && a.iter().zip(b.iter()).all(|(x, y)| *y == WILD || x == y)
        })
}

fn height(lines: &[String], w: usize) -> usize {
    lines.iter().map(|l| wrap_rows(l, w).len()).sum()
}

/// The C01 oracle. Returns (checked_draws, Some((class, detail)) on the first violation).
fn oracle(case: &Case, obs: &[StepObs]) -> (u64, Option<(String, String)>) {
    let w = case.w as usize;
    let mut vt = Vt::new(case.w, case.h);
    // open finding 'empty-line-after-text-only-draw-swallowed' (Coq: C01_empty_line_swallowed_refuted) as a
    // predicate on the failing observation: `vt_alt` is fed the same calls plus the row the property
    // demands when the closure's EMPTY first line meets a wrap-pending cursor; a failure gets the
    // finding's class iff the same comparison passes on `vt_alt`
    let mut vt_alt = Vt::new(case.w, case.h);
    let mut alt_ops: Vec<TOp> = vec![];
    let mut swallow_injected = false;
    let mut log: Vec<String> = vec![];
    let mut tmpl = case.bars[0].tmpl.clone();
    let mut hidden = false; // finished-and-cleared
    let mut frame: Vec<String> = vec![];
    let mut all_ops: Vec<TOp> = vec![];
    let mut checked = 0u64;
    let mut prev_text_only_zero_rows = false;
    let _ = &mut prev_text_only_zero_rows;
    for (i, ((_, op), o)) in case.ops.iter().zip(obs.iter()).enumerate() {
        if o.panic.is_some() {
            return (checked, Some(("panic".into(), o.panic.clone().unwrap())));
        }
        // bookkeeping from the op itself
        match op {
            Op::SetStyle(_, t) => tmpl = t.clone(),
            Op::Println(_, m) => {
                // logged BY CALL (the targets of this bin are never hidden, println is a forced draw): a
                // println that the code dropped silently must fail "exactly the lines printed so far"
                let ls: Vec<&str> = m.lines().collect();
                if ls.is_empty() {
                    log.push(String::new())
                } else {
                    log.extend(ls.iter().map(|s| s.to_string()))
                }
            }
            Op::Suspend(_, ws) => log.extend(ws.iter().cloned()),
            Op::Finish(_, Fin::AndClear) => hidden = true,
            Op::Finish(_, _) => hidden = false,
            Op::FinishUsingStyle(_) | Op::Drop(_) => {
                // only changes the status if the bar was not finished already (Drop) / always (finish_using_style)
                let was_finished = i > 0 && obs[i - 1].getters[0].as_ref().map_or(false, |g| g.finished);
                let applies = matches!(op, Op::FinishUsingStyle(_)) || !was_finished;
                if applies {
                    hidden = matches!(case.bars[0].fin, Fin::AndClear);
                }
            }
            Op::Reset(_) => hidden = false,
            _ => {}
        }
        vt.feed(&o.emitted);
        all_ops.extend(o.emitted.iter().cloned());
        {
            let mut fed = false;
            if let Op::Suspend(_, ws) = op {
                if ws.first().map_or(false, |l| l.is_empty()) {
                    if let Some(f) = o.emitted.iter().position(|x| *x == TOp::Flush) {
                        if matches!(o.emitted.get(f + 1), Some(TOp::Line(l)) if l.is_empty()) {
                            vt_alt.feed(&o.emitted[..=f]);
                            alt_ops.extend(o.emitted[..=f].iter().cloned());
                            if vt_alt.cursor().1 == w {
                                vt_alt.feed(&[TOp::Line(String::new())]);
                                alt_ops.push(TOp::Line(String::new()));
                                swallow_injected = true;
                            }
                            vt_alt.feed(&o.emitted[f + 1..]);
                            alt_ops.extend(o.emitted[f + 1..].iter().cloned());
                            fed = true;
                        }
                    }
                }
            }
            if !fed {
                vt_alt.feed(&o.emitted);
                alt_ops.extend(o.emitted.iter().cloned());
            }
        }
        let painted = o.emitted.iter().any(|x| *x == TOp::Flush);
        if !painted {
            continue;
        }
        // the state the frame was rendered from: the getters after this op (for Drop: the final state
        // defined by the finish behaviour, read before the handle went away is impossible -> reconstruct)
        let g = match (&o.getters[0], op) {
            (Some(g), _) => g.clone(),
            (None, Op::Drop(_)) => {
                let mut g = obs[i - 1].getters[0].clone().unwrap_or(Getters {
                    pos: 0,
                    len: case.bars[0].len,
                    finished: false,
                    msg: String::new(),
                    prefix: String::new(),
                });
                if i == 0 {
                    g.len = case.bars[0].len;
                }
                if !g.finished {
                    match &case.bars[0].fin {
                        Fin::AndLeave | Fin::AndClear => {
                            if let Some(l) = g.len {
                                g.pos = l
                            }
                        }
                        Fin::WithMessage(m) => {
                            if let Some(l) = g.len {
                                g.pos = l
                            }
                            g.msg = m.clone()
                        }
                        Fin::Abandon => {}
                        Fin::AbandonWithMessage(m) => g.msg = m.clone(),
                    }
                }
                g
            }
            _ => continue,
        };
        frame = if hidden { vec![] } else { render_expected(&tmpl, &g) };
        if height(&frame, w) > case.h as usize {
            LEFT_FITS.with(|c| c.set(true));
            return (checked, None); // frame does not fit: outside C01's proviso (C19 covers it)
        }
        let mut want: Vec<String> = vec![];
        for l in &log {
            want.extend(wrap_rows(l, w));
        }
        for l in &frame {
            want.extend(wrap_rows(l, w));
        }
        let got = vt.rows();
        checked += 1;
        if !rows_match(&got, &want) {
            // narrow classification of the known shapes
            let class = if swallow_injected && rows_match(&vt_alt.rows(), &want) {
                "empty-line-after-text-only-draw-swallowed".to_string()
            } else {
                classify(&log, &frame, &got, &want)
            };
            return (
                checked,
                Some((
                    class,
                    format!("after op #{i} {:?}: screen rows {:?} but log+frame is {:?}", op, got, want),
                )),
            );
        }
    }
    // cursor: ordinary output written afterwards starts on a fresh line below the frame
    if !obs.is_empty() && obs.iter().all(|o| o.panic.is_none()) && all_ops.iter().any(|x| *x == TOp::Flush) {
        // expected: all previous rows unchanged, Z alone at column 0 of a row below every log/frame row
        let mut want: Vec<String> = vec![];
        for l in &log {
            want.extend(wrap_rows(l, w));
        }
        for l in &frame {
            want.extend(wrap_rows(l, w));
        }
        let fresh_line = |ops: &[TOp]| -> (bool, String) {
            let mut vt2 = Vt::new(case.w, case.h);
            vt2.feed(ops);
            let before = vt2.rows();
            vt2.feed(&[TOp::Str("Z".into())]);
            let after = vt2.rows();
            let (row, col) = vt2.cursor();
            let z_row = row;
            let ok = after.len() > before.len().min(after.len().saturating_sub(1))
                && after.get(z_row).map_or(false, |r| r == "Z")
                && z_row >= want.len()
                && col == 1
                && after[..z_row.min(before.len())] == before[..z_row.min(before.len())];
            (
                ok,
                format!(
                    "a character written after the history landed at row {z_row} col {} ; rows before {:?} after {:?} (log+frame needs {} rows)",
                    col.saturating_sub(1),
                    before,
                    after,
                    want.len()
                ),
            )
        };
        checked += 1;
        let (ok, detail) = fresh_line(&all_ops);
        if !ok {
            let class = if swallow_injected && fresh_line(&alt_ops).0 {
                "empty-line-after-text-only-draw-swallowed"
            } else {
                "cursor-not-on-fresh-line"
            };
            return (checked, Some((class.into(), detail)));
        }
    }
    (checked, None)
}

fn classify(_log: &[String], frame: &[String], _got: &[String], _want: &[String]) -> String {
    if frame.len() >= 2 && frame[0].is_empty() {
        "frame-first-line-empty".into()
    } else {
        "screen-mismatch".into()
    }
}

// ------------------------------------------------------------------ concurrent suspend story (oracle-only)
/// Why the sequential model may read `suspend` as ONE step (Coq: C01_calls_have_at_most_one_bar_section,
/// C01_suspend_closure_inside_bar_section): a second thread holding a clone calls set_message / inc
/// WHILE the closure runs.  The closure tells it to go, waits up to 50 ms for its completion, then
/// prints its line.  On a tree that keeps the bar locked around the closure the other thread blocks
/// until suspend has returned (the wait times out), so the outcome is deterministic:
/// final screen = [closure line] ++ frame(final state), nothing else.  A tree that releases the lock
/// lets the other thread paint a frame in the middle of the closure's output.
fn suspend_story(s: &mut Session) {
    use std::sync::mpsc;
    use std::time::Duration;
    let variants: [(u16, Vec<TPart>, &str, &str); 6] = [
        (20, vec![TPart::Msg], "working", "changed"),
        (10, vec![TPart::Msg, TPart::NewLine, TPart::Pos, TPart::Lit("/".into()), TPart::Len], "working", "changed"),
        (5, vec![TPart::Msg], "ab", "abcdefgh"),
        (5, vec![TPart::Msg, TPart::NewLine, TPart::Pos], "abcdefgh", "xy"),
        (8, vec![TPart::Lit("[".into()), TPart::Pos, TPart::Lit("] ".into()), TPart::Msg], "12345", "1234"),
        (12, vec![TPart::Prefix, TPart::NewLine, TPart::Msg], "", "now two"),
    ];
    for (k, (w, tmpl, m0, m1)) in variants.iter().enumerate() {
        let (w, h) = (*w, 24u16);
        let desc = format!(
            "CONCURRENT-SUSPEND W={w} H={h} template={:?}: set_message({m0:?}); suspend(closure: other thread set_message({m1:?}); inc(1) meanwhile; wait <= 50 ms; write_line(\"closure line\")); join",
            tmpl_string(tmpl)
        );
        let spy = verif_harness::spy::Spy::new(w, h);
        vc::set_auto_step_ns(0);
        vc::set_clock_ns(vc::ORIGIN_NS + (k as u64 + 1) * 1_000_000_000);
        let pb = indicatif::ProgressBar::with_draw_target(
            Some(7),
            indicatif::ProgressDrawTarget::term_like(Box::new(spy.clone())),
        );
        pb.set_style(style_of(tmpl));
        pb.set_message(m0.to_string());
        vc::advance_clock_ns(1_000_000_000);
        let (go_tx, go_rx) = mpsc::channel::<()>();
        let (done_tx, done_rx) = mpsc::channel::<()>();
        let other = {
            let pb2 = pb.clone();
            let m1 = m1.to_string();
            std::thread::spawn(move || {
                let _ = go_rx.recv();
                pb2.set_message(m1);
                pb2.inc(1);
                let _ = done_tx.send(());
            })
        };
        let spy2 = spy.clone();
        let overlapped = pb.suspend(move || {
            let _ = go_tx.send(());
            let overlapped = done_rx.recv_timeout(Duration::from_millis(50)).is_ok();
            let _ = indicatif::TermLike::write_line(&spy2, "closure line");
            overlapped
        });
        let joined = other.join().is_ok();
        let g = Getters {
            pos: pb.position(),
            len: pb.length(),
            finished: pb.is_finished(),
            msg: pb.message(),
            prefix: pb.prefix(),
        };
        let ops = spy.take();
        let mut vt = Vt::new(w, h);
        vt.feed(&ops);
        let mut want: Vec<String> = wrap_rows("closure line", w as usize);
        for l in render_expected(tmpl, &g) {
            want.extend(wrap_rows(&l, w as usize));
        }
        let got = vt.rows();
        s.count("concurrent_suspend_story");
        s.count(&format!("concurrent_suspend_story:other-thread-ran-during-closure:{overlapped}"));
        s.oracle_only(desc.clone(), true);
        if !joined || g.msg != *m1 || g.pos != 1 {
            s.fail(
                "concurrent-suspend-lost-update",
                format!("other thread joined={joined}; final message {:?} position {} (expected {m1:?}, 1)", g.msg, g.pos),
                desc.clone(),
            );
        } else if !rows_match(&got, &want) {
            s.fail(
                "suspend-closure-output-interleaved-with-concurrent-draw",
                format!(
                    "final screen rows {:?} but closure line + final frame is {:?} (other thread ran during the closure: {overlapped}); TermLike calls {:?}",
                    got, want, ops
                ),
                desc,
            );
        }
    }
}

// ------------------------------------------------------------------ one failed terminal call the code recovers from
/// C01 excludes I/O failures (C18 treats them), except for the two situations in which the unchanged
/// code demonstrably recovers, because `last_line_count` still describes the screen after the lost draw:
///   (a) the `flush()` that ends a draw fails and the new frame is as tall as the old one;
///   (b) the very first terminal call of a draw fails (nothing was touched).
/// After the next painted draw the screen must again be log ++ frame (no remnant), also after a println and
/// after finish_and_clear.  The fault position is computed from a fault-free run of the same history.
fn failed_call_story(s: &mut Session) -> u64 {
    let mut checked = 0;
    let tmpls: [Vec<TPart>; 3] = [
        vec![TPart::Lit("[".into()), TPart::Msg, TPart::Lit("] ".into()), TPart::Pos, TPart::Lit("/".into()), TPart::Len],
        vec![TPart::Lit("job".into()), TPart::NewLine, TPart::Msg, TPart::Lit(" ".into()), TPart::Pos],
        vec![TPart::Prefix, TPart::Lit("a".into()), TPart::NewLine, TPart::Msg, TPart::NewLine, TPart::Pos, TPart::Lit("/".into()), TPart::Len],
    ];
    for (ti, tmpl) in tmpls.iter().enumerate() {
        for &w in &[40u16, 6, 3] {
            for first_call in [false, true] {
                for tail in 0..2 {
                    let mut ops = vec![Op::Println(0, "starting".into()), Op::SetMsg(0, "step 0".into()), Op::SetMsg(0, "step 1".into())];
                    let faulty = ops.len() - 1;
                    if tail == 0 {
                        ops.extend([Op::SetMsg(0, "step 2".into()), Op::Println(0, "a log line".into()), Op::Finish(0, Fin::AndClear)]);
                    } else {
                        ops.extend([Op::Finish(0, Fin::AndClear), Op::Println(0, "after".into())]);
                    }
                    let mut case = Case {
                        w,
                        h: 30,
                        fail_at: vec![],
                        fail_from: None,
                        mp: TInit::Hidden,
                        bars: vec![BarInit { len: Some(10), fin: Fin::AndLeave, tmpl: tmpl.clone(), target: TInit::Term(None) }],
                        ops: ops.into_iter().enumerate().map(|(j, o)| ((j as u64 + 1) * 1_000_000_000, o)).collect(),
                    };
                    let clean = run_case(&case);
                    let before: usize = clean[..faulty].iter().map(|o| o.emitted.len()).sum();
                    let e = &clean[faulty].emitted;
                    if e.last() != Some(&TOp::Flush) {
                        s.fail("failed-call-story-malformed", format!("draw of op #{faulty} does not end with flush: {e:?}"), describe(&case));
                        continue;
                    }
                    let idx = if first_call { before } else { before + e.len() - 1 };
                    case.fail_at = vec![idx as u64];
                    let obs = run_case(&case);
                    let desc = format!("FAILED-{} template#{ti} {}", if first_call { "FIRST-CALL" } else { "FLUSH" }, describe(&case));
                    s.count(&format!("failed_call_story:{}", if first_call { "first-call" } else { "flush-same-height" }));
                    let injected = obs[faulty].emitted.len() + 1 == e.len() || (first_call && obs[faulty].emitted.is_empty());
                    let (c, bad) = oracle(&case, &obs);
                    checked += c;
                    s.oracle_only(desc.clone(), true);
                    if !injected {
                        s.fail("failed-call-story-malformed", format!("the fault was not injected into op #{faulty}: {:?}", obs[faulty].emitted), desc);
                    } else if let Some((class, detail)) = bad {
                        let class = if class == "screen-mismatch" || class == "cursor-not-on-fresh-line" {
                            "stale-frame-after-recoverable-failed-call".to_string()
                        } else {
                            class
                        };
                        s.fail(&class, detail, desc);
                    }
                }
            }
        }
    }
    checked
}

// ------------------------------------------------------------------ tie of coq/model/Term.v to the vt100 crate
const C01_HEADER: &str = "From IndModel Require Import TermCheck.\nFrom Coq Require Import String.\nOpen Scope string_scope.\nOpen Scope N_scope.\n";

fn ctext(s: &str) -> String {
    debug_assert!(s.is_ascii());
    format!("(t \"{}\")", s.replace('"', "\"\""))
}

fn ctop(o: &TOp) -> Option<String> {
    Some(match o {
        TOp::Up(n) => format!("TUp {n}"),
        TOp::Down(n) => format!("TDown {n}"),
        TOp::Clear => "TClear".into(),
        TOp::Line(s) => format!("TLine {}", ctext(s)),
        TOp::Str(s) => format!("TStr {}", ctext(s)),
        TOp::Flush => "TFlush".into(),
        TOp::Left(_) | TOp::Right(_) => return None, // never emitted by draw_to_term (no such termop in Draw.v)
    })
}

/// `TermCase W H ops vis cursor all top`: the Coq terminal (model/Term.v) must show what the vt100
/// crate shows (visible rows, cursor) and what the reference terminal `Vt` of the oracles holds
/// (all rows with scroll-back, first visible row) after executing the call stream `ops`.
fn term_case(w: u16, h: u16, ops: &[TOp]) -> Option<String> {
    let cops: Option<Vec<String>> = ops.iter().map(ctop).collect();
    let cops = cops?;
    let mut vt = Vt::new(w, h);
    vt.feed(ops);
    let all = vt.rows();
    let (r, c) = vt.cursor();
    // the vt100 crate overflows on 1-row terminals (debug build): no reference screen there
    let reference = if h >= 2 {
        catch(|| {
            let mut v = Vt100::new(w, h);
            v.feed(ops);
            (v.visible_rows(), v.cursor())
        })
        .ok()
    } else {
        None
    };
    let (vis, cur) = match &reference {
        Some((rows, (vr, vc))) => (
            format!("(Some {})", clist(rows.iter().map(|x| ctext(x)))),
            (*vr, *vc),
        ),
        None => ("None".to_string(), (r - vt.top, c)),
    };
    Some(format!(
        "(TermCase {w} {h} {} {vis} ({}, {}) {} {})",
        clist(cops),
        cur.0,
        cur.1,
        clist(all.iter().map(|x| ctext(x))),
        vt.top
    ))
}

fn gen_stream(r: &mut Rng, w: u16) -> Vec<TOp> {
    let len = r.range(1, 60);
    (0..len)
        .map(|_| {
            let k = r.below(2 * w as u64 + 2) as usize;
            match r.below(10) {
                0 => TOp::Up(r.below(5) as usize),
                1 => TOp::Down(r.below(4) as usize),
                2 => TOp::Clear,
                3..=4 => TOp::Line(gen_word(r, k)),
                5..=8 => TOp::Str(gen_word(r, k)),
                _ => TOp::Flush,
            }
        })
        .collect()
}

fn main() {
    let a = args();
    let mut s = Session::new(&a, "C01", C01_HEADER, "c01case", "c01_check");
    s.shard_size = 120;
    s.rule = "(1) single bar on a recording terminal (term_like, sometimes with a refresh limiter), template from the family {literal,msg,prefix,pos,len,spinner,newline}, 1..60 timed ops over tick/inc/dec/set_position/set_message/set_prefix/set_style/set_length/inc|dec|unset_length/println/suspend/reset*/finish*/abandon*/finish_using_style/force_draw/set_tab_width(/drop), texts with widths clustered at multiples of the terminal width, multi-line and empty; W in {1,2,3,4,5,7,10,20,80}; non-trivial = at least 3 ops and at least one painted draw; distinct = distinct case text. H in {4,6,10,24,60,200}; every SysCase carries the oracle's verdict and the shard cross-checks it with hist_okb/fitsb evaluated on the case. (2) TermCase: the TermLike call stream observed in every third history, and random call streams (W 1..12, H 1..8: up/down/clear_line/write_line/write_str/flush), executed by coq/model/Term.v and compared with the visible rows + cursor of the vt100 crate and with all rows (scroll-back) of the harness reference terminal. (3) oracle-only: wide-text stream on the vt100 crate; 6 two-thread suspend stories (a clone is updated while the closure runs); 36 histories with one recoverable failed terminal call (failed flush at unchanged frame height / failed first call)".into();
    let mut r = Rng::new(a.seed);
    let mut cases: Vec<Case> = corpus();
    let n = if a.thorough { 6000 } else if a.extended { 3000 } else { 600 };
    for _ in 0..n {
        cases.push(gen_case(&mut r, a.thorough));
    }
    let mut checked_total = 0;
    let mut term_seq = 0u64;
    for case in &cases {
        let obs = run_case(case);
        let desc = describe(case);
        LEFT_FITS.with(|c| c.set(false));
        let (checked, bad) = oracle(case, &obs);
        let left_fits = LEFT_FITS.with(|c| c.get());
        s.count(&format!("H:{}:{}", case.h, if left_fits { "left-Fits" } else { "inside-Fits" }));
        checked_total += checked;
        let verdict = match &bad {
            None => 0,
            Some((class, _)) if class == "empty-line-after-text-only-draw-swallowed" => 1,
            Some(_) => 2,
        };
        s.count(&format!("oracle-verdict:{}", ["pass", "D28", "other"][verdict]));
        if let Some((class, detail)) = bad {
            s.fail(&class, detail, desc.clone());
        }
        for (_, o) in &case.ops {
            s.count(&format!("op:{}", o.name()));
        }
        s.count(&format!("W:{}", case.w));
        s.count(&format!("H:{}", case.h));
        s.count(&format!("limiter:{}", matches!(case.bars[0].target, TInit::Term(Some(_)))));
        let painted = obs.iter().filter(|o| o.emitted.iter().any(|x| *x == TOp::Flush)).count();
        s.count_n("painted_draws", painted as u64);
        s.count_n("skipped_draw_ops", obs.iter().filter(|o| o.emitted.is_empty()).count() as u64);
        let nontrivial = case.ops.len() >= 3 && painted >= 1;
        // the oracle's verdict travels with the case: the shard evaluates hist_okb / fitsb (the hypotheses of
        // C01_screen_partial) on the same history and cross-checks them with it (TermCheck.c01_spec_check)
        s.case(
            format!("(SysCase {} {} {})", coq_case(case, &obs), verdict, cbool(left_fits)),
            desc.clone(),
            nontrivial,
        );
        // the observed call stream of every third history also ties Term.v to the vt100 crate
        term_seq += 1;
        if term_seq % 3 == 0 && obs.iter().all(|o| o.panic.is_none()) {
            let all_ops: Vec<TOp> = obs.iter().flat_map(|o| o.emitted.iter().cloned()).collect();
            if let Some(tc) = term_case(case.w, case.h, &all_ops) {
                s.count("termcase:observed-stream");
                s.case(tc, format!("TERM (observed TermLike stream of) {desc}"), all_ops.len() >= 5);
            }
        }
    }
    // random TermLike call streams on small terminals (scrolling, clamped cursor moves, overwrites)
    let nt = if a.thorough { 3000 } else if a.extended { 1500 } else { 400 };
    for _ in 0..nt {
        let w = r.range(1, 12) as u16;
        let h = r.range(1, 8) as u16;
        let ops = gen_stream(&mut r, w);
        if let Some(tc) = term_case(w, h, &ops) {
            s.count("termcase:random-stream");
            s.count(&format!("termcase:H{}", if h == 1 { "=1(no vt100 reference)" } else { ">=2" }));
            s.case(tc, format!("TERM W={w} H={h} stream={:?}", ops), ops.len() >= 5);
        }
    }
    // oracle-only: double-width texts on even widths, judged on the vt100 crate (class 'wide-text-rows-miscounted')
    verif_harness::sysoracle::wide_text_stream(&mut s, &mut r, if a.thorough { 1000 } else { 120 });
    suspend_story(&mut s);
    checked_total += failed_call_story(&mut s);
    s.count_n("oracle_screen_checks", checked_total);
    s.finish();
}

/// minimised past failures / boundary histories, run first
fn corpus() -> Vec<Case> {
    let bar = |tmpl: Vec<TPart>, len| BarInit {
        len,
        fin: Fin::AndLeave,
        tmpl,
        target: TInit::Term(None),
    };
    let mk = |w, h, b: BarInit, ops: Vec<Op>| Case {
        w,
        h,
        fail_at: vec![],
        fail_from: None,
        mp: TInit::Hidden,
        bars: vec![b],
        ops: ops.into_iter().enumerate().map(|(i, o)| (i as u64 * 1_000_000_000, o)).collect(),
    };
    vec![
        // D5: text-only draw, then a frame whose first line is empty
        mk(
            10,
            50,
            bar(vec![TPart::Msg, TPart::NewLine, TPart::Pos, TPart::Lit("/".into()), TPart::Len], Some(3)),
            vec![
                Op::Finish(0, Fin::AndClear),
                Op::Println(0, "hello".into()),
                Op::Reset(0),
                Op::Tick(0),
            ],
        ),
        // shrinking frame, wrapping message
        mk(
            5,
            50,
            bar(vec![TPart::Msg], None),
            vec![
                Op::SetMsg(0, "abcdefghijklm".into()),
                Op::SetMsg(0, "ab".into()),
                Op::Println(0, "0123456789".into()),
                Op::SetMsg(0, "".into()),
                Op::Tick(0),
            ],
        ),
        // exact-width lines
        mk(
            4,
            50,
            bar(vec![TPart::Lit("abcd".into()), TPart::NewLine, TPart::Msg], None),
            vec![Op::Tick(0), Op::SetMsg(0, "wxyz".into()), Op::Println(0, "1234".into()), Op::Finish(0, Fin::AndLeave)],
        ),
        // open finding 'empty-line-after-text-only-draw-swallowed' (Coq: C01_empty_line_swallowed_refuted)
        mk(
            5,
            10,
            bar(vec![TPart::Msg, TPart::NewLine, TPart::Pos, TPart::Lit("/".into()), TPart::Len], Some(3)),
            vec![Op::Finish(0, Fin::AndClear), Op::Println(0, "hello".into()), Op::Suspend(0, vec!["".into()]), Op::Println(0, "after".into())],
        ),
        // ... and the covered neighbours: empty first line while a frame is visible / on a fresh terminal / not first
        mk(
            5,
            10,
            bar(vec![TPart::Msg, TPart::NewLine, TPart::Pos, TPart::Lit("/".into()), TPart::Len], Some(3)),
            vec![
                Op::Suspend(0, vec!["".into()]),
                Op::SetMsg(0, "ab".into()),
                Op::Suspend(0, vec!["".into(), "x".into(), "".into()]),
                Op::Finish(0, Fin::AndClear),
                Op::Println(0, "hello".into()),
                Op::Suspend(0, vec!["y".into(), "".into()]),
                Op::Println(0, "z".into()),
            ],
        ),
        // width 1
        mk(1, 60, bar(vec![TPart::Pos], Some(5)), vec![Op::Inc(0, 12), Op::Println(0, "ab".into()), Op::Inc(0, 100)]),
    ]
}
