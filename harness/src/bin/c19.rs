//! C19 - wrapped rows and height overflow: tiny terminals (from 1x1), line widths around multiples
//! of the width, histories that grow and shrink the set of bars past the terminal height
//! (MultiProgress and single standalone bars), plus a boundary sweep of the f64 ceiling of
//! LineType::wrapped_height against the integer ceiling of the model.
use verif_harness::sysrun::*;
use verif_harness::*;

const C19_HEADER: &str = "From IndModel Require Import TermCheck.\nFrom Coq Require Import String.\nOpen Scope string_scope.\nOpen Scope N_scope.\n";

/// single standalone bar, multi-line templates that make frames taller than the terminal
fn gen_single(r: &mut Rng) -> Case {
    let w = *r.pick(&[1u16, 2, 3, 4, 5, 7]);
    let h = *r.pick(&[1u16, 2, 3, 4]);
    let wu = w as usize;
    let bar = BarInit {
        len: if r.chance(1, 4) { None } else { Some(r.below(30)) },
        fin: gen_fin_short(r, wu),
        tmpl: gen_tmpl(r, wu),
        target: TInit::Term(None),
    };
    let n = r.range(2, 14) as usize;
    let mut t = 0u64;
    let mut ops = vec![];
    for _ in 0..n {
        t += gen_gap(r).max(1_000_000);
        let op = match r.below(16) {
            0..=2 => Op::Tick(0),
            3..=4 => Op::Inc(0, r.below(5)),
            5..=8 => Op::SetMsg(0, gen_multiline(r, wu)),
            9 => Op::SetPrefix(0, gen_width_text(r, wu)),
            10 => Op::SetStyle(0, gen_tmpl(r, wu)),
            11..=12 => Op::Println(0, gen_multiline(r, wu)),
            13 => Op::Suspend(0, gen_suspend_lines(r, wu)),
            14 => Op::Finish(0, gen_fin_short(r, wu)),
            _ => Op::ForceDraw(0),
        };
        ops.push((t, op));
    }
    Case { w, h, fail_at: vec![], fail_from: None, mp: TInit::Hidden, bars: vec![bar], ops }
}

/// minimised witnesses (run first)
fn corpus() -> Vec<Case> {
    let sbar = |tmpl: Vec<TPart>| BarInit { len: None, fin: Fin::AndLeave, tmpl, target: TInit::Term(None) };
    let mk = |w, h, b: BarInit, ops: Vec<Op>| Case {
        w,
        h,
        fail_at: vec![],
        fail_from: None,
        mp: TInit::Hidden,
        bars: vec![b],
        ops: ops.into_iter().enumerate().map(|(i, o)| ((i as u64 + 1) * 1_000_000_000, o)).collect(),
    };
    vec![
        // open finding D14 (Coq: C19_text_cut_refuted): println while not even the first frame line fits the height
        mk(3, 1, sbar(vec![TPart::Lit("AAAA".into())]), vec![Op::Tick(0), Op::Println(0, "x".into()), Op::Println(0, "y".into())]),
        // open finding D17 (Coq: C19_D17_reaped_behind_cut_witness): a head zombie behind the cut is reaped unpainted
        {
            let hb = |tmpl: Vec<TPart>| BarInit { len: None, fin: Fin::AndLeave, tmpl, target: TInit::Hidden };
            let one = |x: &str| vec![TPart::Lit(x.into())];
            Case {
                w: 3,
                h: 2,
                fail_at: vec![],
                fail_from: None,
                mp: TInit::Term(None),
                bars: vec![hb(one("Z")), hb(vec![TPart::Lit("P".into()), TPart::NewLine, TPart::Lit("p".into())]), hb(one("Q")), hb(one("R"))],
                ops: vec![
                    Op::Insert(Loc::End, 0),
                    Op::Insert(Loc::End, 1),
                    Op::Insert(Loc::End, 2),
                    Op::Insert(Loc::End, 3),
                    Op::Tick(0),
                    Op::Tick(1),
                    Op::Tick(2),
                    Op::Tick(3),
                    Op::Drop(1),
                    Op::Drop(2),
                    Op::Remove(0),
                    Op::Tick(3),
                    Op::Tick(3),
                ]
                .into_iter()
                .enumerate()
                .map(|(i, o)| ((i as u64 + 1) * 1_000_000_000, o))
                .collect(),
            }
        },
        // thorough seed 3 case of round 2 (kept rows taller than the terminal, then println): see docs/C19.md
        {
            let hb = |len, fin, tmpl: Vec<TPart>| BarInit { len, fin, tmpl, target: TInit::Hidden };
            Case {
                w: 1,
                h: 5,
                fail_at: vec![],
                fail_from: None,
                mp: TInit::Term(None),
                bars: vec![
                    hb(Some(29), Fin::WithMessage("a+y".into()), vec![TPart::Lit("A".into()), TPart::Prefix, TPart::Msg, TPart::Pos]),
                    hb(None, Fin::AbandonWithMessage("b-/".into()), vec![TPart::Lit("B".into()), TPart::Pos]),
                    hb(Some(29), Fin::Abandon, vec![TPart::Lit("C".into()), TPart::Msg]),
                ],
                ops: vec![
                    (1000000, Op::Insert(Loc::End, 2)),
                    (51000000, Op::Reset(2)),
                    (52000000, Op::Insert(Loc::End, 1)),
                    (3600052000000, Op::SetMsg(1, "<c9".into())),
                    (3600101999999, Op::FinishUsingStyle(2)),
                    (3600106999999, Op::Tick(2)),
                    (3600156999999, Op::Insert(Loc::End, 0)),
                    (7200156999999, Op::Drop(2)),
                    (7200157999999, Op::Reset(0)),
                    (7200158999999, Op::Drop(1)),
                    (7200159999999, Op::Drop(0)),
                    (7200160999999, Op::MPrintln("\n = 9\n\n".into())),
                    (7200161999999, Op::MPrintln("\n/".into())),
                    (7200211999998, Op::MPrintln("=x".into())),
                    (7200261999998, Op::MPrintln("".into())),
                    (7200311999998, Op::MPrintln("(\nb".into())),
                ],
            }
        },
        // Bottom alignment witnesses (draw_to_term's Bottom path; Coq: C19_bottom_* of props/C19.v)
        {
            let hb = |x: &str| BarInit { len: Some(10), fin: Fin::AndLeave, tmpl: vec![TPart::Lit(x.into()), TPart::Pos], target: TInit::Hidden };
            let mk = |w: u16, h: u16, ops: Vec<Op>| Case {
                w,
                h,
                fail_at: vec![],
                fail_from: None,
                mp: TInit::Term(None),
                bars: vec![hb("a"), hb("b"), hb("c"), hb("d")],
                ops: ops.into_iter().enumerate().map(|(i, o)| ((i as u64 + 1) * 1_000_000_000, o)).collect(),
            };
            let start = |extra: Vec<Op>| {
                let mut v = vec![
                    Op::SetAlign(true),
                    Op::Insert(Loc::End, 0),
                    Op::Insert(Loc::End, 1),
                    Op::Insert(Loc::End, 2),
                    Op::Tick(0),
                    Op::Tick(1),
                    Op::Tick(2),
                ];
                v.extend(extra);
                v
            };
            // D26 (fixed by 881c313): region exactly as tall as the terminal, empty frames scrolled blank rows away
            mk(5, 3, start(vec![Op::MClear, Op::MClear, Op::MClear, Op::Tick(0)]))
        },
        {
            // audit 2, N1: last_line_count exceeds the height (3 kept rows + 1 live row on a 3-row terminal,
            // then clear()): every later draw scrolls the terminal by one row
            let hb = |x: &str| BarInit { len: Some(10), fin: Fin::AndLeave, tmpl: vec![TPart::Lit(x.into()), TPart::Pos], target: TInit::Hidden };
            Case {
                w: 5,
                h: 3,
                fail_at: vec![],
                fail_from: None,
                mp: TInit::Term(None),
                bars: vec![hb("a"), hb("b"), hb("c"), hb("d")],
                ops: vec![
                    Op::SetAlign(true),
                    Op::Insert(Loc::End, 0),
                    Op::Insert(Loc::End, 1),
                    Op::Insert(Loc::End, 2),
                    Op::Tick(0),
                    Op::Tick(1),
                    Op::Tick(2),
                    Op::Finish(0, Fin::AndLeave),
                    Op::Finish(1, Fin::AndLeave),
                    Op::Finish(2, Fin::AndLeave),
                    Op::Drop(0),
                    Op::Drop(1),
                    Op::Drop(2),
                    Op::Insert(Loc::End, 3),
                    Op::Tick(3),
                    Op::MClear,
                    Op::Tick(3),
                    Op::MClear,
                    Op::Tick(3),
                ]
                .into_iter()
                .enumerate()
                .map(|(i, o)| ((i as u64 + 1) * 1_000_000_000, o))
                .collect(),
            }
        },
        {
            // fix 951c29f: "x" printed by a member must survive above the padding of the shrunken region
            let hb = |x: &str| BarInit { len: Some(10), fin: Fin::AndLeave, tmpl: vec![TPart::Lit(x.into()), TPart::Pos], target: TInit::Hidden };
            Case {
                w: 40,
                h: 50,
                fail_at: vec![],
                fail_from: None,
                mp: TInit::Term(None),
                bars: vec![hb("a"), hb("b"), hb("c"), hb("d")],
                ops: vec![
                    Op::SetAlign(true),
                    Op::Insert(Loc::End, 0),
                    Op::Insert(Loc::End, 1),
                    Op::Insert(Loc::End, 2),
                    Op::Tick(0),
                    Op::Tick(1),
                    Op::Tick(2),
                    Op::Remove(0),
                    Op::Finish(1, Fin::AndClear),
                    Op::Println(2, "x".into()),
                    Op::Tick(2),
                ]
                .into_iter()
                .enumerate()
                .map(|(i, o)| ((i as u64 + 1) * 1_000_000_000, o))
                .collect(),
            }
        },
        {
            // fix 8b11f76: empty frames under Bottom move nothing; a new bar lands at the bottom of the same region
            let hb = |x: &str| BarInit { len: Some(10), fin: Fin::AndLeave, tmpl: vec![TPart::Lit(x.into()), TPart::Pos], target: TInit::Hidden };
            Case {
                w: 40,
                h: 50,
                fail_at: vec![],
                fail_from: None,
                mp: TInit::Term(None),
                bars: vec![hb("a"), hb("b"), hb("c"), hb("d")],
                ops: vec![
                    Op::SetAlign(true),
                    Op::Insert(Loc::End, 0),
                    Op::Insert(Loc::End, 1),
                    Op::Tick(0),
                    Op::Tick(1),
                    Op::Finish(0, Fin::AndClear),
                    Op::Finish(1, Fin::AndClear),
                    Op::Tick(0),
                    Op::Tick(1),
                    Op::Insert(Loc::End, 3),
                    Op::Tick(3),
                ]
                .into_iter()
                .enumerate()
                .map(|(i, o)| ((i as u64 + 1) * 1_000_000_000, o))
                .collect(),
            }
        },
        // Coq: C19_example_cut_then_room - frame taller than the terminal, then it shrinks and fits
        mk(
            2,
            3,
            BarInit { len: Some(5), fin: Fin::AndLeave, tmpl: vec![TPart::Lit("ab".into()), TPart::NewLine, TPart::Msg, TPart::NewLine, TPart::Pos], target: TInit::Term(None) },
            vec![Op::SetMsg(0, "wxyz".into()), Op::Println(0, "log".into()), Op::SetMsg(0, "w".into()), Op::Inc(0, 1)],
        ),
    ]
}

/// LineType::wrapped_height computes `(cols as f64 / width as f64).ceil() as usize`; the model uses
/// the integer ceiling (Coq: C19_wrapped_height_f64_exact for operands < 2^53).  Same expression
/// here (private in the crate), swept over the boundaries.
fn f64_ceiling_sweep(s: &mut Session, r: &mut Rng, n: u64) {
    let p53 = 1u64 << 53;
    let check = |s: &mut Session, cols: u64, width: u64| {
        let got = usize::max((cols as f64 / width as f64).ceil() as usize, 1) as u128;
        let want = u128::max(1, (cols as u128 + width as u128 - 1) / width as u128);
        s.count("f64_ceiling_checks");
        if got != want {
            s.fail(
                if cols < p53 && width < p53 { "f64-ceiling-differs-below-2^53" } else { "f64-ceiling-differs-at-or-above-2^53" },
                format!("cols={cols} width={width}: f64 gives {got}, integer ceiling is {want}"),
                format!("wrapped_height cols={cols} width={width}"),
            );
        }
    };
    let edge = [1u64, 2, 3, 5, 7, 10, 80, 255, 65535, (1 << 24) - 1, 1 << 24, (1 << 26) + 1, (1 << 32) - 1, p53 / 3, p53 - 2, p53 - 1];
    for &wd in &edge {
        for &c in &edge {
            for d in [0u64, 1, 2] {
                check(s, c.saturating_sub(d), wd);
                if let Some(m) = c.checked_mul(wd) {
                    if m + d < p53 {
                        check(s, m + d, wd);
                        check(s, m - d.min(m), wd);
                    }
                }
            }
        }
    }
    for _ in 0..n {
        let wd = match r.below(3) { 0 => r.range(1, 300), 1 => r.range(1, 1 << 32), _ => r.range(1, p53 - 1) };
        let q = r.below((p53 - 1) / wd + 1);
        for c in [q * wd, (q * wd).saturating_sub(1), (q * wd + 1).min(p53 - 1), r.below(p53)] {
            check(s, c, wd);
        }
    }
    s.oracle_only(format!("f64 ceiling sweep: {} random divisors + boundary grid, all below 2^53", n), true);
}

fn main() {
    let a = args();
    let mut s = Session::new(&a, "C19", C19_HEADER, "c19case", "c19_check");
    s.shard_size = 120;
    s.rule = "MultiProgress and single-bar histories on terminals W in 1..10, H in 1..6 (and 1x1), 1..6 bars with one- to three-line templates and messages whose widths cluster at multiples of W, adds/removes/finishes/drops that push the frame past the height and back; single standalone bars with random multi-line templates on W in {1,2,3,4,5,7} x H in 1..4; every draw current (gaps >= 1 ms, no refresh limiter); oracle: screen = log ++ the leading bar lines whose accumulated wrapped rows fit H, nothing else; plus a sweep of the f64 ceiling of wrapped_height; plus two oracle-only streams judged on the vt100 crate: double-width texts on even widths, and zero-width + double-width characters in non-last frame lines (two/three-line templates, non-last bars of a MultiProgress) with println between draws; single standalone bars carry the oracle verdict into the shard (hist_okb / no_text_cutb cross-check); non-trivial = at least 4 ops; distinct = distinct case text".into();
    let mut r = Rng::new(a.seed);
    let n = if a.thorough { 6000 } else if a.extended { 3000 } else { 500 };
    let mut cases = corpus();
    cases.extend(finding_witnesses(&["D22"])); // open finding D22-C19 exhibited at every seed (D14, D17, D28 are in corpus())
    for i in 0..n {
        if i % 4 == 3 {
            cases.push(gen_single(&mut r));
            continue;
        }
        let mut cfg = GenCfg::default_multi();
        cfg.widths = vec![1, 2, 3, 4, 5, 7, 10];
        cfg.heights = vec![1, 2, 3, 4, 5, 6];
        if i % 10 == 0 {
            cfg.widths = vec![1];
            cfg.heights = vec![1];
        }
        cfg.max_bars = 6;
        cfg.w_log = 10;
        cfg.w_finish = 10;
        cfg.w_struct = 30;
        cfg.bottom = i % 4 == 1; // a quarter of the MultiProgress cases may switch to MultiProgressAlignment::Bottom
        cases.push(gen_multi_case(&mut r, &cfg));
    }
    // kept rows of finished, dropped bars are checked under both alignments (DESIGN.md D); a loss that
    // the open finding D22 explains (bottom alignment, padded frame, rows of the reaped bar only) is
    // classified 'bottom-alignment-kept-rows-misplaced'
    // single standalone bars carry the oracle's verdict into the shard, where the hypotheses of
    // C19_erase_exact_partial (hist_okb, no_text_cutb) are evaluated on the same history and cross-checked with it
    let counts = std::cell::RefCell::new(std::collections::BTreeMap::<String, u64>::new());
    verif_harness::sysoracle::run_sys_cases_wrapped(&mut s, &cases, &|c, _| c.ops.len() >= 4, true, &|c, coq, class| {
        let single = c.bars.len() == 1
            && c.mp == TInit::Hidden
            && matches!(c.bars[0].target, TInit::Term(_))
            && c.fail_at.is_empty()
            && c.fail_from.is_none()
            && c.ops.iter().all(|(_, o)| o.bar() == Some(0) && !matches!(o, Op::Insert(..) | Op::Remove(_)));
        if !single {
            return format!("(C19Sys {coq})");
        }
        let v = match class {
            None => 0,
            Some("empty-line-after-text-only-draw-swallowed") => 1,
            Some("height-cut-leaves-cursor-mid-row") => 3,
            Some(_) => 2,
        };
        *counts.borrow_mut().entry(format!("single-bar-oracle-verdict:{}", ["pass", "D28", "other", "D14"][v])).or_insert(0) += 1;
        format!("(C19Single {coq} {v})")
    });
    for (k, n) in counts.into_inner() {
        s.count_n(&k, n);
    }
    f64_ceiling_sweep(&mut s, &mut r, if a.thorough { 200_000 } else { 20_000 });
    verif_harness::sysoracle::wide_text_stream(&mut s, &mut r, if a.thorough { 2000 } else { 250 });
    // oracle-only: zero-width and double-width characters in NON-LAST frame lines (two-line templates, non-last
    // bars of a MultiProgress) with println between the draws, judged on the vt100 crate
    unicode_width_stream(&mut s, &mut r, if a.thorough { 2000 } else { 250 });
    s.finish();
}
