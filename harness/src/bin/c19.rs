//! C19 – wrapped rows and height overflow: tiny terminals (from 1x1), line widths around multiples
//! of the width, histories that grow and shrink the set of bars past the terminal height.
use verif_harness::sysoracle::*;
use verif_harness::sysrun::*;
use verif_harness::*;

fn main() {
    let a = args();
    let mut s = Session::new(&a, "C19", COQ_HEADER, COQ_CASE_TY, COQ_CHECKER);
    s.shard_size = 120;
    s.rule = "MultiProgress and single-bar histories on terminals W in 1..10, H in 1..6 (and 1x1), 1..6 bars with one- to three-line templates and messages whose widths cluster at multiples of W, adds/removes/finishes/drops that push the frame past the height and back; every draw current (gaps >= 1 ms, no refresh limiter); oracle: screen = log ++ the leading bar lines whose accumulated wrapped rows fit H, nothing else; non-trivial = some frame exceeded the height or some line wrapped; distinct = distinct case text".into();
    let mut r = Rng::new(a.seed);
    let n = if a.thorough { 6000 } else if a.extended { 3000 } else { 500 };
    let mut cases = vec![];
    for i in 0..n {
        let mut cfg = GenCfg::default_multi();
        cfg.widths = vec![1, 2, 3, 4, 5, 7, 10];
        cfg.heights = vec![1, 2, 3, 4, 5, 6];
        if i % 10 == 0 {
            cfg.widths = vec![1];
            cfg.heights = vec![1];
        }
        cfg.max_bars = 6;
        cfg.w_log = 10;
        cfg.w_finish = 10;
        cfg.w_struct = 30;
        cfg.bottom = false;
        cases.push(gen_multi_case(&mut r, &cfg));
    }
    run_sys_cases(&mut s, &cases, &|c, _| c.ops.len() >= 4);
    s.finish();
}
