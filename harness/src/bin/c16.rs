//! C16 – tabs are expanded before reaching the terminal: correspondence with model/Tabs.v + oracle.
//!
//! A case is a history of public-API calls on one ProgressBar drawing to a recording TermLike
//! (no rate limiter).  After every call the harness records what reached the terminal (the text
//! lines of a println and the bar lines of the draw, if the call draws) or what the getter
//! returned.  Templates use EVERY kind of placeholder (width / alignment / truncation / style on
//! msg, prefix, custom and built-in keys; wide_msg; wide_bar; bar; spinner; numeric keys) and
//! styles with their own tick strings / progress characters, with and without TABs.
use indicatif::{MultiProgress, ProgressBar, ProgressDrawTarget, ProgressFinish, ProgressState, ProgressStyle};
use verif_harness::spy::{Spy, TOp};
use verif_harness::*;

const KEYS: [&str; 4] = ["k0", "k1", "k2", "k3"];
/// widths of the recording terminal (one per history)
const TERM_WIDTHS: [u16; 5] = [40, 40, 12, 79, 5];

/// ALL numeric / time built-in keys with their position in the crate's key list
/// (coq/gen/Constants.v FORMAT_KEYS).  Their texts are environment inputs of the model: the
/// harness observes them, per rendering, on a shadow bar that is in the same state.
const NUM_KEYS: [(&str, u32); 22] = [
    ("pos", 6),
    ("human_pos", 7),
    ("len", 8),
    ("human_len", 9),
    ("percent", 10),
    ("percent_precise", 11),
    ("bytes", 12),
    ("total_bytes", 13),
    ("decimal_bytes", 14),
    ("decimal_total_bytes", 15),
    ("binary_bytes", 16),
    ("binary_total_bytes", 17),
    ("elapsed_precise", 18),
    ("elapsed", 19),
    ("per_sec", 20),
    ("bytes_per_sec", 21),
    ("decimal_bytes_per_sec", 22),
    ("binary_bytes_per_sec", 23),
    ("eta_precise", 24),
    ("eta", 25),
    ("duration_precise", 26),
    ("duration", 27),
];

#[derive(Clone, Copy, Debug, PartialEq)]
enum Key {
    Msg,
    Prefix,
    WideMsg,
    WideBar,
    Bar,
    Spinner,
    Num(usize), // index into NUM_KEYS
    Custom(u8),
}

#[derive(Clone, Copy, Debug, PartialEq)]
struct Ph {
    key: Key,
    align: Option<char>, // '<' '^' '>'
    width: Option<u16>,
    trunc: bool,
    style: Option<&'static str>,
    alt: Option<&'static str>,
}
fn bare(key: Key) -> Ph {
    Ph { key, align: None, width: None, trunc: false, style: None, alt: None }
}
impl Ph {
    fn is_bare(&self) -> bool {
        *self == bare(self.key)
    }
}

#[derive(Clone, Debug, PartialEq)]
enum T {
    Lit(String),
    NewLine,
    Ph(Ph),
}
#[allow(non_upper_case_globals)]
impl T {
    const Msg: T = T::Ph(Ph { key: Key::Msg, align: None, width: None, trunc: false, style: None, alt: None });
    const Prefix: T = T::Ph(Ph { key: Key::Prefix, align: None, width: None, trunc: false, style: None, alt: None });
    fn key(k: u8) -> T {
        T::Ph(bare(Key::Custom(k)))
    }
}

type KeyMap = Vec<(u8, Vec<String>)>;

/// tick strings / progress characters given to the style builder (None: the builder is not called)
#[derive(Clone, Debug, PartialEq, Default)]
struct Glyphs {
    tick_strings: Option<Vec<String>>,
    progress_chars: Option<String>,
}
impl Glyphs {
    fn tick_tab(&self) -> bool {
        self.tick_strings.as_ref().map_or(false, |t| t.iter().any(|x| x.contains('\t')))
    }
    /// ProgressStyle::progress_chars rejects such an argument (style.rs:157-158)
    fn pchars_tab(&self) -> bool {
        self.progress_chars.as_ref().map_or(false, |p| p.contains('\t'))
    }
    /// the TABs of the tick strings replaced by [x] (the progress characters are left alone: a
    /// style with a TAB there is rejected by the builder in both runs)
    fn sanitised(&self, x: char) -> Glyphs {
        let r = |s: &String| s.replace('\t', &x.to_string());
        Glyphs { tick_strings: self.tick_strings.as_ref().map(|t| t.iter().map(r).collect()), progress_chars: self.progress_chars.clone() }
    }
}

#[derive(Clone, Debug)]
enum Fin {
    AndLeave,
    WithMessage(String),
    AndClear,
    Abandon,
    AbandonWithMessage(String),
}

#[derive(Clone, Debug)]
enum Op {
    SetTabWidth(usize),
    WithTabWidth(usize),
    SetStyleNew { keys: KeyMap, gl: Glyphs, tpl: Vec<T>, builder: bool },
    SetStyleDerived { tpl: Vec<T>, builder: bool },
    SaveStyle,
    RestoreStyle,
    SetMessage(String),
    SetPrefix(String),
    WithMessage(String),
    WithPrefix(String),
    FinishWithMessage(String),
    AbandonWithMessage(String),
    WithFinish(Fin),
    FinishUsingStyle,
    Tick,
    /// pb.update(|s| { s.set_pos(..); s.set_len(..) }): position / length change, then
    /// BarState::tick - a `Tick` for the model, in a changed environment
    Update { pos: Option<u64>, len: Option<u64> },
    /// the mock clock moves on (between two calls): not a call on the bar, not an op of the model
    Clock(u64),
    Println(String),
    GetMessage,
    GetPrefix,
}

fn ph_text(h: &Ph) -> String {
    let mut s = String::from("{");
    match h.key {
        Key::Msg => s.push_str("msg"),
        Key::Prefix => s.push_str("prefix"),
        Key::WideMsg => s.push_str("wide_msg"),
        Key::WideBar => s.push_str("wide_bar"),
        Key::Bar => s.push_str("bar"),
        Key::Spinner => s.push_str("spinner"),
        Key::Num(i) => s.push_str(NUM_KEYS[i].0),
        Key::Custom(k) => s.push_str(KEYS[k as usize]),
    }
    if !h.is_bare() {
        s.push(':');
        if let Some(a) = h.align {
            s.push(a);
        }
        if let Some(w) = h.width {
            s.push_str(&w.to_string());
        }
        if h.trunc {
            s.push('!');
        }
        if h.style.is_some() || h.alt.is_some() {
            s.push('.');
            s.push_str(h.style.unwrap_or(""));
            if let Some(a) = h.alt {
                s.push('/');
                s.push_str(a);
            }
        }
    }
    s.push('}');
    s
}
fn tpl_text(t: &[T]) -> String {
    let mut s = String::new();
    for p in t {
        match p {
            T::Lit(x) => s.push_str(x),
            T::NewLine => s.push('\n'),
            T::Ph(h) => s.push_str(&ph_text(h)),
        }
    }
    s
}

/// the two escape sequences console::Style writes around a value, observed on console itself
fn sty_coq(dotted: Option<&str>) -> String {
    match dotted {
        None => "None".into(),
        Some(d) => {
            let r = format!("{}", console::Style::from_dotted_str(d).apply_to("\u{1}"));
            let (pre, post) = r.split_once('\u{1}').expect("styled marker");
            format!("(Some (mksty {} {}))", cstr(pre), cstr(post))
        }
    }
}
fn ph_coq(h: &Ph) -> String {
    let key = match h.key {
        Key::Msg => "KMsg".to_string(),
        Key::Prefix => "KPrefix".into(),
        Key::WideMsg => "KWideMsg".into(),
        Key::WideBar => "KWideBar".into(),
        Key::Bar => "KBar".into(),
        Key::Spinner => "KSpinner".into(),
        Key::Num(i) => format!("(KNum {})", NUM_KEYS[i].1),
        Key::Custom(k) => format!("(KCustom {k})"),
    };
    let align = match h.align {
        Some('^') => "Padded.ACenter",
        Some('>') => "Padded.ARight",
        _ => "Padded.ALeft",
    };
    format!(
        "TPh (mkph {key} {align} {} {} {} {})",
        match h.width {
            Some(w) => format!("(Some {w})"),
            None => "None".into(),
        },
        cbool(h.trunc),
        sty_coq(h.style),
        sty_coq(h.alt)
    )
}
fn tpl_coq(t: &[T]) -> String {
    clist(t.iter().map(|p| match p {
        T::Lit(x) => format!("TLit {}", cstr(x)),
        T::NewLine => "TNewLine".into(),
        T::Ph(h) => ph_coq(h),
    }))
}
fn keys_coq(k: &KeyMap) -> String {
    clist(k.iter().map(|(id, chunks)| format!("({id}, {})", clist(chunks.iter().map(|c| cstr(c))))))
}
const DEFAULT_TICKS: &str = "⠁⠁⠉⠙⠚⠒⠂⠂⠒⠲⠴⠤⠄⠄⠤⠠⠠⠤⠦⠖⠒⠐⠐⠒⠓⠋⠉⠈⠈ ";
const DEFAULT_PCHARS: &str = "█░";
/// grapheme clusters of the progress characters used here: one scalar each (the generator only
/// uses such strings), checked against the crate through the common width below
fn glyphs_coq(g: &Glyphs) -> String {
    if g.tick_strings.is_none() && g.progress_chars.is_none() {
        return "default_glyphs".into();
    }
    let ticks: Vec<String> = match &g.tick_strings {
        Some(t) => t.clone(),
        None => DEFAULT_TICKS.chars().map(|c| c.to_string()).collect(),
    };
    let pc: &str = g.progress_chars.as_deref().unwrap_or(DEFAULT_PCHARS);
    let cw = console::measure_text_width(&pc.chars().next().unwrap().to_string());
    format!("(mkglyphs {} {} {cw})", clist(ticks.iter().map(|t| cstr(t))), clist(pc.chars().map(|c| cstr(&c.to_string()))))
}

impl Op {
    fn name(&self) -> &'static str {
        match self {
            Op::SetTabWidth(_) => "set_tab_width",
            Op::WithTabWidth(_) => "with_tab_width",
            Op::SetStyleNew { builder: false, .. } => "set_style(new)",
            Op::SetStyleNew { builder: true, .. } => "with_style(new)",
            Op::SetStyleDerived { builder: false, .. } => "set_style(style().template())",
            Op::SetStyleDerived { builder: true, .. } => "with_style(style().template())",
            Op::SaveStyle => "style()",
            Op::RestoreStyle => "set_style(saved)",
            Op::SetMessage(_) => "set_message",
            Op::SetPrefix(_) => "set_prefix",
            Op::WithMessage(_) => "with_message",
            Op::WithPrefix(_) => "with_prefix",
            Op::FinishWithMessage(_) => "finish_with_message",
            Op::AbandonWithMessage(_) => "abandon_with_message",
            Op::WithFinish(_) => "with_finish",
            Op::FinishUsingStyle => "finish_using_style",
            Op::Tick => "tick",
            Op::Update { .. } => "update(set_pos/set_len)",
            Op::Clock(_) => "(clock advances)",
            Op::Println(_) => "println",
            Op::GetMessage => "message()",
            Op::GetPrefix => "prefix()",
        }
    }
    fn coq(&self) -> String {
        match self {
            Op::SetTabWidth(n) => format!("SetTabWidth {n}"),
            Op::WithTabWidth(n) => format!("WithTabWidth {n}"),
            Op::SetStyleNew { keys, gl, tpl, .. } => format!("SetStyleNew {} {} {}", keys_coq(keys), glyphs_coq(gl), tpl_coq(tpl)),
            Op::SetStyleDerived { tpl, .. } => format!("SetStyleDerived {}", tpl_coq(tpl)),
            Op::SaveStyle => "SaveStyle".into(),
            Op::RestoreStyle => "RestoreStyle".into(),
            Op::SetMessage(s) => format!("SetMessage {}", cstr(s)),
            Op::SetPrefix(s) => format!("SetPrefix {}", cstr(s)),
            Op::WithMessage(s) => format!("WithMessage {}", cstr(s)),
            Op::WithPrefix(s) => format!("WithPrefix {}", cstr(s)),
            Op::FinishWithMessage(s) => format!("FinishWithMessage {}", cstr(s)),
            Op::AbandonWithMessage(s) => format!("AbandonWithMessage {}", cstr(s)),
            Op::WithFinish(f) => format!(
                "WithFinish {}",
                match f {
                    Fin::AndLeave => "FAndLeave".to_string(),
                    Fin::WithMessage(s) => format!("(FWithMessage {})", cstr(s)),
                    Fin::AndClear => "FAndClear".into(),
                    Fin::Abandon => "FAbandon".into(),
                    Fin::AbandonWithMessage(s) => format!("(FAbandonWithMessage {})", cstr(s)),
                }
            ),
            Op::FinishUsingStyle => "FinishUsingStyle".into(),
            Op::Tick | Op::Update { .. } => "Tick".into(),
            Op::Clock(_) => unreachable!(),
            Op::Println(s) => format!("Println {}", cstr(s)),
            Op::GetMessage => "GetMessage".into(),
            Op::GetPrefix => "GetPrefix".into(),
        }
    }
    fn desc(&self) -> String {
        match self {
            Op::SetStyleNew { keys, gl, tpl, .. } => format!("{}[{:?} keys={:?} ticks={:?} pchars={:?}]", self.name(), tpl_text(tpl), keys, gl.tick_strings, gl.progress_chars),
            Op::SetStyleDerived { tpl, .. } => format!("{}[{:?}]", self.name(), tpl_text(tpl)),
            Op::SetTabWidth(n) | Op::WithTabWidth(n) => format!("{}({n})", self.name()),
            Op::SetMessage(s) | Op::SetPrefix(s) | Op::WithMessage(s) | Op::WithPrefix(s) | Op::FinishWithMessage(s) | Op::AbandonWithMessage(s) | Op::Println(s) => {
                format!("{}({s:?})", self.name())
            }
            Op::WithFinish(f) => format!("with_finish({f:?})"),
            Op::Update { pos, len } => format!("update(pos={pos:?}, len={len:?})"),
            Op::Clock(ns) => format!("clock+{ns}ns"),
            _ => self.name().to_string(),
        }
    }
}

#[derive(Clone, Debug, PartialEq)]
enum Out {
    Draw(Vec<String>, Vec<String>),
    Got(String),
    Nothing,
    /// the style builder panicked; no style was built, the bar was not touched
    BuildPanic,
}
impl Out {
    fn coq(&self) -> String {
        match self {
            Out::Draw(t, l) => format!("ODraw {} {}", clist(t.iter().map(|x| cstr(x))), clist(l.iter().map(|x| cstr(x)))),
            Out::Got(s) => format!("OGot {}", cstr(s)),
            Out::Nothing => "ONone".into(),
            Out::BuildPanic => "OBuildPanic".into(),
        }
    }
}

fn make_style(base: ProgressStyle, keys: &KeyMap, gl: &Glyphs) -> ProgressStyle {
    let mut st = base;
    if let Some(t) = &gl.tick_strings {
        let v: Vec<&str> = t.iter().map(|x| x.as_str()).collect();
        st = st.tick_strings(&v);
    }
    if let Some(p) = &gl.progress_chars {
        st = st.progress_chars(p);
    }
    for (id, chunks) in keys {
        let chunks = chunks.clone();
        st = st.with_key(KEYS[*id as usize], move |_: &ProgressState, w: &mut dyn std::fmt::Write| {
            for c in &chunks {
                let _ = w.write_str(c);
            }
        });
    }
    st
}

/// What the history defines, kept by the harness independently of the crate: the last value
/// given to each setting.
struct Reference {
    tw: usize,
    msg: String,
    prefix: String,
    keys: KeyMap,
    tpl: Option<Vec<T>>, // None: the built-in default template
    saved: Option<(KeyMap, Option<Vec<T>>, Vec<String>, String)>,
    /// the tick strings of the style in force and the number of tick() calls so far
    ticks: Vec<String>,
    /// the progress characters of the style in force (one scalar per cluster)
    pchars: String,
    tick: u64,
    on_finish: Fin,
    hidden: bool,
    finished: bool,
    // bookkeeping for the input distribution only
    msg_shown: bool,
    lits_shown: bool,
    saved_tw: usize,
}

fn default_ticks() -> Vec<String> {
    DEFAULT_TICKS.chars().map(|c| c.to_string()).collect()
}

fn expand(s: &str, tw: usize) -> String {
    let mut o = String::new();
    for c in s.chars() {
        if c == '\t' {
            for _ in 0..tw {
                o.push(' ')
            }
        } else {
            o.push(c)
        }
    }
    o
}

impl Reference {
    /// the bar lines a draw must produce when the template consists of literals, bare
    /// {msg} / {prefix} / custom keys and newlines: every text expanded from its original with
    /// the current tab width.  None: other templates (judged by the TAB oracle and the model).
    fn lines(&self) -> Option<Vec<String>> {
        if self.hidden {
            return Some(vec![]);
        }
        let tpl = self.tpl.as_ref()?;
        let mut whole = String::new();
        let mut lines = vec![];
        let flush = |w: &mut String, lines: &mut Vec<String>| {
            for l in w.split('\n') {
                lines.push(l.to_string());
            }
            w.clear();
        };
        for p in tpl {
            match p {
                T::Lit(x) => whole.push_str(&expand(x, self.tw)),
                T::NewLine => flush(&mut whole, &mut lines),
                T::Ph(h) if h.is_bare() => match h.key {
                    Key::Msg => whole.push_str(&expand(&self.msg, self.tw)),
                    Key::Prefix => whole.push_str(&expand(&self.prefix, self.tw)),
                    // the tick string of the moment, expanded like every other text: with the
                    // CURRENT tab width, whenever the style or the width was set
                    Key::Spinner => {
                        let n = self.ticks.len();
                        let t = if self.finished { &self.ticks[n - 1] } else { &self.ticks[(self.tick as usize) % (n - 1)] };
                        whole.push_str(&expand(t, self.tw))
                    }
                    Key::Custom(k) => {
                        if let Some((_, chunks)) = self.keys.iter().find(|(id, _)| *id == k) {
                            for c in chunks {
                                whole.push_str(&expand(c, self.tw));
                            }
                        }
                    }
                    _ => return None,
                },
                T::Ph(_) => return None,
            }
        }
        if !whole.is_empty() {
            flush(&mut whole, &mut lines);
        }
        Some(lines)
    }
}

struct Gen {
    r: Rng,
}
impl Gen {
    fn text(&mut self, allow_nl: bool, exotic: bool) -> String {
        const A: [char; 8] = ['a', 'b', 'Z', ' ', 'é', '日', '-', ':'];
        let n = match self.r.below(10) {
            0 => 0,
            1 => 1,
            _ => self.r.range(2, 7),
        };
        let style = self.r.below(10); // 0-1: no tabs at all, 2: only tabs, else mixed
        let mut s = String::new();
        for _ in 0..n {
            let tab = match style {
                0 | 1 => false,
                2 => true,
                _ => self.r.chance(1, 3),
            };
            if tab {
                s.push('\t')
            } else if allow_nl && self.r.chance(1, 25) {
                s.push('\n')
            } else if exotic && self.r.chance(1, 60) {
                s.push('\0')
            } else {
                s.push(*self.r.pick(&A))
            }
        }
        s
    }
    fn long_text(&mut self) -> String {
        // long enough to be truncated by a sized field or a wide_msg on a 40-column terminal
        let n = self.r.range(8, 60);
        let mut s = String::new();
        for i in 0..n {
            if self.r.chance(1, 6) {
                s.push('\t')
            } else if self.r.chance(1, 12) {
                s.push(*self.r.pick(&['é', '日', ' ']))
            } else {
                s.push((b'a' + (i % 26) as u8) as char)
            }
        }
        s
    }
    fn msg_text(&mut self, rich: bool) -> String {
        if rich && self.r.chance(1, 4) {
            self.long_text()
        } else {
            self.text(true, rich)
        }
    }
    fn tw(&mut self) -> usize {
        match self.r.below(12) {
            0 | 1 => 0,
            2 => 1,
            3 => 2,
            4 => 3,
            5 => 4,
            6 | 7 => 8,
            8 => 16,
            _ => self.r.range(0, 40) as usize,
        }
    }
    fn ph(&mut self) -> Ph {
        let key = match self.r.below(16) {
            0..=2 => Key::Msg,
            3 => Key::Prefix,
            4 | 5 => Key::Custom(self.r.below(4) as u8),
            6 | 7 => Key::WideMsg,
            8 => Key::WideBar,
            9 | 10 => Key::Bar,
            11 | 12 => Key::Spinner,
            _ => Key::Num(self.r.below(NUM_KEYS.len() as u64) as usize),
        };
        let mut h = bare(key);
        if self.r.chance(1, 5) {
            return h;
        }
        h.align = *self.r.pick(&[None, None, Some('<'), Some('^'), Some('>')]);
        h.width = match self.r.below(8) {
            0 | 1 => None,
            2 => Some(0),
            3 => Some(1),
            _ => Some(self.r.range(2, 14) as u16),
        };
        // the width of per_sec is a precision (style.rs:318-325): keep it small
        if matches!(key, Key::Num(i) if NUM_KEYS[i].0 == "per_sec") {
            h.width = h.width.map(|w| w.min(6));
        }
        h.trunc = self.r.chance(1, 2);
        if self.r.chance(1, 3) {
            h.style = Some(*self.r.pick(&["red", "bold", "on_blue.green", "bright.yellow.underlined", "nonsense"]));
        }
        if (h.style.is_some() && self.r.chance(1, 3)) || self.r.chance(1, 12) {
            h.alt = Some(*self.r.pick(&["blue", "dim", "on_white"]));
        }
        h
    }
    fn template(&mut self, rich: bool) -> Vec<T> {
        let n = self.r.range(0, 6);
        let mut t: Vec<T> = vec![];
        for _ in 0..n {
            let p = match self.r.below(if rich { 14 } else { 9 }) {
                0..=2 => {
                    let x = self.text(false, rich);
                    if x.is_empty() {
                        continue;
                    }
                    T::Lit(x)
                }
                3 | 4 => T::Msg,
                5 => T::Prefix,
                6 | 7 => T::key(self.r.below(4) as u8),
                8 => T::NewLine,
                _ => T::Ph(self.ph()),
            };
            // adjacent literals are one literal for the parser
            if let (Some(T::Lit(prev)), T::Lit(x)) = (t.last_mut(), &p) {
                prev.push_str(x);
                continue;
            }
            t.push(p);
        }
        t
    }
    fn keys(&mut self) -> KeyMap {
        let mut k = vec![];
        for id in 0..4u8 {
            if self.r.chance(1, 2) {
                let n = self.r.range(0, 3);
                k.push((id, (0..n).map(|_| self.text(true, false)).collect()));
            }
        }
        k
    }
    fn glyphs(&mut self, rich: bool) -> Glyphs {
        let mut g = Glyphs::default();
        if !rich {
            return g;
        }
        if self.r.chance(1, 2) {
            let n = self.r.range(2, 5);
            let tabby = self.r.chance(1, 3);
            g.tick_strings = Some(
                (0..n)
                    .map(|i| {
                        let base = *self.r.pick(&["-", "\\", "|", "/", "..", "日", "ok", ""]);
                        if tabby && (i == 0 || self.r.chance(1, 2)) {
                            format!("{base}\t")
                        } else {
                            base.to_string()
                        }
                    })
                    .collect(),
            );
        }
        if self.r.chance(1, 2) {
            g.progress_chars = Some((*self.r.pick(&["#>-", "=> ", "█▓▒░", "ab", "日本", "\t-", "#\t", "#>\t", "\t\t"])).to_string());
        }
        g
    }
    fn fin(&mut self, rich: bool) -> Fin {
        match self.r.below(6) {
            0 => Fin::AndLeave,
            1 | 2 => Fin::WithMessage(self.msg_text(rich)),
            3 => Fin::AndClear,
            4 => Fin::Abandon,
            _ => Fin::AbandonWithMessage(self.msg_text(rich)),
        }
    }
    fn println_text(&mut self) -> String {
        match self.r.below(6) {
            0 | 1 => "log line".into(),
            2 => String::new(),
            3 => format!("{}\r\n{}\n", self.text(false, false), self.text(false, false)),
            _ => self.text(true, false),
        }
    }
    fn op(&mut self, rich: bool) -> Op {
        match self.r.below(33) {
            0..=3 => Op::SetTabWidth(self.tw()),
            4..=5 => Op::WithTabWidth(self.tw()),
            6..=8 => Op::SetStyleNew { keys: self.keys(), gl: self.glyphs(rich), tpl: self.template(rich), builder: self.r.chance(1, 2) },
            9..=10 => Op::SetStyleDerived { tpl: self.template(rich), builder: self.r.chance(1, 2) },
            11 => Op::SaveStyle,
            12..=13 => Op::RestoreStyle,
            14..=16 => Op::SetMessage(self.msg_text(rich)),
            17..=18 => Op::SetPrefix(self.text(true, rich)),
            19 => Op::WithMessage(self.msg_text(rich)),
            20 => Op::WithPrefix(self.text(true, rich)),
            21 => Op::FinishWithMessage(self.msg_text(rich)),
            22 => Op::AbandonWithMessage(self.msg_text(rich)),
            23..=25 => Op::Tick,
            26 => Op::Println(self.println_text()),
            27..=28 => Op::GetMessage,
            29 => Op::GetPrefix,
            30 => Op::WithFinish(self.fin(rich)),
            31 => Op::FinishUsingStyle,
            _ => Op::Tick,
        }
    }
    /// position / length changes and clock steps: what the numeric keys and the bars depend on
    fn env_op(&mut self) -> Op {
        const POS: [u64; 10] = [0, 1, 3, 7, 42, 999, 1000, 123_456_789, 5_000_000_000_000, u64::MAX];
        const LEN: [u64; 8] = [0, 1, 10, 100, 1024, 1_000_000, 10_000_000_000_000, u64::MAX];
        const CLK: [u64; 8] = [1_000_000, 250_000_000, 1_000_000_000, 7_500_000_000, 90_000_000_000, 7_200_000_000_000, 200_000_000_000_000, 40_000_000_000_000_000];
        match self.r.below(5) {
            0 | 1 => Op::Clock(*self.r.pick(&CLK)),
            2 => Op::Update { pos: Some(*self.r.pick(&POS)), len: None },
            3 => Op::Update { pos: if self.r.chance(1, 2) { Some(*self.r.pick(&POS)) } else { None }, len: Some(*self.r.pick(&LEN)) },
            _ => Op::Update { pos: Some(self.r.range(0, 120)), len: Some(100) },
        }
    }
}

fn glyph_tab(ops: &[Op]) -> bool {
    ops.iter().any(|o| matches!(o, Op::SetStyleNew { gl, .. } if gl.tick_tab() && !gl.pchars_tab()))
}
/// the same history with every TAB of a tick string / progress character replaced by [x]
fn sanitise(ops: &[Op], x: char) -> Vec<Op> {
    ops.iter()
        .map(|o| match o {
            Op::SetStyleNew { keys, gl, tpl, builder } => Op::SetStyleNew { keys: keys.clone(), gl: gl.sanitised(x), tpl: tpl.clone(), builder: *builder },
            o => o.clone(),
        })
        .collect()
}

/// what one run of a history on the implementation showed
#[derive(Default)]
struct Exec {
    outs: Vec<Out>,
    counts: Vec<String>,
    panic: Option<String>,
    tab_fail: Option<String>,
    getter_fail: Option<String>,
    stale_fail: Option<String>,
    shape_fail: Option<String>,
    build_panic: bool,
    accept_fail: Option<String>,
    env_fail: Option<String>,
    /// (rendering, key number, width, text): what every numeric key placed in the template in
    /// force wrote at that rendering, observed on the shadow bar
    pernum: Vec<(u64, u32, Option<u16>, String)>,
    /// (rendering, cells, (filled, current, background)) of the bars of that rendering, where it
    /// is not "background only"
    geoms: Vec<(u64, u64, (u64, Option<u64>, u64))>,
    /// numeric-key observations with the snapshot they were made in, for the keys whose text is a
    /// function of (position, length, fraction, elapsed): Coq `mkenvobs pos len pct elapsed id w text`
    envobs: Vec<String>,
}

/// [multi]: the bar is the only member of a MultiProgress that draws to the recording terminal
/// (same BarState / format_state code, the lines travel through MultiState::draw)
fn execute(ops: &[Op], multi: bool, term_w: u16) -> Exec {
    let mut ex = Exec::default();
    indicatif::verif_clock::set_clock_ns(1_000_000_000);
    let spy = Spy::new(term_w, u16::MAX);
    let mut _mp: Option<MultiProgress> = None;
    let mut pb = match catch(|| {
        if multi {
            let mp = MultiProgress::with_draw_target(ProgressDrawTarget::term_like(Box::new(spy.clone())));
            let pb = mp.add(ProgressBar::with_draw_target(None, ProgressDrawTarget::hidden()));
            _mp = Some(mp);
            pb
        } else {
            ProgressBar::with_draw_target(None, ProgressDrawTarget::term_like(Box::new(spy.clone())))
        }
    }) {
        Ok(pb) => Some(pb),
        Err(e) => {
            ex.panic = Some(format!("constructor panicked: {e}"));
            return ex;
        }
    };
    // The shadow: a bar created at the same instant that receives every position / length /
    // estimator / finish event of the bar under test and nothing else.  Before each rendering it
    // is asked, one key at a time, what the numeric keys write: the model's environment.
    let shadow_spy = Spy::new(4000, u16::MAX);
    let shadow = ProgressBar::with_draw_target(None, ProgressDrawTarget::term_like(Box::new(shadow_spy.clone())));
    let mut saved_style: Option<ProgressStyle> = None;
    let mut rf = Reference {
        tw: 8,
        msg: String::new(),
        prefix: String::new(),
        keys: vec![],
        tpl: None,
        saved: None,
        ticks: default_ticks(),
        pchars: DEFAULT_PCHARS.to_string(),
        tick: 0,
        on_finish: Fin::AndClear,
        hidden: false,
        finished: false,
        msg_shown: false,
        lits_shown: false,
        saved_tw: 8,
    };
    spy.take();
    let mut renderings: u64 = 0; // format_state calls so far (a hidden bar is not rendered)
    for (i, o) in ops.iter().enumerate() {
        if let Op::Clock(ns) = o {
            indicatif::verif_clock::advance_clock_ns(*ns);
            ex.counts.push("environment:clock-advanced".into());
            continue;
        }
        // ---- reference bookkeeping (history-defined values) + distribution
        ex.counts.push(format!("op:{}", o.name()));
        // ---- a fresh style is built first, away from the bar: the builder may reject its argument
        let mut built: Option<ProgressStyle> = None;
        if let Op::SetStyleNew { keys, gl, tpl, .. } = o {
            match catch(|| make_style(ProgressStyle::with_template(&tpl_text(tpl)).expect("template"), keys, gl)) {
                Ok(st) => {
                    if gl.pchars_tab() && ex.accept_fail.is_none() {
                        ex.accept_fail = Some(format!("op #{i} {}: progress_chars accepted a TAB", o.desc()));
                    }
                    built = Some(st);
                }
                Err(e) if gl.pchars_tab() && e.contains("progress chars must not contain tabs") => {
                    // style.rs:157-158: no style exists, the bar was not touched, the history goes on
                    ex.counts.push("event:builder-rejected-tab-in-progress-chars".into());
                    if !spy.take().is_empty() && ex.shape_fail.is_none() {
                        ex.shape_fail = Some(format!("op #{i} {}: a rejected style builder wrote to the terminal", o.desc()));
                    }
                    ex.outs.push(Out::BuildPanic);
                    continue;
                }
                Err(e) => {
                    // any other rejection (unequal / zero width progress characters ...) is C14's
                    // subject and not part of a history: the caller drops such histories
                    ex.build_panic = true;
                    ex.panic = Some(format!("op #{i} {} panicked: {e}", o.desc()));
                    if let Some(p) = pb.take() {
                        std::mem::forget(p);
                    }
                    return ex;
                }
            }
        }
        let mut expect_draw = false;
        let apply_fin = |rf: &mut Reference, f: &Fin| {
            rf.hidden = matches!(f, Fin::AndClear);
            rf.finished = true;
            // the same status / position change on the shadow (state.rs:43-67; no estimator event)
            match f {
                Fin::AndLeave | Fin::WithMessage(_) => shadow.finish(),
                Fin::AndClear => shadow.finish_and_clear(),
                Fin::Abandon | Fin::AbandonWithMessage(_) => shadow.abandon(),
            }
            if let Fin::WithMessage(x) | Fin::AbandonWithMessage(x) = f {
                rf.msg = x.clone();
                rf.msg_shown = false;
            }
        };
        match o {
            Op::SetTabWidth(n) | Op::WithTabWidth(n) => {
                ex.counts.push(format!("tab_width:{}", if *n <= 4 { n.to_string() } else if *n == 8 { "8".into() } else { "other".into() }));
                if *n != rf.tw && rf.msg_shown && rf.msg.contains('\t') {
                    ex.counts.push("event:width-changed-while-message-cache-filled".into());
                }
                if *n != rf.tw && rf.lits_shown {
                    ex.counts.push("event:width-changed-while-literal-cache-filled".into());
                }
                rf.tw = *n;
                expect_draw = matches!(o, Op::SetTabWidth(_));
            }
            Op::SetStyleNew { keys, tpl, gl, .. } => {
                rf.keys = keys.clone();
                rf.tpl = Some(tpl.clone());
                rf.ticks = gl.tick_strings.clone().unwrap_or_else(default_ticks);
                rf.pchars = gl.progress_chars.clone().unwrap_or_else(|| DEFAULT_PCHARS.to_string());
                rf.lits_shown = false;
                if rf.tw != 8 {
                    ex.counts.push("event:new-style-set-while-width-not-default".into());
                }
                if gl.tick_tab() {
                    ex.counts.push("style:tab-in-tick-strings".into());
                }
                if gl.tick_strings.is_some() {
                    ex.counts.push("style:own-tick-strings".into());
                }
                if gl.progress_chars.is_some() {
                    ex.counts.push("style:own-progress-chars".into());
                }
            }
            Op::SetStyleDerived { tpl, .. } => {
                rf.tpl = Some(tpl.clone());
                rf.lits_shown = false;
                if rf.tw != 8 {
                    ex.counts.push("event:new-style-set-while-width-not-default".into());
                }
            }
            Op::SaveStyle => {
                rf.saved = Some((rf.keys.clone(), rf.tpl.clone(), rf.ticks.clone(), rf.pchars.clone()));
                rf.saved_tw = rf.tw;
            }
            Op::RestoreStyle => {
                if let Some((k, t, ti, pc)) = rf.saved.clone() {
                    rf.keys = k;
                    rf.tpl = t;
                    rf.ticks = ti;
                    rf.pchars = pc;
                    if rf.saved_tw != rf.tw {
                        ex.counts.push("event:saved-style-restored-after-width-change".into());
                    }
                }
            }
            Op::SetMessage(x) => {
                rf.msg = x.clone();
                rf.msg_shown = false;
                shadow.tick(); // update_estimate_and_draw: the estimator sees the position now
                expect_draw = true;
            }
            Op::FinishWithMessage(x) => {
                apply_fin(&mut rf, &Fin::WithMessage(x.clone()));
                expect_draw = true;
            }
            Op::AbandonWithMessage(x) => {
                apply_fin(&mut rf, &Fin::AbandonWithMessage(x.clone()));
                expect_draw = true;
            }
            Op::WithFinish(f) => rf.on_finish = f.clone(),
            Op::FinishUsingStyle => {
                let f = rf.on_finish.clone();
                apply_fin(&mut rf, &f);
                expect_draw = true;
                if rf.hidden {
                    ex.counts.push("event:finished-hidden".into());
                }
            }
            Op::WithMessage(x) => {
                rf.msg = x.clone();
                rf.msg_shown = false;
            }
            Op::SetPrefix(x) => {
                rf.prefix = x.clone();
                shadow.tick();
                expect_draw = true;
            }
            Op::WithPrefix(x) => rf.prefix = x.clone(),
            Op::Tick => {
                rf.tick += 1;
                shadow.tick();
                expect_draw = true
            }
            Op::Update { pos, len } => {
                rf.tick += 1;
                shadow.update(|st| {
                    if let Some(p) = pos {
                        st.set_pos(*p)
                    }
                    if let Some(l) = len {
                        st.set_len(*l)
                    }
                });
                ex.counts.push("environment:position-or-length-changed".into());
                expect_draw = true
            }
            Op::Clock(_) => unreachable!(),
            Op::Println(_) => expect_draw = true,
            Op::GetMessage => rf.msg_shown = true,
            Op::GetPrefix => {}
        }
        if let Op::SetStyleNew { tpl, .. } | Op::SetStyleDerived { tpl, .. } = o {
            for p in tpl {
                if let T::Ph(h) = p {
                    let k = match h.key {
                        Key::Msg => "msg",
                        Key::Prefix => "prefix",
                        Key::WideMsg => "wide_msg",
                        Key::WideBar => "wide_bar",
                        Key::Bar => "bar",
                        Key::Spinner => "spinner",
                        Key::Num(_) => "numeric",
                        Key::Custom(_) => "custom",
                    };
                    let shape = if h.is_bare() {
                        "bare"
                    } else if h.width.is_some() && h.trunc {
                        "sized-truncating"
                    } else if h.width.is_some() {
                        "sized"
                    } else {
                        "unsized-formatted"
                    };
                    ex.counts.push(format!("placeholder:{k}:{shape}"));
                    if h.style.is_some() || h.alt.is_some() {
                        ex.counts.push("placeholder:styled".into());
                    }
                }
            }
        }
        // ---- the environment of this rendering, observed on the shadow (same instant, same
        // position / length / estimator / status): the text of every numeric key of the template
        // in force, and the geometry of its bars
        if expect_draw && !rf.hidden {
            // no style set yet: "{wide_bar} {pos}/{len}" (ProgressStyle::default_bar, style.rs:73-75)
            let default_tpl = vec![T::Ph(bare(Key::WideBar)), lit(" "), T::Ph(bare(Key::Num(0))), lit("/"), T::Ph(bare(Key::Num(2)))];
            {
                let tpl = rf.tpl.as_ref().unwrap_or(&default_tpl);
                let (pos, len) = (shadow.position(), shadow.length());
                for p in tpl {
                    if let T::Ph(h) = p {
                        match h.key {
                            Key::Num(k) => {
                                let text = probe_num(&shadow, &shadow_spy, NUM_KEYS[k].0, h.width);
                                // the model's hypothesis env_ok, looked at directly
                                if text.contains('\t') && ex.env_fail.is_none() {
                                    ex.env_fail = Some(format!("before op #{i} {}: {{{}}} writes {text:?}", o.desc(), NUM_KEYS[k].0));
                                }
                                // ids 6..=19: pos, len, human_*, percent*, the six byte keys, elapsed* (the
                                // others depend on the estimator's floats)
                                if NUM_KEYS[k].1 <= 19 && ex.envobs.len() < 40 {
                                    let pct = ((fraction(pos, len) * 100f32) as f64).to_bits();
                                    ex.envobs.push(format!(
                                        "(mkenvobs {pos} {} {pct} {} {} {} {})",
                                        match len {
                                            Some(l) => format!("(Some {l})"),
                                            None => "None".into(),
                                        },
                                        shadow.elapsed().as_nanos(),
                                        NUM_KEYS[k].1,
                                        match h.width {
                                            Some(w) => format!("(Some {w})"),
                                            None => "None".into(),
                                        },
                                        cstr(&text)
                                    ));
                                }
                                ex.pernum.push((renderings, NUM_KEYS[k].1, h.width, text));
                                ex.counts.push(format!("environment:numeric-key:{}", NUM_KEYS[k].0));
                            }
                            Key::Bar | Key::WideBar => {
                                let n = rf.pchars.chars().count();
                                let cw = console::measure_text_width(&rf.pchars.chars().next().unwrap().to_string()).max(1);
                                let cells: Vec<u64> = if h.key == Key::Bar { vec![h.width.unwrap_or(20) as u64 / cw as u64] } else { (0..=term_w as u64 / cw as u64).collect() };
                                for c in cells {
                                    let g = bar_geometry(pos, len, c as usize, n);
                                    if g != (0, None, c) {
                                        ex.geoms.push((renderings, c, g));
                                    }
                                }
                                let f = fraction(pos, len);
                                ex.counts.push(format!("environment:bar-fraction:{}", if f == 0.0 { "0" } else if f >= 1.0 { "1" } else { "between" }));
                            }
                            _ => {}
                        }
                    }
                }
            }
            renderings += 1;
        }
        // ---- the implementation
        let mut got: Option<String> = None;
        // Calls taking &self run on a reference (a panic must not drop the bar while unwinding:
        // the drop would draw again); the consuming builders take the bar out and put it back.
        let res = catch(|| match o {
            Op::WithTabWidth(n) => {
                let p = pb.take().unwrap();
                pb = Some(p.with_tab_width(*n));
            }
            Op::SetStyleNew { builder, .. } => {
                let st = built.take().unwrap();
                if *builder {
                    let p = pb.take().unwrap();
                    pb = Some(p.with_style(st));
                } else {
                    pb.as_ref().unwrap().set_style(st);
                }
            }
            Op::SetStyleDerived { tpl, builder } => {
                let st = pb.as_ref().unwrap().style().template(&tpl_text(tpl)).expect("template");
                if *builder {
                    let p = pb.take().unwrap();
                    pb = Some(p.with_style(st));
                } else {
                    pb.as_ref().unwrap().set_style(st);
                }
            }
            Op::WithMessage(x) => {
                let p = pb.take().unwrap();
                pb = Some(p.with_message(x.clone()));
            }
            Op::WithPrefix(x) => {
                let p = pb.take().unwrap();
                pb = Some(p.with_prefix(x.clone()));
            }
            Op::WithFinish(f) => {
                let p = pb.take().unwrap();
                pb = Some(p.with_finish(match f {
                    Fin::AndLeave => ProgressFinish::AndLeave,
                    Fin::WithMessage(x) => ProgressFinish::WithMessage(x.clone().into()),
                    Fin::AndClear => ProgressFinish::AndClear,
                    Fin::Abandon => ProgressFinish::Abandon,
                    Fin::AbandonWithMessage(x) => ProgressFinish::AbandonWithMessage(x.clone().into()),
                }));
            }
            _ => {
                let p = pb.as_ref().unwrap();
                match o {
                    Op::SetTabWidth(n) => p.set_tab_width(*n),
                    Op::SaveStyle => saved_style = Some(p.style()),
                    Op::RestoreStyle => {
                        if let Some(st) = &saved_style {
                            p.set_style(st.clone());
                        }
                    }
                    Op::SetMessage(x) => p.set_message(x.clone()),
                    Op::SetPrefix(x) => p.set_prefix(x.clone()),
                    Op::FinishWithMessage(x) => p.finish_with_message(x.clone()),
                    Op::AbandonWithMessage(x) => p.abandon_with_message(x.clone()),
                    Op::FinishUsingStyle => p.finish_using_style(),
                    Op::Tick => p.tick(),
                    Op::Update { pos, len } => p.update(|st| {
                        if let Some(x) = pos {
                            st.set_pos(*x)
                        }
                        if let Some(l) = len {
                            st.set_len(*l)
                        }
                    }),
                    Op::Println(x) => p.println(x),
                    Op::GetMessage => got = Some(p.message()),
                    Op::GetPrefix => got = Some(p.prefix()),
                    _ => unreachable!(),
                }
            }
        });
        if let Err(e) = res {
            ex.panic = Some(format!("op #{i} {} panicked: {e}", o.desc()));
            if let Some(p) = pb.take() {
                std::mem::forget(p);
            }
            return ex;
        }
        // ---- observation
        let tops = spy.take();
        let flushes = tops.iter().filter(|t| matches!(t, TOp::Flush)).count();
        // the text lines of a println are not bar lines: they are written as given
        let n_text = if let Op::Println(x) = o { x.lines().count().max(1) } else { 0 };
        let out = if let Some(g) = got {
            let want = expand(if matches!(o, Op::GetMessage) { &rf.msg } else { &rf.prefix }, rf.tw);
            if g != want && ex.getter_fail.is_none() {
                ex.getter_fail = Some(format!("after op #{i} {} returned {g:?}, the history defines {want:?} (tab width {})", o.desc(), rf.tw));
            }
            if flushes != 0 && ex.shape_fail.is_none() {
                ex.shape_fail = Some(format!("op #{i} {} drew", o.desc()));
            }
            Out::Got(g)
        } else if flushes == 0 {
            if expect_draw && ex.shape_fail.is_none() {
                ex.shape_fail = Some(format!("op #{i} {} did not draw", o.desc()));
            }
            Out::Nothing
        } else {
            if (flushes != 1 || !expect_draw) && ex.shape_fail.is_none() {
                ex.shape_fail = Some(format!("op #{i} {}: {flushes} draws, expected {}", o.desc(), expect_draw as u8));
            }
            // draw_to_term writes, per line: [Line("") unless first] Str(line) [Str(filler of spaces)];
            // the line is the first Str of each Line("")-separated group
            let mut strs: Vec<String> = vec![];
            let mut fresh = true;
            for t in tops {
                match t {
                    TOp::Line(x) => {
                        if !x.is_empty() && ex.shape_fail.is_none() {
                            ex.shape_fail = Some(format!("op #{i} {}: write_line({x:?})", o.desc()));
                        }
                        fresh = true
                    }
                    TOp::Str(x) => {
                        if fresh {
                            strs.push(x);
                            fresh = false;
                        } else if !x.chars().all(|c| c == ' ') && ex.shape_fail.is_none() {
                            ex.shape_fail = Some(format!("op #{i} {}: unexpected second write {x:?} in one row group", o.desc()));
                        }
                    }
                    _ => {}
                }
            }
            if strs.len() < n_text {
                if ex.shape_fail.is_none() {
                    ex.shape_fail = Some(format!("op #{i} {}: {} lines written, {n_text} text lines expected", o.desc(), strs.len()));
                }
                strs.resize(n_text, String::new());
            }
            let bar_lines: Vec<String> = strs.split_off(n_text);
            if let Op::Println(x) = o {
                let want: Vec<String> = if x.lines().count() == 0 { vec![String::new()] } else { x.lines().map(|l| l.to_string()).collect() };
                if strs != want && ex.shape_fail.is_none() {
                    ex.shape_fail = Some(format!("op #{i} {}: text lines {strs:?}, expected {want:?}", o.desc()));
                }
            }
            // THE PROPERTY: no TAB inside a bar line
            for l in &bar_lines {
                if l.contains('\t') && ex.tab_fail.is_none() {
                    ex.tab_fail = Some(format!("after op #{i} {}: TAB written to the terminal in bar line {l:?}", o.desc()));
                }
            }
            if let Some(want) = rf.lines() {
                if bar_lines != want && ex.stale_fail.is_none() {
                    ex.stale_fail = Some(format!(
                        "after op #{i} {}: drew {bar_lines:?}, every text expanded with the current tab width {} gives {want:?}",
                        o.desc(),
                        rf.tw
                    ));
                }
                if want.iter().any(|l| l.contains(' ')) {
                    rf.lits_shown = true;
                }
            }
            if !rf.hidden && rf.tpl.as_ref().map_or(false, |t| t.iter().any(|p| matches!(p, T::Ph(h) if matches!(h.key, Key::Msg | Key::WideMsg)))) {
                rf.msg_shown = true;
            }
            Out::Draw(strs, bar_lines)
        };
        ex.outs.push(out);
    }
    if let Some(p) = pb.take() {
        std::mem::forget(p); // no finishing draw
    }
    ex
}

/// what the numeric key [name] writes (before padding) on the shadow bar right now: its template is
/// set to that one placeholder and a draw is forced that neither ticks nor feeds the estimator
fn probe_num(shadow: &ProgressBar, spy: &Spy, name: &str, width: Option<u16>) -> String {
    let t = match width {
        Some(w) => format!("{{{name}:{w}}}"),
        None => format!("{{{name}}}"),
    };
    shadow.set_style(ProgressStyle::with_template(&t).unwrap());
    spy.take();
    shadow.set_tab_width(8);
    let line = spy.take().into_iter().find_map(|t| if let TOp::Str(x) = t { Some(x) } else { None }).unwrap_or_default();
    // a sized field pads on the right (left alignment, no truncation): the text itself never ends with a space
    line.trim_end_matches(' ').to_string()
}

/// ProgressState::fraction (state.rs:286-295)
fn fraction(pos: u64, len: Option<u64>) -> f32 {
    let pct = match (pos, len) {
        (_, None) => 0.0,
        (_, Some(0)) => 1.0,
        (0, _) => 0.0,
        (pos, Some(len)) => pos as f32 / len as f32,
    };
    pct.clamp(0.0, 1.0)
}
/// the cell arithmetic of ProgressStyle::format_bar (style.rs:193-222) for [cells] cells and [n]
/// progress characters: (filled, index of the current character, background).  This is the
/// model's environment (C13 owns its correctness); C16 checks what the bar is assembled from.
fn bar_geometry(pos: u64, len: Option<u64>, cells: usize, n: usize) -> (u64, Option<u64>, u64) {
    let fill = fraction(pos, len) * cells as f32;
    let entirely_filled = fill as usize;
    let head = usize::from(fill > 0.0 && entirely_filled < cells);
    let cur = if head == 1 {
        let k = n.saturating_sub(2);
        Some(if k <= 1 { 1 } else { k.saturating_sub((fill.fract() * k as f32) as usize) } as u64)
    } else {
        None
    };
    let bg = cells.saturating_sub(entirely_filled).saturating_sub(head);
    (entirely_filled as u64, cur, bg as u64)
}

fn collect_chars(ops: &[Op], ex: &Exec, nums: &[(u32, String)], acc: &mut std::collections::BTreeSet<char>) {
    let mut add = |s: &str| acc.extend(s.chars());
    for o in ops {
        match o {
            Op::SetStyleNew { keys, gl, tpl, .. } => {
                for (_, c) in keys {
                    c.iter().for_each(|x| add(x));
                }
                gl.tick_strings.iter().flatten().for_each(|x| add(x));
                gl.progress_chars.iter().for_each(|x| add(x));
                tpl.iter().for_each(|p| if let T::Lit(x) = p { add(x) });
            }
            Op::SetStyleDerived { tpl, .. } => tpl.iter().for_each(|p| if let T::Lit(x) = p { add(x) }),
            Op::SetMessage(s) | Op::SetPrefix(s) | Op::WithMessage(s) | Op::WithPrefix(s) | Op::FinishWithMessage(s) | Op::AbandonWithMessage(s) => add(s),
            Op::WithFinish(Fin::WithMessage(s)) | Op::WithFinish(Fin::AbandonWithMessage(s)) => add(s),
            _ => {}
        }
    }
    for o in &ex.outs {
        if let Out::Draw(_, l) = o {
            l.iter().for_each(|x| add(x));
        }
    }
    nums.iter().for_each(|(_, x)| add(x));
    ex.pernum.iter().for_each(|(_, _, _, x)| add(x));
    add(DEFAULT_TICKS);
    add(DEFAULT_PCHARS);
    add("\0 ");
}

fn report(s: &mut Session, ops: &[Op], ex: &Exec, twin: Option<&Exec>, nums: &[(u32, String)], multi: bool, term_w: u16) {
    let desc = format!("{}ops=[{}]", if multi { "member of a MultiProgress; " } else { "" }, ops.iter().map(|o| o.desc()).collect::<Vec<_>>().join("; "));
    for c in &ex.counts {
        s.count(c);
    }
    if let Some(e) = &ex.panic {
        s.fail("panic", e.clone(), desc);
        return;
    }
    if let Some(d) = &ex.tab_fail {
        // Which text did the TAB come from?  Decided by the twin run: the same history with the
        // TABs of the tick strings replaced by another character.
        let from_glyphs = matches!(twin, Some(t) if t.tab_fail.is_none() && t.panic.is_none());
        if from_glyphs {
            // D29, fixed by /repo 6ff82af: a regression is a violation like any other
            s.fail("tab-in-tick-or-progress-chars", format!("{d} (no TAB is written when the tick strings are TAB-free)"), desc.clone());
        } else {
            s.fail("tab-reached-terminal", d.clone(), desc.clone());
        }
    }
    if let Some(d) = &ex.env_fail {
        s.fail("tab-in-numeric-key-text", d.clone(), desc.clone());
    }
    if let Some(d) = &ex.accept_fail {
        s.fail("tab-progress-chars-accepted", d.clone(), desc.clone());
    }
    if let Some(d) = &ex.getter_fail {
        s.fail("getter-not-expanded", d.clone(), desc.clone());
    }
    if let Some(d) = &ex.stale_fail {
        s.fail("stale-expansion", d.clone(), desc.clone());
    }
    if let Some(d) = &ex.shape_fail {
        s.fail("draw-shape", d.clone(), desc.clone());
    }
    s.count(&format!("history-length:{}", ops.len() / 10 * 10));
    let nontrivial = ops.len() >= 2;
    // the character widths console reports for everything that occurs in this case
    let mut chars = std::collections::BTreeSet::new();
    collect_chars(ops, ex, nums, &mut chars);
    let wt: Vec<String> = chars
        .iter()
        .filter(|c| **c != '\u{1b}')
        .filter_map(|c| {
            let w = console::measure_text_width(&c.to_string());
            if w != 1 {
                Some(format!("({}, {w})", *c as u32))
            } else {
                None
            }
        })
        .collect();
    let coq = format!(
        "(({term_w}, {}, {}, {}, {}, {}, {}), {})",
        clist(wt),
        clist(nums.iter().map(|(id, x)| format!("({id}, {})", cstr(x)))),
        clist(ex.pernum.iter().map(|(d, id, w, x)| format!(
            "({d}, {id}, {}, {})",
            match w {
                Some(w) => format!("Some {w}"),
                None => "None".into(),
            },
            cstr(x)
        ))),
        clist(ex.geoms.iter().map(|(d, c, (f, cur, bg))| format!(
            "({d}, {c}, ({f}, {}, {bg}))",
            match cur {
                Some(i) => format!("Some {i}"),
                None => "None".into(),
            }
        ))),
        clist(ops.iter().filter(|o| !matches!(o, Op::Clock(_))).map(|o| o.coq())),
        clist(ex.outs.iter().map(|o| o.coq())),
        clist(ex.envobs.iter().cloned())
    );
    s.case(coq, desc, nontrivial);
}

fn run_case(s: &mut Session, ops: &[Op], nums: &[(u32, String)], tab_twin: char, multi: bool, term_w: u16) {
    s.count(if multi { "target:member-of-a-MultiProgress" } else { "target:own-terminal" });
    s.count(&format!("terminal-width:{term_w}"));
    if glyph_tab(ops) {
        let twin_ops = sanitise(ops, tab_twin);
        let twin = execute(&twin_ops, multi, term_w);
        if twin.build_panic {
            s.count("history-dropped:style-builder-rejected-its-argument");
            return;
        }
        let ex = execute(ops, multi, term_w);
        if ex.build_panic {
            s.count("history-dropped:style-builder-rejected-its-argument");
            return;
        }
        report(s, &twin_ops, &twin, None, nums, multi, term_w);
        report(s, ops, &ex, Some(&twin), nums, multi, term_w);
    } else {
        let ex = execute(ops, multi, term_w);
        if ex.build_panic {
            s.count("history-dropped:style-builder-rejected-its-argument");
            return;
        }
        report(s, ops, &ex, None, nums, multi, term_w);
    }
}

/// A text whose `Into<Cow<str>>` conversion lets ANOTHER thread call set_tab_width on a clone of
/// the bar and waits a bounded time for it (as seeded/C16-5/demo.rs does).  On the code as it is
/// the conversion runs inside the call's critical section, so the other thread blocks until the
/// text is stored and its set_tab_width re-expands it; if the width were read before and the
/// text stored after the conversion (two sections), the other thread gets in between and the
/// text keeps the stale width.  Either way the outcome does not depend on timing on the
/// unchanged code: every linearisation ends with the new width everywhere.
struct RacingText {
    pb: ProgressBar,
    text: String,
    new_tw: usize,
    worker: std::sync::Arc<std::sync::Mutex<Option<std::thread::JoinHandle<()>>>>,
}
impl From<RacingText> for std::borrow::Cow<'static, str> {
    fn from(t: RacingText) -> Self {
        let (tx, rx) = std::sync::mpsc::channel();
        let pb = t.pb.clone();
        let w = t.new_tw;
        let h = std::thread::spawn(move || {
            pb.set_tab_width(w);
            let _ = tx.send(());
        });
        *t.worker.lock().unwrap() = Some(h);
        let _ = rx.recv_timeout(std::time::Duration::from_millis(250));
        std::borrow::Cow::Owned(t.text)
    }
}

/// the two-thread stories: set_message / set_prefix racing with set_tab_width (oracle only: the
/// model is sequential; C16_calls_atomic is the statement that ties its atomic steps to the source)
fn concurrency_stories(s: &mut Session) {
    for (which, text, tw0, tw1) in [("set_message", "a\tb", 8usize, 2usize), ("set_prefix", "\tp\t", 8, 0), ("set_message", "\t\t", 3, 5), ("set_prefix", "x\ty", 1, 4)] {
        let desc = format!("two threads: tab width {tw0}; {which}(text {text:?} whose Into<Cow<str>> starts a thread calling set_tab_width({tw1}) and waits <= 250 ms); join; set the other text; tick");
        s.count("story:set-text-racing-with-set_tab_width");
        let spy = Spy::new(200, u16::MAX);
        let r = catch(|| {
            let pb = ProgressBar::with_draw_target(None, ProgressDrawTarget::term_like(Box::new(spy.clone())));
            pb.set_style(ProgressStyle::with_template("{prefix}|{msg}|\t.").unwrap());
            pb.set_tab_width(tw0);
            let worker = std::sync::Arc::new(std::sync::Mutex::new(None));
            let racing = RacingText { pb: pb.clone(), text: text.to_string(), new_tw: tw1, worker: worker.clone() };
            if which == "set_message" {
                pb.set_message(racing);
            } else {
                pb.set_prefix(racing);
            }
            let h = worker.lock().unwrap().take().expect("worker started");
            h.join().expect("worker joined");
            // both calls have returned: the bar's width is tw1 in every linearisation
            let (msg, prefix) = if which == "set_message" {
                pb.set_prefix("q\tr");
                (text.to_string(), "q\tr".to_string())
            } else {
                pb.set_message("q\tr");
                ("q\tr".to_string(), text.to_string())
            };
            spy.take();
            pb.tick();
            let line = spy.take().into_iter().find_map(|t| if let TOp::Str(x) = t { Some(x) } else { None }).unwrap_or_default();
            let got = (pb.message(), pb.prefix(), line);
            std::mem::forget(pb);
            (got, msg, prefix)
        });
        match r {
            Err(e) => s.fail("panic", format!("two-thread story panicked: {e}"), desc.clone()),
            Ok(((gm, gp, line), msg, prefix)) => {
                let (wm, wp) = (expand(&msg, tw1), expand(&prefix, tw1));
                let wline = format!("{wp}|{wm}|{}.", expand("\t", tw1));
                if gm != wm || gp != wp || line != wline {
                    s.fail(
                        "stale-width-after-concurrent-set-tab-width",
                        format!("message() = {gm:?}, prefix() = {gp:?}, frame {line:?}; with the one tab width {tw1} every linearisation gives {wm:?}, {wp:?}, {wline:?}"),
                        desc.clone(),
                    );
                }
            }
        }
        s.oracle_only(desc, true);
    }
}

fn lit(x: &str) -> T {
    T::Lit(x.to_string())
}
fn style(keys: &KeyMap, tpl: &[T]) -> Op {
    Op::SetStyleNew { keys: keys.clone(), gl: Glyphs::default(), tpl: tpl.to_vec(), builder: false }
}

fn main() {
    let a = args();
    indicatif::verif_clock::set_clock_ns(1_000_000_000);
    indicatif::verif_clock::set_auto_step_ns(0);
    // styled placeholders write their escape sequences whatever stdout is
    console::set_colors_enabled(true);
    let header = "From IndModel Require Import Base Tabs TabsEnv.\nFrom IndModel Require Padded.\nOpen Scope N_scope.\n";
    let mut s = Session::new(&a, "C16", header, "((N * list (N * N) * list (N * text) * list (N * N * option N * text) * list (N * N * (N * option N * N)) * list op * list out) * list envobs)%type", "c16_check_env");
    s.shard_size = 120;
    s.rule = "histories (length 1..30, half of them with clock steps and update(set_pos/set_len) calls in between) of set_tab_width/with_tab_width, set_style/with_style (fresh style, style().template(), saved clone), set_message/with_message/set_prefix/with_prefix/finish_with_message/abandon_with_message/with_finish/finish_using_style, tick, println (texts with TABs, several lines, empty), message()/prefix() on one bar drawing to a recording TermLike of 40, 12, 79 or 5 columns; texts of 0..7 characters with TAB probability 1/3 (also tab-free and tab-only), long messages (8..60) for truncation, tab widths 0,1,2,3,4,8,16 and random up to 40, templates of 0..6 parts; 2 in 5 histories are 'rich': placeholders of every kind (msg, prefix, custom, wide_msg, wide_bar, bar, spinner, all 22 numeric / time keys (texts observed per rendering on a shadow bar in the same state)) with alignment / width / truncation / style / alt style, and styles with their own tick strings / progress characters, a third of the tick strings with TABs (each such history is also run with those TABs replaced: the twin attributes a TAB that reaches the terminal), 4 in 9 progress-character arguments with a TAB (the builder must reject them and the history goes on with the old style); every history is compared with the model; non-trivial = at least 2 ops; distinct = distinct history text".into();
    let mut g = Gen { r: Rng::new(a.seed) };
    let nums: Vec<(u32, String)> = vec![]; // no constant numeric texts: all are given per rendering
    let tab_twin = if console::measure_text_width("\t") == 0 { '\u{200b}' } else { '¤' };
    s.count(&format!("environment:measure_text_width(TAB)={}", console::measure_text_width("\t")));

    // ---------------------------------------------------------------- corpus
    let t1 = vec![lit("a\tb"), T::Msg, lit("\t|"), T::Prefix, T::key(0)];
    let k1: KeyMap = vec![(0, vec!["x\ty".into(), "\t".into()])];
    let sized = |key: Key, align: Option<char>, width: u16, trunc: bool| T::Ph(Ph { key, align, width: Some(width), trunc, style: None, alt: None });
    let corpus: Vec<Vec<Op>> = vec![
        // the three render.rs stories: width before / after style and texts
        vec![
            Op::SetStyleNew { keys: k1.clone(), gl: Glyphs::default(), tpl: t1.clone(), builder: true },
            Op::WithTabWidth(2),
            Op::SetMessage("m\tm".into()),
            Op::SetPrefix("\tp".into()),
            Op::Tick,
            Op::GetMessage,
            Op::GetPrefix,
        ],
        vec![
            Op::WithTabWidth(3),
            Op::WithMessage("m\tm".into()),
            Op::WithPrefix("\tp".into()),
            style(&k1, &t1),
            Op::Tick,
            Op::SetTabWidth(5),
            Op::GetMessage,
            Op::SetTabWidth(0),
            Op::GetPrefix,
            Op::Tick,
        ],
        // cache filled, then width changed on every path, then read again
        vec![
            style(&k1, &t1),
            Op::SetMessage("\t".into()),
            Op::GetMessage,
            Op::WithTabWidth(1),
            Op::GetMessage,
            Op::Tick,
            Op::SetTabWidth(8),
            Op::Tick,
            Op::SetTabWidth(8),
            Op::GetMessage,
        ],
        // a style clone taken at one width and put back at another
        vec![
            style(&k1, &t1),
            Op::Tick,
            Op::SaveStyle,
            Op::SetTabWidth(2),
            style(&vec![], &[T::Msg]),
            Op::Tick,
            Op::RestoreStyle,
            Op::Tick,
            Op::WithTabWidth(8),
            Op::RestoreStyle,
            Op::Tick,
        ],
        // style().template(): new literals are created at the default width, keys are kept
        vec![
            Op::WithTabWidth(3),
            style(&k1, &[T::key(0)]),
            Op::SetStyleDerived { tpl: vec![lit("\t"), T::key(0), T::key(1), T::NewLine, lit("z\t")], builder: false },
            Op::Tick,
            Op::FinishWithMessage("done\t!".into()),
            Op::GetMessage,
            Op::SetTabWidth(0),
            Op::AbandonWithMessage("\t\t".into()),
            Op::GetMessage,
        ],
        // default template first (set_tab_width draws with it), newline in the message, println
        vec![
            Op::SetTabWidth(4),
            Op::SetMessage("a\n\tb".into()),
            Op::Println("log line".into()),
            style(&vec![], &[T::Msg, T::NewLine, T::NewLine, lit("\t")]),
            Op::Println("log\tline\r\nsecond\n".into()),
            Op::Println("".into()),
            Op::Tick,
        ],
        // empty template, empty texts
        vec![style(&vec![], &[]), Op::Tick, Op::SetMessage("".into()), Op::GetMessage, Op::SetTabWidth(0)],
        // both default templates with a TAB message: "{wide_bar} {pos}/{len}" and "{spinner} {msg}"
        vec![
            Op::SetMessage("\ta".into()),
            Op::Tick,
            style(&vec![], &[T::Ph(bare(Key::Spinner)), lit(" "), T::Msg]),
            Op::Tick,
            Op::SetTabWidth(2),
            Op::FinishWithMessage("done\t.".into()),
        ],
        // the message inside sized / aligned / truncated fields and inside wide_msg, cache filled by
        // wide_msg only, width changed in between
        vec![
            style(&vec![], &[lit("["), sized(Key::Msg, Some('>'), 12, true), lit("]"), T::Ph(bare(Key::WideMsg)), lit("|")]),
            Op::SetMessage("a\tb\tc".into()),
            Op::SetTabWidth(3),
            Op::SetTabWidth(20),
            Op::SetStyleDerived { tpl: vec![sized(Key::Prefix, Some('^'), 9, false), T::Ph(bare(Key::WideMsg))], builder: false },
            Op::SetPrefix("\tp".into()),
            Op::WithTabWidth(1),
            Op::GetMessage,
            Op::Tick,
        ],
        // with_finish(WithMessage) + finish_using_style (the path an unfinished bar takes when dropped);
        // default on_finish hides the bar
        vec![
            style(&vec![], &[T::Msg, lit("\t.")]),
            Op::WithTabWidth(2),
            Op::WithFinish(Fin::WithMessage("bye\t!".into())),
            Op::Tick,
            Op::FinishUsingStyle,
            Op::GetMessage,
            Op::WithFinish(Fin::AndClear),
            Op::FinishUsingStyle,
            Op::Tick,
            Op::Println("x".into()),
            Op::AbandonWithMessage("\tback".into()),
        ],
        // the wide element stays in force for the following template lines (`wide` is never reset,
        // style.rs:242-262): a NUL that a text brings into a later line is replaced as well
        vec![
            style(&vec![], &[T::Ph(bare(Key::WideBar)), T::NewLine, lit("x"), T::Msg, T::NewLine, T::Prefix]),
            Op::SetMessage("a\0\tb".into()),
            Op::SetStyleDerived { tpl: vec![T::Ph(bare(Key::WideMsg)), lit("|"), T::NewLine, T::Prefix, lit("\t")], builder: false },
            Op::SetPrefix("p\0\0".into()),
            Op::SetTabWidth(2),
        ],
        // the former D29 witness (C16_no_tab_pre_6ff82af_regression): a TAB inside a tick string is
        // expanded at render time - with the width of the moment, also after a change, also when
        // finished (last tick string), also through a saved clone and a derived template
        vec![
            Op::SetStyleNew {
                keys: vec![],
                gl: Glyphs { tick_strings: Some(vec!["\t".into(), "x\ty".into(), "\t!".into()]), progress_chars: None },
                tpl: vec![T::Ph(bare(Key::Spinner))],
                builder: false,
            },
            Op::Tick,
            Op::SetTabWidth(2),
            Op::SaveStyle,
            Op::Tick,
            Op::SetStyleDerived { tpl: vec![lit("\t"), T::Ph(bare(Key::Spinner)), T::Msg], builder: false },
            Op::WithTabWidth(5),
            Op::SetMessage("\tm".into()),
            Op::RestoreStyle,
            Op::SetTabWidth(0),
            Op::SetTabWidth(3),
            Op::FinishWithMessage("\t".into()),
        ],
        // ... and inside the progress characters: the builder rejects it (style.rs:157-158), the bar
        // keeps its style and goes on
        vec![
            Op::SetStyleNew {
                keys: vec![],
                gl: Glyphs { tick_strings: None, progress_chars: Some("#\t".into()) },
                tpl: vec![T::Ph(Ph { key: Key::Bar, align: None, width: Some(5), trunc: false, style: None, alt: None }), T::Msg],
                builder: false,
            },
            Op::SetMessage("\tm".into()),
            style(&vec![], &[T::Msg]),
            Op::Tick,
        ],
        // every numeric / time key, on a bar whose position, length and clock move
        vec![
            style(
                &vec![],
                &(0..NUM_KEYS.len())
                    .flat_map(|i| {
                        let mut v = vec![T::Ph(bare(Key::Num(i))), lit(if i % 4 == 3 { "\t|" } else { " " })];
                        if i % 6 == 5 {
                            v.push(T::NewLine)
                        }
                        v
                    })
                    .collect::<Vec<_>>(),
            ),
            Op::Tick,
            Op::Clock(90_000_000_000),
            Op::Update { pos: Some(512), len: Some(2048) },
            Op::Clock(1_000_000_000),
            Op::Update { pos: Some(1_500_000), len: None },
            Op::SetTabWidth(2),
            Op::Clock(7_200_000_000_000),
            Op::Update { pos: Some(123_456_789_012), len: Some(u64::MAX) },
            Op::FinishWithMessage("\t".into()),
            Op::Clock(1_000_000),
            Op::Tick,
        ],
        // bars with filled, current and background cells; several current characters
        vec![
            Op::SetStyleNew {
                keys: vec![],
                gl: Glyphs { tick_strings: None, progress_chars: Some("█▓▒░".into()) },
                tpl: vec![T::Ph(Ph { key: Key::Bar, align: None, width: Some(10), trunc: false, style: None, alt: Some("blue") }), lit("\t"), T::Ph(bare(Key::WideBar)), T::Msg],
                builder: false,
            },
            Op::Update { pos: Some(0), len: Some(100) },
            Op::Update { pos: Some(33), len: None },
            Op::SetMessage("\tm".into()),
            Op::Update { pos: Some(58), len: None },
            Op::SetStyleDerived { tpl: vec![T::Ph(bare(Key::Bar)), T::NewLine, T::Ph(bare(Key::WideBar))], builder: false },
            Op::Update { pos: Some(99), len: None },
            Op::Update { pos: Some(100), len: None },
            Op::Update { pos: Some(250), len: None },
            Op::AbandonWithMessage("x".into()),
        ],
    ];
    for ops in &corpus {
        run_case(&mut s, ops, &nums, tab_twin, false, 40);
    }
    for ops in &corpus {
        run_case(&mut s, ops, &nums, tab_twin, true, 40);
    }
    // ---------------------------------------------------------------- two threads
    concurrency_stories(&mut s);
    // ---------------------------------------------------------------- random
    let n = if a.thorough { 20_000 } else if a.extended { 16_000 } else { 2_000 };
    for _ in 0..n {
        let rich = g.r.chance(2, 5);
        if rich {
            s.count("history:rich");
        }
        let len = if g.r.chance(1, 10) { g.r.range(1, 3) } else { g.r.range(4, 30) } as usize;
        let mut ops: Vec<Op> = vec![];
        // two thirds of the histories install a style early so that most draws do not use the default template
        if g.r.chance(2, 3) {
            let at = g.r.below(3) as usize;
            for _ in 0..at {
                ops.push(g.op(rich));
            }
            ops.push(Op::SetStyleNew { keys: g.keys(), gl: g.glyphs(rich), tpl: g.template(rich), builder: g.r.chance(1, 2) });
        }
        while ops.len() < len {
            ops.push(g.op(rich));
        }
        // half of the histories live: the clock runs, position and length change between the calls
        if g.r.chance(1, 2) {
            s.count("history:position-length-clock-change");
            let mut live: Vec<Op> = vec![];
            for o in ops {
                if g.r.chance(1, 3) {
                    live.push(g.env_op());
                }
                live.push(o);
            }
            ops = live;
        }
        let multi = g.r.chance(1, 6);
        let term_w = *g.r.pick(&TERM_WIDTHS);
        run_case(&mut s, &ops, &nums, tab_twin, multi, term_w);
    }
    s.finish();
}
