//! C16 – tabs are expanded before reaching the terminal: correspondence with model/Tabs.v + oracle.
//!
//! A case is a history of public-API calls on one ProgressBar drawing to a recording TermLike
//! (no rate limiter).  After every call the harness records what reached the terminal (the bar
//! lines of the draw, if the call draws) or what the getter returned.
use indicatif::{ProgressBar, ProgressDrawTarget, ProgressState, ProgressStyle};
use verif_harness::spy::{Spy, TOp};
use verif_harness::*;

const KEYS: [&str; 4] = ["k0", "k1", "k2", "k3"];

#[derive(Clone, Debug, PartialEq)]
enum T {
    Lit(String),
    Msg,
    Prefix,
    Key(u8),
    NewLine,
    /// verbatim placeholder text outside the model (oracle-only histories)
    Raw(&'static str),
}

type KeyMap = Vec<(u8, Vec<String>)>;

#[derive(Clone, Debug)]
enum Op {
    SetTabWidth(usize),
    WithTabWidth(usize),
    SetStyleNew { keys: KeyMap, tpl: Vec<T>, builder: bool },
    SetStyleDerived { tpl: Vec<T>, builder: bool },
    SaveStyle,
    RestoreStyle,
    SetMessage(String),
    SetPrefix(String),
    WithMessage(String),
    WithPrefix(String),
    FinishWithMessage(String),
    AbandonWithMessage(String),
    Tick,
    Println(String),
    GetMessage,
    GetPrefix,
}

fn tpl_text(t: &[T]) -> String {
    let mut s = String::new();
    for p in t {
        match p {
            T::Lit(x) => s.push_str(x),
            T::Msg => s.push_str("{msg}"),
            T::Prefix => s.push_str("{prefix}"),
            T::Key(k) => {
                s.push('{');
                s.push_str(KEYS[*k as usize]);
                s.push('}')
            }
            T::NewLine => s.push('\n'),
            T::Raw(x) => s.push_str(x),
        }
    }
    s
}
fn tpl_coq(t: &[T]) -> String {
    clist(t.iter().map(|p| match p {
        T::Lit(x) => format!("TLit {}", cstr(x)),
        T::Msg => "TMsg".into(),
        T::Prefix => "TPrefix".into(),
        T::Key(k) => format!("TKey {k}"),
        T::NewLine => "TNewLine".into(),
        T::Raw(_) => unreachable!(),
    }))
}
fn keys_coq(k: &KeyMap) -> String {
    clist(k.iter().map(|(id, chunks)| format!("({id}, {})", clist(chunks.iter().map(|c| cstr(c))))))
}

impl Op {
    fn name(&self) -> &'static str {
        match self {
            Op::SetTabWidth(_) => "set_tab_width",
            Op::WithTabWidth(_) => "with_tab_width",
            Op::SetStyleNew { builder: false, .. } => "set_style(new)",
            Op::SetStyleNew { builder: true, .. } => "with_style(new)",
            Op::SetStyleDerived { builder: false, .. } => "set_style(style().template())",
            Op::SetStyleDerived { builder: true, .. } => "with_style(style().template())",
            Op::SaveStyle => "style()",
            Op::RestoreStyle => "set_style(saved)",
            Op::SetMessage(_) => "set_message",
            Op::SetPrefix(_) => "set_prefix",
            Op::WithMessage(_) => "with_message",
            Op::WithPrefix(_) => "with_prefix",
            Op::FinishWithMessage(_) => "finish_with_message",
            Op::AbandonWithMessage(_) => "abandon_with_message",
            Op::Tick => "tick",
            Op::Println(_) => "println",
            Op::GetMessage => "message()",
            Op::GetPrefix => "prefix()",
        }
    }
    fn coq(&self) -> String {
        match self {
            Op::SetTabWidth(n) => format!("SetTabWidth {n}"),
            Op::WithTabWidth(n) => format!("WithTabWidth {n}"),
            Op::SetStyleNew { keys, tpl, .. } => format!("SetStyleNew {} {}", keys_coq(keys), tpl_coq(tpl)),
            Op::SetStyleDerived { tpl, .. } => format!("SetStyleDerived {}", tpl_coq(tpl)),
            Op::SaveStyle => "SaveStyle".into(),
            Op::RestoreStyle => "RestoreStyle".into(),
            Op::SetMessage(s) => format!("SetMessage {}", cstr(s)),
            Op::SetPrefix(s) => format!("SetPrefix {}", cstr(s)),
            Op::WithMessage(s) => format!("WithMessage {}", cstr(s)),
            Op::WithPrefix(s) => format!("WithPrefix {}", cstr(s)),
            Op::FinishWithMessage(s) => format!("FinishWithMessage {}", cstr(s)),
            Op::AbandonWithMessage(s) => format!("AbandonWithMessage {}", cstr(s)),
            Op::Tick => "Tick".into(),
            Op::Println(s) => format!("Println {}", cstr(s)),
            Op::GetMessage => "GetMessage".into(),
            Op::GetPrefix => "GetPrefix".into(),
        }
    }
    fn desc(&self) -> String {
        match self {
            Op::SetStyleNew { keys, tpl, .. } => format!("{}[{:?} keys={:?}]", self.name(), tpl_text(tpl), keys),
            Op::SetStyleDerived { tpl, .. } => format!("{}[{:?}]", self.name(), tpl_text(tpl)),
            Op::SetTabWidth(n) | Op::WithTabWidth(n) => format!("{}({n})", self.name()),
            Op::SetMessage(s) | Op::SetPrefix(s) | Op::WithMessage(s) | Op::WithPrefix(s) | Op::FinishWithMessage(s) | Op::AbandonWithMessage(s) | Op::Println(s) => {
                format!("{}({s:?})", self.name())
            }
            _ => self.name().to_string(),
        }
    }
}

#[derive(Clone, Debug, PartialEq)]
enum Out {
    Draw(Vec<String>),
    Got(String),
    Nothing,
}
impl Out {
    fn coq(&self) -> String {
        match self {
            Out::Draw(l) => format!("ODraw (Some {})", clist(l.iter().map(|x| cstr(x)))),
            Out::Got(s) => format!("OGot {}", cstr(s)),
            Out::Nothing => "ONone".into(),
        }
    }
}

fn make_style(base: ProgressStyle, keys: &KeyMap) -> ProgressStyle {
    let mut st = base;
    for (id, chunks) in keys {
        let chunks = chunks.clone();
        st = st.with_key(KEYS[*id as usize], move |_: &ProgressState, w: &mut dyn std::fmt::Write| {
            for c in &chunks {
                let _ = w.write_str(c);
            }
        });
    }
    st
}

/// What the history defines, kept by the harness independently of the crate: the last value
/// given to each setting.
struct Reference {
    tw: usize,
    msg: String,
    prefix: String,
    keys: KeyMap,
    tpl: Option<Vec<T>>, // None: the built-in default template
    saved: Option<(KeyMap, Option<Vec<T>>)>,
    // bookkeeping for the input distribution only
    msg_shown: bool,
    lits_shown: bool,
    saved_tw: usize,
}

fn expand(s: &str, tw: usize) -> String {
    let mut o = String::new();
    for c in s.chars() {
        if c == '\t' {
            for _ in 0..tw {
                o.push(' ')
            }
        } else {
            o.push(c)
        }
    }
    o
}

impl Reference {
    /// the bar lines a draw must produce: every text expanded from its original with the
    /// current tab width.  None: template outside the modelled keys.
    fn lines(&self) -> Option<Vec<String>> {
        let tpl = self.tpl.as_ref()?;
        let mut whole = String::new();
        let mut lines = vec![];
        let flush = |w: &mut String, lines: &mut Vec<String>| {
            for l in w.split('\n') {
                lines.push(l.to_string());
            }
            w.clear();
        };
        for p in tpl {
            match p {
                T::Lit(x) => whole.push_str(&expand(x, self.tw)),
                T::Msg => whole.push_str(&expand(&self.msg, self.tw)),
                T::Prefix => whole.push_str(&expand(&self.prefix, self.tw)),
                T::Key(k) => {
                    if let Some((_, chunks)) = self.keys.iter().find(|(id, _)| id == k) {
                        for c in chunks {
                            whole.push_str(&expand(c, self.tw));
                        }
                    }
                }
                T::NewLine => flush(&mut whole, &mut lines),
                T::Raw(_) => return None,
            }
        }
        if !whole.is_empty() {
            flush(&mut whole, &mut lines);
        }
        Some(lines)
    }
}

struct Gen {
    r: Rng,
}
impl Gen {
    fn text(&mut self, allow_nl: bool) -> String {
        const A: [char; 8] = ['a', 'b', 'Z', ' ', 'é', '日', '-', ':'];
        let n = match self.r.below(10) {
            0 => 0,
            1 => 1,
            _ => self.r.range(2, 7),
        };
        let style = self.r.below(10); // 0-1: no tabs at all, 2: only tabs, else mixed
        let mut s = String::new();
        for _ in 0..n {
            let tab = match style {
                0 | 1 => false,
                2 => true,
                _ => self.r.chance(1, 3),
            };
            if tab {
                s.push('\t')
            } else if allow_nl && self.r.chance(1, 25) {
                s.push('\n')
            } else {
                s.push(*self.r.pick(&A))
            }
        }
        s
    }
    fn tw(&mut self) -> usize {
        match self.r.below(12) {
            0 | 1 => 0,
            2 => 1,
            3 => 2,
            4 => 3,
            5 => 4,
            6 | 7 => 8,
            8 => 16,
            _ => self.r.range(0, 40) as usize,
        }
    }
    fn template(&mut self, rich: bool) -> Vec<T> {
        const RAW: [&str; 10] = [
            "{msg:10!}", "{wide_msg}", "{prefix:>8.red}", "{spinner}", "{bar:10}", "{pos}/{len}", "{msg:^7}", "{prefix:3!}", "{k0:>12}", "{wide_bar}",
        ];
        let n = self.r.range(0, 6);
        let mut t: Vec<T> = vec![];
        let mut wide_used = false;
        for _ in 0..n {
            let p = match self.r.below(if rich { 12 } else { 9 }) {
                0..=2 => {
                    let x = self.text(false);
                    if x.is_empty() {
                        continue;
                    }
                    T::Lit(x)
                }
                3 | 4 => T::Msg,
                5 => T::Prefix,
                6 | 7 => T::Key(self.r.below(4) as u8),
                8 => T::NewLine,
                _ => {
                    let raw = *self.r.pick(&RAW);
                    if raw.contains("wide") {
                        if wide_used {
                            continue;
                        }
                        wide_used = true;
                    }
                    T::Raw(raw)
                }
            };
            // adjacent literals are one literal for the parser
            if let (Some(T::Lit(prev)), T::Lit(x)) = (t.last_mut(), &p) {
                prev.push_str(x);
                continue;
            }
            t.push(p);
        }
        t
    }
    fn keys(&mut self) -> KeyMap {
        let mut k = vec![];
        for id in 0..4u8 {
            if self.r.chance(1, 2) {
                let n = self.r.range(0, 3);
                k.push((id, (0..n).map(|_| self.text(true)).collect()));
            }
        }
        k
    }
    fn op(&mut self, rich: bool) -> Op {
        match self.r.below(30) {
            0..=3 => Op::SetTabWidth(self.tw()),
            4..=5 => Op::WithTabWidth(self.tw()),
            6..=8 => Op::SetStyleNew { keys: self.keys(), tpl: self.template(rich), builder: self.r.chance(1, 2) },
            9..=10 => Op::SetStyleDerived { tpl: self.template(rich), builder: self.r.chance(1, 2) },
            11 => Op::SaveStyle,
            12..=13 => Op::RestoreStyle,
            14..=16 => Op::SetMessage(self.text(true)),
            17..=18 => Op::SetPrefix(self.text(true)),
            19 => Op::WithMessage(self.text(true)),
            20 => Op::WithPrefix(self.text(true)),
            21 => Op::FinishWithMessage(self.text(true)),
            22 => Op::AbandonWithMessage(self.text(true)),
            23..=25 => Op::Tick,
            26 => Op::Println("log line".into()),
            27..=28 => Op::GetMessage,
            _ => Op::GetPrefix,
        }
    }
}

fn has_raw(ops: &[Op]) -> bool {
    ops.iter().any(|o| match o {
        Op::SetStyleNew { tpl, .. } | Op::SetStyleDerived { tpl, .. } => tpl.iter().any(|p| matches!(p, T::Raw(_))),
        _ => false,
    })
}

fn run_case(s: &mut Session, ops: &[Op]) {
    let desc = format!("ops=[{}]", ops.iter().map(|o| o.desc()).collect::<Vec<_>>().join("; "));
    let spy = Spy::new(40, u16::MAX);
    let mut pb = match catch(|| ProgressBar::with_draw_target(None, ProgressDrawTarget::term_like(Box::new(spy.clone())))) {
        Ok(pb) => Some(pb),
        Err(e) => {
            s.fail("panic", format!("constructor panicked: {e}"), desc);
            return;
        }
    };
    let mut saved_style: Option<ProgressStyle> = None;
    let mut rf = Reference {
        tw: 8,
        msg: String::new(),
        prefix: String::new(),
        keys: vec![],
        tpl: None,
        saved: None,
        msg_shown: false,
        lits_shown: false,
        saved_tw: 8,
    };
    let modelled = !has_raw(ops);
    let mut outs: Vec<Out> = vec![];
    let mut tab_fail: Option<String> = None;
    let mut getter_fail: Option<String> = None;
    let mut stale_fail: Option<String> = None;
    let mut shape_fail: Option<String> = None;
    spy.take();
    for (i, o) in ops.iter().enumerate() {
        // ---- reference bookkeeping (history-defined values) + distribution
        s.count(&format!("op:{}", o.name()));
        let mut expect_draw = false;
        match o {
            Op::SetTabWidth(n) | Op::WithTabWidth(n) => {
                s.count(&format!("tab_width:{}", if *n <= 4 { n.to_string() } else if *n == 8 { "8".into() } else { "other".into() }));
                if *n != rf.tw && rf.msg_shown && rf.msg.contains('\t') {
                    s.count("event:width-changed-while-message-cache-filled");
                }
                if *n != rf.tw && rf.lits_shown {
                    s.count("event:width-changed-while-literal-cache-filled");
                }
                rf.tw = *n;
                expect_draw = matches!(o, Op::SetTabWidth(_));
            }
            Op::SetStyleNew { keys, tpl, .. } => {
                rf.keys = keys.clone();
                rf.tpl = Some(tpl.clone());
                rf.lits_shown = false;
                if rf.tw != 8 {
                    s.count("event:new-style-set-while-width-not-default");
                }
            }
            Op::SetStyleDerived { tpl, .. } => {
                rf.tpl = Some(tpl.clone());
                rf.lits_shown = false;
                if rf.tw != 8 {
                    s.count("event:new-style-set-while-width-not-default");
                }
            }
            Op::SaveStyle => {
                rf.saved = Some((rf.keys.clone(), rf.tpl.clone()));
                rf.saved_tw = rf.tw;
            }
            Op::RestoreStyle => {
                if let Some((k, t)) = rf.saved.clone() {
                    rf.keys = k;
                    rf.tpl = t;
                    if rf.saved_tw != rf.tw {
                        s.count("event:saved-style-restored-after-width-change");
                    }
                }
            }
            Op::SetMessage(x) | Op::FinishWithMessage(x) | Op::AbandonWithMessage(x) => {
                rf.msg = x.clone();
                rf.msg_shown = false;
                expect_draw = true;
            }
            Op::WithMessage(x) => {
                rf.msg = x.clone();
                rf.msg_shown = false;
            }
            Op::SetPrefix(x) => {
                rf.prefix = x.clone();
                expect_draw = true;
            }
            Op::WithPrefix(x) => rf.prefix = x.clone(),
            Op::Tick | Op::Println(_) => expect_draw = true,
            Op::GetMessage => rf.msg_shown = true,
            Op::GetPrefix => {}
        }
        // ---- the implementation
        let mut got: Option<String> = None;
        // Calls taking &self run on a reference (a panic must not drop the bar while unwinding:
        // the drop would draw again); the consuming builders take the bar out and put it back.
        let res = catch(|| match o {
            Op::WithTabWidth(n) => {
                let p = pb.take().unwrap();
                pb = Some(p.with_tab_width(*n));
            }
            Op::SetStyleNew { keys, tpl, builder } => {
                let st = make_style(ProgressStyle::with_template(&tpl_text(tpl)).expect("template"), keys);
                if *builder {
                    let p = pb.take().unwrap();
                    pb = Some(p.with_style(st));
                } else {
                    pb.as_ref().unwrap().set_style(st);
                }
            }
            Op::SetStyleDerived { tpl, builder } => {
                let st = pb.as_ref().unwrap().style().template(&tpl_text(tpl)).expect("template");
                if *builder {
                    let p = pb.take().unwrap();
                    pb = Some(p.with_style(st));
                } else {
                    pb.as_ref().unwrap().set_style(st);
                }
            }
            Op::WithMessage(x) => {
                let p = pb.take().unwrap();
                pb = Some(p.with_message(x.clone()));
            }
            Op::WithPrefix(x) => {
                let p = pb.take().unwrap();
                pb = Some(p.with_prefix(x.clone()));
            }
            _ => {
                let p = pb.as_ref().unwrap();
                match o {
                    Op::SetTabWidth(n) => p.set_tab_width(*n),
                    Op::SaveStyle => saved_style = Some(p.style()),
                    Op::RestoreStyle => {
                        if let Some(st) = &saved_style {
                            p.set_style(st.clone());
                        }
                    }
                    Op::SetMessage(x) => p.set_message(x.clone()),
                    Op::SetPrefix(x) => p.set_prefix(x.clone()),
                    Op::FinishWithMessage(x) => p.finish_with_message(x.clone()),
                    Op::AbandonWithMessage(x) => p.abandon_with_message(x.clone()),
                    Op::Tick => p.tick(),
                    Op::Println(x) => p.println(x),
                    Op::GetMessage => got = Some(p.message()),
                    Op::GetPrefix => got = Some(p.prefix()),
                    _ => unreachable!(),
                }
            }
        });
        if let Err(e) = res {
            s.fail("panic", format!("op #{i} {} panicked: {e}", o.desc()), desc.clone());
            if let Some(p) = pb.take() {
                std::mem::forget(p);
            }
            return;
        }
        // ---- observation
        let tops = spy.take();
        let flushes = tops.iter().filter(|t| matches!(t, TOp::Flush)).count();
        for t in &tops {
            if let TOp::Str(x) | TOp::Line(x) = t {
                if x.contains('\t') && tab_fail.is_none() {
                    tab_fail = Some(format!("after op #{i} {}: TAB written to the terminal in {x:?}", o.desc()));
                }
            }
        }
        let out = if let Some(g) = got {
            let want = expand(if matches!(o, Op::GetMessage) { &rf.msg } else { &rf.prefix }, rf.tw);
            if g != want && getter_fail.is_none() {
                getter_fail = Some(format!("after op #{i} {} returned {g:?}, the history defines {want:?} (tab width {})", o.desc(), rf.tw));
            }
            if flushes != 0 && shape_fail.is_none() {
                shape_fail = Some(format!("op #{i} {} drew", o.desc()));
            }
            Out::Got(g)
        } else if flushes == 0 {
            if expect_draw && shape_fail.is_none() {
                shape_fail = Some(format!("op #{i} {} did not draw", o.desc()));
            }
            Out::Nothing
        } else {
            if (flushes != 1 || !expect_draw) && shape_fail.is_none() {
                shape_fail = Some(format!("op #{i} {}: {flushes} draws, expected {}", o.desc(), expect_draw as u8));
            }
            // draw_to_term writes, per line: [Line("") unless first] Str(line) [Str(filler of spaces)];
            // the line is the first Str of each Line("")-separated group
            let mut strs: Vec<String> = vec![];
            let mut fresh = true;
            for t in tops {
                match t {
                    TOp::Line(_) => fresh = true,
                    TOp::Str(x) => {
                        if fresh {
                            strs.push(x);
                            fresh = false;
                        } else if !x.chars().all(|c| c == ' ') && shape_fail.is_none() {
                            shape_fail = Some(format!("op #{i} {}: unexpected second write {x:?} in one row group", o.desc()));
                        }
                    }
                    _ => {}
                }
            }
            let bar_lines: &[String] = if matches!(o, Op::Println(_)) && !strs.is_empty() { &strs[1..] } else { &strs[..] };
            if let Some(want) = rf.lines() {
                if bar_lines != &want[..] && stale_fail.is_none() {
                    stale_fail = Some(format!(
                        "after op #{i} {}: drew {bar_lines:?}, every text expanded with the current tab width {} gives {want:?}",
                        o.desc(),
                        rf.tw
                    ));
                }
                if want.iter().any(|l| l.contains(' ')) {
                    rf.lits_shown = true;
                }
                if rf.tpl.as_ref().map_or(false, |t| t.contains(&T::Msg)) {
                    rf.msg_shown = true;
                }
            }
            Out::Draw(strs)
        };
        outs.push(out);
    }
    if let Some(p) = pb.take() {
        std::mem::forget(p); // no finishing draw
    }
    if let Some(d) = tab_fail {
        s.fail("tab-reached-terminal", d, desc.clone());
    }
    if let Some(d) = getter_fail {
        s.fail("getter-not-expanded", d, desc.clone());
    }
    if let Some(d) = stale_fail {
        s.fail("stale-expansion", d, desc.clone());
    }
    if let Some(d) = shape_fail {
        s.fail("draw-shape", d, desc.clone());
    }
    s.count(&format!("history-length:{}", ops.len() / 10 * 10));
    let nontrivial = ops.len() >= 2;
    if modelled {
        let coq = format!("({}, {})", clist(ops.iter().map(|o| o.coq())), clist(outs.iter().map(|o| o.coq())));
        s.case(coq, desc, nontrivial);
    } else {
        s.count("history:oracle-only(rich template)");
        s.oracle_only(desc, nontrivial);
    }
}

fn lit(x: &str) -> T {
    T::Lit(x.to_string())
}

fn main() {
    let a = args();
    let header = "From IndModel Require Import Base Tabs.\nOpen Scope N_scope.\n";
    let mut s = Session::new(&a, "C16", header, "(list op * list out)%type", "c16_check");
    s.shard_size = 150;
    s.rule = "histories (length 1..30) of set_tab_width/with_tab_width, set_style/with_style (fresh style, style().template(), saved clone), set_message/with_message/set_prefix/with_prefix/finish_with_message/abandon_with_message, tick, println, message()/prefix() on one bar drawing to a recording TermLike; texts of 0..7 characters with TAB probability 1/3 (also tab-free and tab-only), tab widths 0,1,2,3,4,8,16 and random up to 40, templates of 0..6 parts (literal, {msg}, {prefix}, custom keys writing 0..3 chunks, newline); 1 in 8 histories use placeholders outside the model (widths, wide_msg, bar, ...) and are judged by the oracle only; non-trivial = at least 2 ops; distinct = distinct history text".into();
    let mut g = Gen { r: Rng::new(a.seed) };

    // ---------------------------------------------------------------- corpus
    let t1 = vec![lit("a\tb"), T::Msg, lit("\t|"), T::Prefix, T::Key(0)];
    let k1: KeyMap = vec![(0, vec!["x\ty".into(), "\t".into()])];
    let corpus: Vec<Vec<Op>> = vec![
        // the three render.rs stories: width before / after style and texts
        vec![
            Op::SetStyleNew { keys: k1.clone(), tpl: t1.clone(), builder: true },
            Op::WithTabWidth(2),
            Op::SetMessage("m\tm".into()),
            Op::SetPrefix("\tp".into()),
            Op::Tick,
            Op::GetMessage,
            Op::GetPrefix,
        ],
        vec![
            Op::WithTabWidth(3),
            Op::WithMessage("m\tm".into()),
            Op::WithPrefix("\tp".into()),
            Op::SetStyleNew { keys: k1.clone(), tpl: t1.clone(), builder: false },
            Op::Tick,
            Op::SetTabWidth(5),
            Op::GetMessage,
            Op::SetTabWidth(0),
            Op::GetPrefix,
            Op::Tick,
        ],
        // cache filled, then width changed on every path, then read again
        vec![
            Op::SetStyleNew { keys: k1.clone(), tpl: t1.clone(), builder: false },
            Op::SetMessage("\t".into()),
            Op::GetMessage,
            Op::WithTabWidth(1),
            Op::GetMessage,
            Op::Tick,
            Op::SetTabWidth(8),
            Op::Tick,
            Op::SetTabWidth(8),
            Op::GetMessage,
        ],
        // a style clone taken at one width and put back at another
        vec![
            Op::SetStyleNew { keys: k1.clone(), tpl: t1.clone(), builder: false },
            Op::Tick,
            Op::SaveStyle,
            Op::SetTabWidth(2),
            Op::SetStyleNew { keys: vec![], tpl: vec![T::Msg], builder: false },
            Op::Tick,
            Op::RestoreStyle,
            Op::Tick,
            Op::WithTabWidth(8),
            Op::RestoreStyle,
            Op::Tick,
        ],
        // style().template(): new literals are created at the default width, keys are kept
        vec![
            Op::WithTabWidth(3),
            Op::SetStyleNew { keys: k1.clone(), tpl: vec![T::Key(0)], builder: false },
            Op::SetStyleDerived { tpl: vec![lit("\t"), T::Key(0), T::Key(1), T::NewLine, lit("z\t")], builder: false },
            Op::Tick,
            Op::FinishWithMessage("done\t!".into()),
            Op::GetMessage,
            Op::SetTabWidth(0),
            Op::AbandonWithMessage("\t\t".into()),
            Op::GetMessage,
        ],
        // default template first (set_tab_width draws with it), newline in the message, println
        vec![
            Op::SetTabWidth(4),
            Op::SetMessage("a\n\tb".into()),
            Op::Println("log line".into()),
            Op::SetStyleNew { keys: vec![], tpl: vec![T::Msg, T::NewLine, T::NewLine, lit("\t")], builder: false },
            Op::Println("log line".into()),
            Op::Tick,
        ],
        // empty template, empty texts
        vec![Op::SetStyleNew { keys: vec![], tpl: vec![], builder: false }, Op::Tick, Op::SetMessage("".into()), Op::GetMessage, Op::SetTabWidth(0)],
    ];
    for ops in &corpus {
        run_case(&mut s, ops);
    }
    // ---------------------------------------------------------------- random
    let n = if a.thorough { 24_000 } else if a.extended { 20_000 } else { 2_800 };
    for _ in 0..n {
        let rich = g.r.chance(1, 8);
        let len = if g.r.chance(1, 10) { g.r.range(1, 3) } else { g.r.range(4, 30) } as usize;
        let mut ops: Vec<Op> = vec![];
        // two thirds of the histories install a modelled style early so that most draws are compared
        if g.r.chance(2, 3) {
            let at = g.r.below(3) as usize;
            for _ in 0..at {
                ops.push(g.op(rich));
            }
            ops.push(Op::SetStyleNew { keys: g.keys(), tpl: g.template(rich), builder: g.r.chance(1, 2) });
        }
        while ops.len() < len {
            ops.push(g.op(rich));
        }
        run_case(&mut s, &ops);
    }
    s.finish();
}
