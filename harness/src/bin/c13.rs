//! C13 – progress-bar geometry (and the fraction clause of C07): correspondence with
//! model/BarGeom.v + direct oracle.
//!
//! Observation: public API only.  A `ProgressBar` drawing to a recording `Spy` terminal with a
//! template `[{bar:N}]` / `[{bar}]` / `PRE{wide_bar}SUF`, custom `progress_chars`, length set by
//! the constructor or `set_length`, position by `set_position`, then `force_draw()`; the line is the
//! first string written after the carriage return.  `ProgressState::fraction()` is read through
//! `ProgressBar::update`.
use indicatif::{MultiProgress, ProgressBar, ProgressDrawTarget, ProgressStyle};
use unicode_width::UnicodeWidthStr;
use verif_harness::spy::{Spy, TOp};
use verif_harness::*;

const W1: [&str; 24] = [
    "#", ">", "-", "=", ".", ":", "*", "+", "o", "x", "█", "▉", "▊", "▋", "▌", "▍", "▎", "▏", "░", "▒", "▓",
    "e\u{301}", "é", "→",
];
const W2: [&str; 14] = ["進", "捗", "完", "了", "未", "済", "始", "終", "中", "一", "二", "三", "🟩", "⬜"];
const LIT: [&str; 12] = ["a", "b", "|", " ", "<", ">", "0", "9", "%", "é", "進", "·"];

#[derive(Clone, Debug)]
enum Tpl {
    /// `[{bar}]` (None) / `[{bar:N}]` with alignment 0 = left (default), 1 = center, 2 = right
    Bar(Option<u16>, u8),
    /// `PRE{wide_bar}SUF` on a terminal `tw` columns wide
    Wide(String, String, u16),
}

#[derive(Clone, Debug)]
struct Case {
    chars: Vec<String>,
    tpl: Tpl,
    pos: u64,
    len: Option<u64>,
    /// length given to the constructor (true) or by set_length/unset_length afterwards (false)
    len_by_ctor: bool,
    /// resize stream: what happened on this bar before this draw ("" otherwise)
    hist: String,
}

struct Obs {
    frac: f32,
    /// for Tpl::Bar: the text between the brackets; for Tpl::Wide: the whole line
    text: String,
}

fn esc(s: &str) -> String {
    s.replace('{', "{{").replace('}', "}}")
}

impl Case {
    fn c(&self) -> usize {
        UnicodeWidthStr::width(self.chars[0].as_str())
    }
    fn template(&self) -> String {
        match &self.tpl {
            Tpl::Bar(None, _) => "[{bar}]".to_string(),
            Tpl::Bar(Some(n), 0) => format!("[{{bar:{n}}}]"),
            Tpl::Bar(Some(n), 1) => format!("[{{bar:^{n}}}]"),
            Tpl::Bar(Some(n), _) => format!("[{{bar:>{n}}}]"),
            Tpl::Wide(p, s, _) => format!("{}{{wide_bar}}{}", esc(p), esc(s)),
        }
    }
    fn desc(&self) -> String {
        format!(
            "{}chars={:?} c={} template={:?} term_width={} pos={} len={:?} len_by_ctor={}",
            self.hist,
            self.chars.concat(),
            self.c(),
            self.template(),
            self.tw(),
            self.pos,
            self.len,
            self.len_by_ctor
        )
    }
    fn tw(&self) -> u16 {
        match &self.tpl {
            Tpl::Bar(..) => u16::MAX,
            Tpl::Wide(_, _, tw) => *tw,
        }
    }
}

/// A bar + spy that can be reused for a sweep over positions.
struct Rig {
    pb: ProgressBar,
    spy: Spy,
    is_bar: bool,
    /// resize stream: the bar is the only member of this MultiProgress, which owns the terminal
    _mp: Option<MultiProgress>,
}

fn rig(c: &Case) -> Result<Rig, String> {
    rig_in(c, false)
}

/// `member`: the bar is added to a MultiProgress that draws to the recording terminal (the width is
/// then asked through MultiState::width(), draw_target.rs) instead of owning the terminal itself
fn rig_in(c: &Case, member: bool) -> Result<Rig, String> {
    let spy = Spy::new(c.tw(), u16::MAX);
    let spy2 = spy.clone();
    let (tpl, chars, len, by_ctor) = (c.template(), c.chars.concat(), c.len, c.len_by_ctor);
    let (pb, mp) = catch(move || {
        let (pb, mp) = if member {
            let mp = MultiProgress::with_draw_target(ProgressDrawTarget::term_like(Box::new(spy2)));
            let pb = mp.add(ProgressBar::new(7));
            match (by_ctor, len) {
                (true, Some(l)) => pb.set_length(l),
                (true, None) => pb.unset_length(),
                _ => {}
            }
            (pb, Some(mp))
        } else {
            (
                ProgressBar::with_draw_target(if by_ctor { len } else { Some(7) }, ProgressDrawTarget::term_like(Box::new(spy2))),
                None,
            )
        };
        pb.set_style(ProgressStyle::with_template(&tpl).unwrap().progress_chars(&chars));
        if !by_ctor {
            match len {
                Some(l) => pb.set_length(l),
                None => pb.unset_length(),
            }
        }
        (pb, mp)
    })?;
    Ok(Rig { pb, spy, is_bar: matches!(c.tpl, Tpl::Bar(..)), _mp: mp })
}

fn observe(r: &Rig, pos: u64) -> Result<Obs, String> {
    observe_resized(r, pos, None)
}

/// `resize`: Some(w) changes the width of the recording terminal AFTER the position is set and the
/// fraction is read (`set_position` and `update` draw themselves) and right BEFORE the observed
/// `force_draw()`: the observed frame is the FIRST one drawn after the resize.
fn observe_resized(r: &Rig, pos: u64, resize: Option<u16>) -> Result<Obs, String> {
    let pb = &r.pb;
    let frac = catch(|| {
        pb.set_position(pos);
        let mut fr = f32::NAN;
        pb.update(|st| fr = st.fraction());
        if let Some(w) = resize {
            r.spy.set_size(w, u16::MAX);
        }
        r.spy.take();
        pb.force_draw();
        fr
    })?;
    let ops = r.spy.take();
    let strs: Vec<&String> = ops
        .iter()
        .filter_map(|o| match o {
            TOp::Str(s) if s != "\r" => Some(s),
            _ => None,
        })
        .collect();
    // draw_to_term writes the line, then the filler of the last line (src/draw_target.rs:620-626);
    // an empty rendering produces no line at all (style.rs:397)
    let line = match strs.len() {
        0 => String::new(),
        2 => strs[0].clone(),
        n => return Err(format!("unexpected terminal traffic: {n} strings {ops:?}")),
    };
    let text = if r.is_bar {
        match line.strip_prefix('[').and_then(|s| s.strip_suffix(']')) {
            Some(t) => t.to_string(),
            None => return Err(format!("line {line:?} lacks the [ ] delimiters")),
        }
    } else {
        line
    };
    Ok(Obs { frac, text })
}

/// Splits `s` into configured clusters (longest match first); None if it is not a concatenation.
fn split_cells(chars: &[String], mut s: &str) -> Option<Vec<usize>> {
    let mut order: Vec<usize> = (0..chars.len()).collect();
    order.sort_by_key(|&i| std::cmp::Reverse(chars[i].len()));
    let mut out = vec![];
    'outer: while !s.is_empty() {
        for &i in &order {
            if s.starts_with(chars[i].as_str()) {
                out.push(i);
                s = &s[chars[i].len()..];
                continue 'outer;
            }
        }
        return None;
    }
    Some(out)
}

struct Geometry {
    cells: usize,
    filled: usize,
    head: Option<usize>,
}

/// floor(num/den * (1 ± 2^-21)) in exact integer arithmetic
fn scaled_floor(num: u128, den: u128, up: bool) -> u128 {
    let k: u128 = 1 << 21;
    let f = if up { k + 1 } else { k - 1 };
    (num * f) / (den * k)
}

/// The property evaluated on one observation.  Returns the geometry for the sweep-level checks.
fn oracle(s: &mut Session, c: &Case, pos: u64, o: &Obs) -> Option<Geometry> {
    let d = || {
        let mut c2 = c.clone();
        c2.pos = pos;
        c2.desc()
    };
    let cw = c.c();
    let nchars = c.chars.len();
    // ---- fraction clause (C07): in [0,1], never NaN, exact at the ends, close to pos/len
    let fr = o.frac;
    let fr_ok = fr >= 0.0
        && fr <= 1.0
        && match c.len {
            None => fr == 0.0,
            Some(0) => fr == 1.0,
            Some(_) if pos == 0 => fr == 0.0,
            Some(l) if pos >= l => fr == 1.0,
            Some(l) => {
                // |fr - pos/len| <= 2^-21 * pos/len, in exact arithmetic on the f32's rational value
                let bits = fr.to_bits();
                let (e, m) = ((bits >> 23) & 0xff, bits & 0x7f_ffff);
                // fr = mant * 2^(ex) ; fr in (0,1] here so ex <= 0
                let (mant, ex) = if e == 0 { (m as u128, -149i32) } else { ((m | 0x80_0000) as u128, e as i32 - 150) };
                if ex > 0 || ex < -100 {
                    // pos/len >= 2^-64, so a correct fraction is >= 2^-65 (mant >= 2^23, ex >= -88)
                    false
                } else {
                    // compare mant * len * 2^21  with  pos * 2^(-ex) * (2^21 ± 1)   (wide arithmetic via f64-free u128 split)
                    // all factors: mant < 2^24, len < 2^64, pos < 2^64, 2^-ex <= 2^100: use big integers by hand
                    let lhs = big_mul(&[mant, l as u128, 1u128 << 21]);
                    let lo = big_mul(&[pos as u128, (1u128 << 21) - 1]);
                    let hi = big_mul(&[pos as u128, (1u128 << 21) + 1]);
                    let sh = (-ex) as u32;
                    big_cmp_shift(&lhs, &lo, sh) >= 0 && big_cmp_shift(&lhs, &hi, sh) <= 0
                }
            }
        };
    if !fr_ok {
        let class = if fr.is_nan() {
            "fraction-nan"
        } else if !(0.0..=1.0).contains(&fr) {
            "fraction-out-of-range"
        } else {
            "fraction-inexact"
        };
        s.fail(class, format!("fraction() = {fr:e} for pos={pos} len={:?}", c.len), d());
    }

    // ---- the bar text
    let (bar, width): (&str, usize) = match &c.tpl {
        Tpl::Bar(w, al) => {
            let n = w.unwrap_or(20) as usize;
            // padding: N mod c spaces, distributed by the alignment; the element is exactly N columns
            let t = o.text.as_str();
            let pad = n % cw;
            let (l, r) = match (w, al) {
                (None, _) => (0, 0), // {bar}: not padded
                (_, 0) => (0, pad),
                (_, 1) => (pad / 2, pad - pad / 2),
                _ => (pad, 0),
            };
            let okpad = t.len() >= l + r
                && t.is_char_boundary(l)
                && t.is_char_boundary(t.len() - r)
                && t[..l].bytes().all(|b| b == b' ')
                && t[t.len() - r..].bytes().all(|b| b == b' ');
            if !okpad {
                s.fail("bar-padding", format!("{t:?}: expected {l} leading / {r} trailing spaces"), d());
                return None;
            }
            if w.is_some() && UnicodeWidthStr::width(t) != n {
                s.fail(
                    "bar-element-width",
                    format!("{{bar:{n}}} rendered {} columns: {t:?}", UnicodeWidthStr::width(t)),
                    d(),
                );
            }
            (&t[l..t.len() - r], n)
        }
        Tpl::Wide(p, sfx, tw) => {
            let t = o.text.as_str();
            let rest = UnicodeWidthStr::width(p.as_str()) + UnicodeWidthStr::width(sfx.as_str());
            let cols = UnicodeWidthStr::width(t);
            let tw = *tw as usize;
            if rest <= tw {
                // exactly the terminal width (up to a remainder smaller than one cell), never wider
                if cols > tw {
                    s.fail("wide-line-too-wide", format!("line is {cols} columns on a {tw}-column terminal: {t:?}"), d());
                } else if cols + cw <= tw || (cw == 1 && cols != tw) {
                    s.fail("wide-line-too-narrow", format!("line is {cols} columns on a {tw}-column terminal: {t:?}"), d());
                }
            }
            match t.strip_prefix(p.as_str()).and_then(|x| x.strip_suffix(sfx.as_str())) {
                Some(b) => (b, tw.saturating_sub(rest)),
                None => {
                    s.fail("wide-line-shape", format!("line {t:?} is not PRE + bar + SUF"), d());
                    return None;
                }
            }
        }
    };
    let cells = width / cw;
    let Some(ix) = split_cells(&c.chars, bar) else {
        s.fail("bar-foreign-text", format!("bar {bar:?} is not made of the configured progress characters"), d());
        return None;
    };
    if ix.len() != cells {
        s.fail("bar-cell-count", format!("{} cells, expected floor({width}/{cw}) = {cells}: {bar:?}", ix.len()), d());
        return None;
    }
    // shape: chars[0]^filled, at most one partial cell, chars[last]^bg
    let last = nchars - 1;
    let filled = ix.iter().take_while(|&&i| i == 0).count();
    let mut rest = &ix[filled..];
    let mut head = None;
    if let Some(&h) = rest.first() {
        if h != last {
            head = Some(h);
            rest = &rest[1..];
        }
    }
    if rest.iter().any(|&i| i != last) {
        s.fail("bar-shape", format!("cells {ix:?} are not filled* partial? background*"), d());
        return None;
    }
    // filled = floor(fraction * cells): literally (binary32 product of the observed fraction) ...
    let lit = (fr * cells as f32) as usize;
    if filled != lit {
        s.fail("filled-not-floor-of-product", format!("{filled} filled cells, floor({fr:e} * {cells}) = {lit}"), d());
    }
    // ... and against exact rational arithmetic, up to the relative error of four binary32 roundings
    let (lo, hi): (u128, u128) = match c.len {
        None => (0, 0),
        Some(0) => (cells as u128, cells as u128),
        Some(l) if pos >= l => (cells as u128, cells as u128),
        Some(l) => {
            let num = pos as u128 * cells as u128;
            (scaled_floor(num, l as u128, false), scaled_floor(num, l as u128, true).min(cells as u128))
        }
    };
    if (filled as u128) < lo || (filled as u128) > hi {
        s.fail("filled-off", format!("{filled} filled cells of {cells}, pos/len*cells allows {lo}..={hi}"), d());
    }
    // end points
    if pos == 0 && c.len != Some(0) && filled != 0 {
        s.fail("filled-nonzero-at-zero", format!("{filled} filled cells at position 0"), d());
    }
    if let Some(l) = c.len {
        if pos >= l && filled != cells {
            s.fail("not-full-at-end", format!("{filled} of {cells} cells at pos >= len"), d());
        }
        if pos < l && l <= 1 << 24 && cells > 0 && filled == cells {
            s.fail("full-before-end", format!("all {cells} cells filled at pos {pos} < len {l} <= 2^24"), d());
        }
    }
    // partial cell exactly when neither empty nor full
    let neither = filled < cells && (filled > 0 || (fr > 0.0 && cells > 0));
    // with two progress characters the partial cell is drawn with the background character
    let visible_head = nchars >= 3;
    if visible_head && neither != head.is_some() {
        s.fail(
            "partial-cell-presence",
            format!("partial cell {head:?} but filled={filled} cells={cells} fraction={fr:e}"),
            d(),
        );
    }
    if let Some(h) = head {
        if h < 1 || h > nchars.saturating_sub(2).max(1) {
            s.fail("partial-cell-index", format!("partial cell uses progress character #{h} of {nchars}"), d());
        }
    }
    Some(Geometry { cells, filled, head })
}

// ---- tiny unsigned big integers (little-endian u32 limbs) for the exact fraction check
fn big_mul(fs: &[u128]) -> Vec<u32> {
    let mut acc: Vec<u32> = vec![1];
    for &f in fs {
        let limbs = [f as u32, (f >> 32) as u32, (f >> 64) as u32, (f >> 96) as u32];
        let mut out = vec![0u32; acc.len() + 4];
        for (i, &a) in acc.iter().enumerate() {
            let mut carry = 0u64;
            for (j, &b) in limbs.iter().enumerate() {
                let t = a as u64 * b as u64 + out[i + j] as u64 + carry;
                out[i + j] = t as u32;
                carry = t >> 32;
            }
            let mut k = i + 4;
            while carry > 0 {
                let t = out[k] as u64 + carry;
                out[k] = t as u32;
                carry = t >> 32;
                k += 1;
            }
        }
        acc = out;
    }
    acc
}
/// compares a with b * 2^sh
fn big_cmp_shift(a: &[u32], b: &[u32], sh: u32) -> i32 {
    let (w, bsh) = ((sh / 32) as usize, sh % 32);
    let mut bs = vec![0u32; b.len() + w + 1];
    for (i, &x) in b.iter().enumerate() {
        let v = (x as u64) << bsh;
        bs[i + w] |= v as u32;
        bs[i + w + 1] |= (v >> 32) as u32;
    }
    let n = a.len().max(bs.len());
    for i in (0..n).rev() {
        let x = a.get(i).copied().unwrap_or(0);
        let y = bs.get(i).copied().unwrap_or(0);
        if x != y {
            return if x > y { 1 } else { -1 };
        }
    }
    0
}

/// run-length encoding of the code points: [(cp, n); ...]
fn crle(t: &str) -> String {
    let mut runs: Vec<(u32, u64)> = vec![];
    for ch in t.chars() {
        match runs.last_mut() {
            Some((c, n)) if *c == ch as u32 => *n += 1,
            _ => runs.push((ch as u32, 1)),
        }
    }
    clist(runs.iter().map(|(c, n)| format!("({c}, {n})")))
}

fn coq_case(c: &Case, pos: u64, o: &Obs) -> String {
    let tpl = match &c.tpl {
        Tpl::Bar(w, al) => format!(
            "TBar {} {}",
            copt(w.map(|x| x.to_string())),
            ["ALeft", "ACenter", "ARight"][*al as usize]
        ),
        Tpl::Wide(p, sfx, tw) => format!(
            "TWide {} {} {} {}",
            cstr(p),
            cstr(sfx),
            UnicodeWidthStr::width(p.as_str()) + UnicodeWidthStr::width(sfx.as_str()),
            tw
        ),
    };
    format!(
        "({}, {}, {}, {}, {}, {}, {})",
        clist(c.chars.iter().map(|x| cstr(x))),
        c.c(),
        tpl,
        pos,
        copt(c.len.map(|x| x.to_string())),
        o.frac.to_bits(),
        crle(&o.text)
    )
}

fn count_case(s: &mut Session, c: &Case, pos: u64, g: &Option<Geometry>) {
    s.count(&format!("char_width:{}", c.c()));
    s.count(&format!("nchars:{}", c.chars.len()));
    s.count(match &c.tpl {
        Tpl::Bar(None, _) => "tpl:{bar}",
        Tpl::Bar(Some(_), 0) => "tpl:{bar:N}",
        Tpl::Bar(Some(_), 1) => "tpl:{bar:^N}",
        Tpl::Bar(Some(_), _) => "tpl:{bar:>N}",
        Tpl::Wide(..) => "tpl:{wide_bar}",
    });
    s.count(match c.len {
        None => "len:none",
        Some(0) => "len:0",
        Some(l) if l <= 100 => "len:1..=100",
        Some(l) if l < 1 << 24 => "len:101..2^24",
        Some(l) if l == 1 << 24 => "len:2^24",
        Some(l) if l < 1 << 32 => "len:2^24+1..2^32",
        Some(_) => "len:>=2^32",
    });
    s.count(match c.len {
        _ if pos == 0 => "pos:0",
        Some(l) if pos == l => "pos:=len",
        Some(l) if pos > l => "pos:>len",
        Some(l) if pos + 1 == l => "pos:len-1",
        _ => "pos:inside",
    });
    if let Some(g) = g {
        s.count(if g.cells == 0 {
            "bar:no-cells"
        } else if g.filled == 0 && g.head.is_none() {
            "bar:empty"
        } else if g.filled == g.cells {
            "bar:full"
        } else {
            "bar:partial"
        });
        if let Some(h) = g.head {
            s.count(&format!("partial_cell_char:#{h}"));
        }
        s.count(match g.cells {
            0 => "cells:0",
            1 => "cells:1",
            2..=20 => "cells:2..=20",
            21..=200 => "cells:21..=200",
            _ => "cells:>200",
        });
    }
}

/// One case compared with the model in Coq (and by the oracle).
fn run_case(s: &mut Session, c: &Case) {
    let desc = c.desc();
    let r = match rig(c) {
        Ok(r) => r,
        Err(e) => {
            s.fail("panic", format!("building the bar panicked: {e}"), desc);
            return;
        }
    };
    match observe(&r, c.pos) {
        Err(e) => s.fail("panic", format!("drawing panicked / unexpected output: {e}"), desc),
        Ok(o) => {
            let g = oracle(s, c, c.pos, &o);
            count_case(s, c, c.pos, &g);
            let nontrivial = g.as_ref().map_or(false, |g| g.cells > 0);
            s.count("coq_cases");
            s.case(coq_case(c, c.pos, &o), desc, nontrivial);
        }
    }
}

/// Oracle-only sweep over ascending positions on ONE bar (also checks monotonicity); every
/// `sample`-th observation also becomes a Coq case.
fn sweep(s: &mut Session, c: &Case, positions: &[u64], sample: usize) {
    let r = match rig(c) {
        Ok(r) => r,
        Err(e) => {
            s.fail("panic", format!("building the bar panicked: {e}"), c.desc());
            return;
        }
    };
    let mut prev: Option<(u64, usize)> = None;
    for (k, &p) in positions.iter().enumerate() {
        let mut cp = c.clone();
        cp.pos = p;
        match observe(&r, p) {
            Err(e) => s.fail("panic", format!("drawing panicked / unexpected output: {e}"), cp.desc()),
            Ok(o) => {
                let g = oracle(s, c, p, &o);
                if let (Some(g), Some((pp, pf))) = (&g, prev) {
                    if g.filled < pf {
                        s.fail(
                            "filled-not-monotone",
                            format!("{} filled cells at pos {p} but {pf} at the smaller pos {pp}", g.filled),
                            cp.desc(),
                        );
                    }
                }
                if let Some(g) = &g {
                    prev = Some((p, g.filled));
                }
                s.count("sweep_observations");
                let _ = k;
                if sample > 0 && s.dist["sweep_observations"] % sample as u64 == 0 {
                    count_case(s, c, p, &g);
                    s.count("coq_cases");
                    s.case(coq_case(c, p, &o), cp.desc(), g.as_ref().map_or(false, |g| g.cells > 0));
                } else {
                    s.evaluations += 1;
                    if g.as_ref().map_or(false, |g| g.cells > 0) {
                        s.distinct.insert(fxhash(cp.desc().as_bytes()));
                    }
                }
            }
        }
    }
}

fn pick_chars(r: &mut Rng, cw: usize, n: usize) -> Vec<String> {
    let pool: &[&str] = if cw == 1 { &W1 } else { &W2 };
    let mut idx: Vec<usize> = (0..pool.len()).collect();
    let mut out = vec![];
    for _ in 0..n {
        let k = r.below(idx.len() as u64) as usize;
        out.push(pool[idx.swap_remove(k)].to_string());
    }
    // "e\u{301}" and "e"-prefixed clusters never coexist (pool has no bare "e"): longest match is unambiguous
    out
}

const LENS: [u64; 14] = [
    1,
    2,
    3,
    7,
    10,
    100,
    253,
    1000,
    (1 << 24) - 1,
    1 << 24,
    (1 << 24) + 1,
    (1 << 32) + 7,
    u64::MAX - 1,
    u64::MAX,
];

/// interesting positions for (len, cells): the ends, every cell boundary k*len/cells -1/0/+1, the
/// binary32 exactness limit
fn boundary_positions(len: u64, cells: usize) -> Vec<u64> {
    let mut v: Vec<u64> = vec![0, 1, 2, len / 2, len.saturating_sub(2), len.saturating_sub(1), len, len.saturating_add(1), u64::MAX];
    v.extend([(1 << 24) - 1, 1 << 24, (1 << 24) + 1]);
    for k in 0..=cells as u128 {
        let b = (k * len as u128 / cells.max(1) as u128) as u64;
        v.extend([b.saturating_sub(1), b, b.saturating_add(1)]);
    }
    v.sort_unstable();
    v.dedup();
    v
}

fn gen_len(r: &mut Rng) -> Option<u64> {
    match r.below(20) {
        0 => None,
        1 => Some(0),
        2..=9 => Some(*r.pick(&LENS)),
        10..=14 => Some(r.range(1, 300)),
        15..=16 => Some(r.range(1, 1 << 25)),
        17 => Some((1u64 << r.range(1, 63)) + r.below(3) - 1),
        _ => Some(r.next()),
    }
}

fn gen_pos(r: &mut Rng, len: Option<u64>, cells: usize) -> u64 {
    let l = len.unwrap_or(100);
    match r.below(10) {
        0 => *r.pick(&[0u64, 1, u64::MAX, (1 << 24) + 1]),
        1 => l,
        2 => l.saturating_sub(1),
        3 => l.saturating_add(r.below(3)),
        4..=6 => {
            // near a cell boundary
            let k = r.below(cells as u64 + 1) as u128;
            let b = (k * l as u128 / cells.max(1) as u128) as u64;
            b.saturating_add(r.below(3)).saturating_sub(1)
        }
        _ => r.below(l.saturating_add(1).max(1)),
    }
}

fn gen_lit(r: &mut Rng, max: u64) -> String {
    let n = r.below(max + 1);
    (0..n).map(|_| *r.pick(&LIT)).collect()
}

fn gen_case(r: &mut Rng) -> Case {
    let cw = if r.chance(1, 3) { 2 } else { 1 };
    let n = if r.chance(1, 4) { *r.pick(&[2usize, 3, 10]) } else { r.range(2, 10) as usize };
    let chars = pick_chars(r, cw, n);
    let tpl = match r.below(10) {
        0 => Tpl::Bar(None, 0),
        1..=5 => {
            let w = match r.below(10) {
                0 => *r.pick(&[0u16, 1, 2, 3]),
                1 => r.range(200, 400) as u16,
                _ => r.range(0, 120) as u16,
            };
            Tpl::Bar(Some(w), if r.chance(1, 2) { 0 } else { r.range(1, 2) as u8 })
        }
        _ => {
            let (p, sfx) = (gen_lit(r, 6), gen_lit(r, 6));
            let rest = (UnicodeWidthStr::width(p.as_str()) + UnicodeWidthStr::width(sfx.as_str())) as u16;
            let tw = match r.below(8) {
                0 => rest.saturating_sub(r.below(2) as u16).max(1), // the rest does not fit / just fits
                1 => rest + r.range(1, 3) as u16,
                _ => r.range(1, 120) as u16,
            };
            Tpl::Wide(p, sfx, tw)
        }
    };
    let len = gen_len(r);
    let width = match &tpl {
        Tpl::Bar(w, _) => w.unwrap_or(20) as usize,
        Tpl::Wide(p, sfx, tw) => {
            (*tw as usize).saturating_sub(UnicodeWidthStr::width(p.as_str()) + UnicodeWidthStr::width(sfx.as_str()))
        }
    };
    let pos = gen_pos(r, len, width / cw);
    Case { chars, tpl, pos, len, len_by_ctor: r.chance(1, 2), hist: String::new() }
}

fn sv(xs: &[&str]) -> Vec<String> {
    xs.iter().map(|x| x.to_string()).collect()
}

/// `{wide_bar}` on a line that also has SIZED, non-truncating fields whose content outgrows their
/// width at run time (`{pos:>2}` at 100, `{len:3}` at 10000, `{prefix:4}` with a long prefix): such a
/// field renders as its whole content (C12), and the wide bar must size itself from what the rest of
/// the line REALLY occupies: the line is never wider than the terminal and less than one cell short
/// of it whenever the rest fits.  Oracle only (the rest of the line is computed from the property:
/// a sized field = content padded to its width, or the whole content when longer).
fn wide_next_to_sized_fields(s: &mut Session, r: &mut Rng, n: usize) {
    use indicatif::{ProgressBar, ProgressDrawTarget, ProgressStyle};
    use verif_harness::spy::Spy;
    for i in 0..n {
        let cw = if i % 3 == 2 { 2 } else { 1 };
        let chars = pick_chars(r, cw, 3);
        let (pos, len) = *r.pick(&[(3u64, 10u64), (99, 100), (100, 100), (1000, 1000), (12345, 99999), (7, 1000000)]);
        let prefix = *r.pick(&["", "dl", "Downloading", "a-very-long-prefix"]);
        let pw = *r.pick(&[0usize, 2, 4]);
        let fw = *r.pick(&[1usize, 2, 3]);
        let tw = r.range(1, 60) as u16;
        let tpl = format!("{{prefix:{pw}}}[{{wide_bar}}] {{pos:>{fw}}}/{{len:{fw}}}");
        let field = |t: &str, w: usize, right: bool| {
            let k = UnicodeWidthStr::width(t);
            if k >= w {
                t.to_string()
            } else if right {
                format!("{}{}", " ".repeat(w - k), t)
            } else {
                format!("{}{}", t, " ".repeat(w - k))
            }
        };
        let pre = format!("{}[", field(prefix, pw, false));
        let suf = format!("] {}/{}", field(&pos.to_string(), fw, true), field(&len.to_string(), fw, false));
        let desc = format!("wide-next-to-sized chars={:?} template={tpl:?} term_width={tw} prefix={prefix:?} pos={pos} len={len}", chars.concat());
        let spy = Spy::new(tw, u16::MAX);
        let sp = spy.clone();
        let (ch, tp, pf) = (chars.concat(), tpl.clone(), prefix.to_string());
        let res = catch(move || {
            let pb = std::mem::ManuallyDrop::new(ProgressBar::with_draw_target(Some(len), ProgressDrawTarget::term_like(Box::new(sp.clone()))));
            pb.set_style(ProgressStyle::with_template(&tp).unwrap().progress_chars(&ch));
            pb.set_prefix(pf);
            pb.set_position(pos);
            sp.take();
            pb.force_draw();
            sp.take()
        });
        s.count(if UnicodeWidthStr::width(pos.to_string().as_str()) > fw || UnicodeWidthStr::width(prefix) > pw {
            "wide-next-to-sized:a-field-overflows"
        } else {
            "wide-next-to-sized:fields-fit"
        });
        match res {
            Err(e) => s.fail("panic", format!("drawing panicked: {e}"), desc.clone()),
            Ok(ops) => {
                let strs: Vec<String> = ops.iter().filter_map(|o| if let TOp::Str(t) = o { Some(t.clone()) } else { None }).collect();
                if strs.len() == 2 {
                    let line = &strs[0];
                    let rest = UnicodeWidthStr::width(pre.as_str()) + UnicodeWidthStr::width(suf.as_str());
                    let cols = UnicodeWidthStr::width(line.as_str());
                    let twu = tw as usize;
                    if !(line.starts_with(&pre) && line.ends_with(&suf)) {
                        s.fail("wide-line-shape", format!("line {line:?} is not {pre:?} + bar + {suf:?}"), desc.clone());
                    } else if rest <= twu && cols > twu {
                        s.fail("wide-line-too-wide", format!("line is {cols} columns on a {twu}-column terminal (rest {rest}): {line:?}"), desc.clone());
                    } else if rest <= twu && (cols + cw <= twu || (cw == 1 && cols != twu)) {
                        s.fail("wide-line-too-narrow", format!("line is {cols} columns on a {twu}-column terminal (rest {rest}): {line:?}"), desc.clone());
                    }
                }
            }
        }
        s.oracle_only(desc, true);
    }
}

/// Terminal RESIZE between two draws: draw -> `Spy::set_size` -> draw, growing and shrinking, on a
/// plain bar (the bar owns the terminal) and on the only member of a MultiProgress.  The width handed
/// to format_state is `ProgressDrawTarget::width()` / `Drawable::width()` = `TermLike::width()` asked
/// at EVERY draw (draw_target.rs:134-142, 371-377), so every frame - the first one after a resize
/// included - must be the model's line for the width the terminal has NOW (Coq case with the current
/// width) and, oracle, exactly as wide as the terminal is now.  Seeded defect C13-6 (width cached from
/// the previous draw) formats that one frame for the old width.
fn resize_stream(s: &mut Session, r: &mut Rng, n_random: usize) {
    let abc = sv(&["#", ">", "-"]);
    let cjk = sv(&["進", "捗", "未"]);
    // (chars, PRE, SUF, widths of the terminal at the successive draws, member of a MultiProgress)
    let mut scen: Vec<(Vec<String>, String, String, Vec<u16>, bool)> = vec![
        // the witnesses of the seeded defect: 80 -> 40 -> 100 on a plain bar, 60 -> 30 in a MultiProgress
        (abc.clone(), "".into(), "  5/20".into(), vec![80, 40, 100], false),
        (abc.clone(), "".into(), "  7/20".into(), vec![60, 30], true),
        // growing first, by one column, to where the rest just fits / no longer fits, 2-column cells
        (abc.clone(), "[".into(), "]".into(), vec![10, 11, 10, 120, 3, 2, 1, 50], false),
        (abc.clone(), "[".into(), "]".into(), vec![10, 11, 10, 120, 3, 2, 1, 50], true),
        (cjk.clone(), "進{".into(), "}".into(), vec![20, 21, 9, 8, 7, 40], false),
        (cjk.clone(), "|".into(), "|".into(), vec![31, 30, 60, 5], true),
        (abc.clone(), "".into(), "".into(), vec![1, 200, 1, 65535, 80], false),
    ];
    for i in 0..n_random {
        let cw = if r.chance(1, 3) { 2 } else { 1 };
        let nch = r.range(2, 6) as usize;
        let chars = pick_chars(r, cw, nch);
        let (p, sfx) = (gen_lit(r, 4), gen_lit(r, 4));
        let k = r.range(2, 5);
        let ws: Vec<u16> = (0..k).map(|_| if r.chance(1, 6) { r.range(1, 8) as u16 } else { r.range(1, 160) as u16 }).collect();
        scen.push((chars, p, sfx, ws, i % 2 == 1));
    }
    for (chars, p, sfx, ws, member) in scen {
        let len = 20u64;
        let base = Case { chars, tpl: Tpl::Wide(p.clone(), sfx.clone(), ws[0]), pos: 0, len: Some(len), len_by_ctor: true, hist: String::new() };
        let rg = match rig_in(&base, member) {
            Ok(x) => x,
            Err(e) => {
                s.fail("panic", format!("building the bar panicked: {e}"), base.desc());
                continue;
            }
        };
        for (k, &tw) in ws.iter().enumerate() {
            let mut c = base.clone();
            c.tpl = Tpl::Wide(p.clone(), sfx.clone(), tw);
            c.pos = (5 + 2 * k as u64).min(len);
            c.hist = format!(
                "resize[{}] terminal widths at the draws so far {:?}, now {} : ",
                if member { "member of a MultiProgress" } else { "plain bar" },
                &ws[..k],
                tw
            );
            if k > 0 {
                s.count(match tw.cmp(&ws[k - 1]) {
                    std::cmp::Ordering::Less => "resize:shrink",
                    std::cmp::Ordering::Greater => "resize:grow",
                    std::cmp::Ordering::Equal => "resize:same-width",
                });
                s.count(if member { "resize:member-of-multi" } else { "resize:plain-bar" });
            }
            // the resize happens between the draws made by set_position / update and the observed
            // force_draw: that frame is the first one after the resize; then one more draw at the
            // same width (the frame after the glitch frame of C13-6 must be right as well)
            let first = observe_resized(&rg, c.pos, if k > 0 { Some(tw) } else { None });
            let again = observe(&rg, c.pos);
            if let (Ok(a), Ok(b)) = (&first, &again) {
                if a.text != b.text {
                    s.fail(
                        "resize-frame-differs",
                        format!("first frame after the resize {:?}, the next frame at the same width and position {:?}", a.text, b.text),
                        c.desc(),
                    );
                }
            }
            match first {
                Err(e) => s.fail("panic", format!("drawing panicked / unexpected output: {e}"), c.desc()),
                Ok(o) => {
                    let g = oracle(s, &c, c.pos, &o);
                    count_case(s, &c, c.pos, &g);
                    s.count("coq_cases");
                    s.count("resize:draws");
                    s.case(coq_case(&c, c.pos, &o), c.desc(), g.as_ref().map_or(false, |g| g.cells > 0));
                }
            }
        }
    }
}

fn main() {
    let a = args();
    let header = "From IndModel Require Import Base BarGeom.\nOpen Scope N_scope.\n";
    let mut s = Session::new(
        &a,
        "C13",
        header,
        "(list (list N) * N * bar_tpl * N * option N * N * list (N * N))%type",
        "bar_check",
    );
    s.rule = "a ProgressBar on a recording terminal, template [{bar}] / [{bar:N}] / [{bar:^N}] / [{bar:>N}] (N 0..=400 and u16 boundaries) or PRE{wide_bar}SUF (terminal width 1..=120, rest fitting / not fitting), progress_chars of 2..=10 distinct clusters all 1 or all 2 columns wide (ASCII, block elements, a combining sequence, CJK, emoji), length None/0/boundaries (1,2,3,7,10,100,253,1000,2^24-1,2^24,2^24+1,2^32+7,2^64-2,2^64-1)/random given to the constructor or by set_length, position by set_position at 0, the ends, cell boundaries k*len/cells-1/0/+1 and random, then force_draw(); a resize stream (draw, change the width of the recording terminal, draw again - growing and shrinking, 2..8 draws, on a plain bar and on the only member of a MultiProgress - every frame compared with the model and the oracle AT THE WIDTH THE TERMINAL HAS AT THAT DRAW); the observed fraction() bits and the rendered line are compared with the model, the oracle checks the property on them; sweeps run ascending positions on one bar (monotonicity) and only every k-th observation is also a Coq case. non-trivial = the bar has at least one cell; distinct = distinct case text".into();
    let mut r = Rng::new(a.seed);

    // ---------------- corpus: boundary cases and minimised past observations
    let abc = sv(&["#", ">", "-"]);
    let fine = sv(&["█", "▉", "▊", "▋", "▌", "▍", "▎", "▏", " ", "."]);
    let two = sv(&["=", "."]);
    let cjk = sv(&["進", "捗", "未"]);
    let mut corpus: Vec<Case> = vec![];
    let mk = |chars: &Vec<String>, tpl: Tpl, pos: u64, len: Option<u64>| Case {
        chars: chars.clone(),
        tpl,
        pos,
        len,
        len_by_ctor: true,
        hist: String::new(),
    };
    // 7/10 of 10 cells: the binary32 product 6.9999998.. rounds to 7.0
    corpus.push(mk(&abc, Tpl::Bar(Some(10), 0), 7, Some(10)));
    // 127/253 of 253 cells
    corpus.push(mk(&abc, Tpl::Bar(Some(253), 0), 127, Some(253)));
    // len = 2^24 (exact) and 2^24+1 (len as f32 rounds down to 2^24: full one step early)
    corpus.push(mk(&abc, Tpl::Bar(Some(50), 0), (1 << 24) - 1, Some(1 << 24)));
    corpus.push(mk(&abc, Tpl::Bar(Some(50), 0), 1 << 24, Some((1 << 24) + 1)));
    corpus.push(mk(&abc, Tpl::Bar(Some(50), 0), u64::MAX - 1, Some(u64::MAX)));
    corpus.push(mk(&abc, Tpl::Bar(Some(50), 0), 1, Some(u64::MAX)));
    corpus.push(mk(&abc, Tpl::Bar(Some(50), 0), u64::MAX, Some(1)));
    corpus.push(mk(&abc, Tpl::Bar(Some(50), 0), 0, Some(0)));
    corpus.push(mk(&abc, Tpl::Bar(Some(50), 0), 5, None));
    // widths at the u16 boundaries, zero cells, one cell
    for n in [0u16, 1, 2, 3, 255, 256, 32768, 65534, 65535] {
        corpus.push(mk(&fine, Tpl::Bar(Some(n), 0), 1, Some(3)));
        corpus.push(mk(&cjk, Tpl::Bar(Some(n), (n % 3) as u8), 2, Some(3)));
    }
    // every fine-grained partial character: 8 sub-steps in one cell
    for p in 0..=16 {
        corpus.push(mk(&fine, Tpl::Bar(Some(2), 0), p, Some(16)));
    }
    // the tests of the crate: half full / empty / full, two widths
    for (p, w) in [(0u64, 20u16), (5, 20), (10, 20), (5, 40), (10, 40)] {
        corpus.push(mk(&abc, Tpl::Bar(Some(w), 0), p, Some(10)));
        corpus.push(mk(&two, Tpl::Bar(Some(w), 2), p, Some(10)));
    }
    // wide bar: the default template's shape, rest fits exactly / by one / not at all, odd remainder with 2-column cells
    for tw in [1u16, 5, 6, 7, 8, 80, 81] {
        corpus.push(mk(&abc, Tpl::Wide("".into(), " 3/10".into(), tw), 3, Some(10)));
        corpus.push(mk(&cjk, Tpl::Wide("[".into(), "]".into(), tw), 3, Some(10)));
        corpus.push(mk(&cjk, Tpl::Wide("進{".into(), "}".into(), tw), 9, Some(10)));
    }
    corpus.push(mk(&abc, Tpl::Wide("".into(), "".into(), 65535), 1, Some(2)));
    for c in &corpus {
        run_case(&mut s, c);
    }
    // terminal resizes between draws (corpus: the witnesses of seeded defect C13-6 first)
    resize_stream(&mut s, &mut r, if a.thorough { 600 } else if a.extended { 400 } else { 60 });
    // a bare {bar:0} renders nothing at all (no line): oracle only
    {
        let spy = Spy::new(80, 100);
        let spy2 = spy.clone();
        let res = catch(move || {
            let pb = ProgressBar::with_draw_target(Some(10), ProgressDrawTarget::term_like(Box::new(spy2)));
            pb.set_style(ProgressStyle::with_template("{bar:0}").unwrap());
            pb.set_position(5);
            pb.force_draw();
        });
        let wrote = spy.take().iter().any(|o| matches!(o, TOp::Str(x) if x != "\r" && !x.trim().is_empty()));
        if res.is_err() || wrote {
            s.fail("bar-cell-count", format!("bare {{bar:0}}: panic={:?} wrote={wrote}", res.err()), "bare {bar:0}".into());
        }
        s.oracle_only("bare {bar:0} pos=5 len=10".into(), false);
    }

    // ---------------- random cases, each compared with the model
    let n_random = if a.thorough { 30_000 } else if a.extended { 20_000 } else { 1_800 };
    for _ in 0..n_random {
        let c = gen_case(&mut r);
        run_case(&mut s, &c);
    }

    // ---------------- sweeps (oracle on every observation, monotonicity, sampled Coq cases)
    // exhaustive small domain: N x len x ALL positions 0..=len+1 for small len, boundary positions otherwise
    let widths: Vec<u16> = if a.thorough {
        (0..=200).collect()
    } else if a.extended {
        (0..=200).step_by(3).collect()
    } else {
        vec![0, 1, 2, 3, 7, 10, 16, 20, 33, 64, 100, 127, 200]
    };
    let charsets: Vec<Vec<String>> = vec![
        two.clone(),
        abc.clone(),
        sv(&["#", "3", "2", "1", "-"]),
        fine.clone(),
        cjk.clone(),
        sv(&["完", "三", "二", "一", "未", "済"]),
    ];
    let sample = if a.thorough { 97 } else { 211 };
    for &w in &widths {
        for cs in &charsets {
            let cw = UnicodeWidthStr::width(cs[0].as_str());
            for &l in &LENS {
                let cells = w as usize / cw;
                let ps: Vec<u64> = if l <= 100 { (0..=l + 1).collect() } else { boundary_positions(l, cells) };
                let c = Case { chars: cs.clone(), tpl: Tpl::Bar(Some(w), 0), pos: 0, len: Some(l), len_by_ctor: true, hist: String::new() };
                sweep(&mut s, &c, &ps, sample);
            }
        }
    }
    // wide bar: every terminal width 1..=120 for a few rests, both cell widths
    let tws: Vec<u16> = if a.thorough || a.extended { (1..=120).collect() } else { (1..=120).step_by(7).collect() };
    for &tw in &tws {
        for cs in [&abc, &fine, &cjk] {
            for (p, sfx) in [("", ""), ("[", "]"), ("", " 12/100"), ("進捗 |", "| 9%")] {
                let rest = UnicodeWidthStr::width(p) + UnicodeWidthStr::width(sfx);
                let cw = UnicodeWidthStr::width(cs[0].as_str());
                let cells = (tw as usize).saturating_sub(rest) / cw;
                let c = Case {
                    chars: cs.clone(),
                    tpl: Tpl::Wide(p.into(), sfx.into(), tw),
                    pos: 0,
                    len: Some(100),
                    len_by_ctor: false,
                    hist: String::new(),
                };
                sweep(&mut s, &c, &boundary_positions(100, cells), sample);
            }
        }
    }
    // long ascending random walks at large lengths (monotonicity where rounding of pos/len matters)
    let walks = if a.thorough { 400 } else if a.extended { 200 } else { 30 };
    for _ in 0..walks {
        let cs = r.pick(&charsets).clone();
        let l = match r.below(4) {
            0 => (1 << 24) + r.below(1 << 20),
            1 => r.next() | (1 << 63),
            2 => r.range(1 << 30, 1 << 40),
            _ => r.range(1000, 1 << 24),
        };
        let w = r.range(1, 300) as u16;
        let mut p = if r.chance(1, 2) { 0 } else { r.below(l) };
        let mut ps = vec![];
        for _ in 0..200 {
            ps.push(p);
            let step = match r.below(4) {
                0 => 1,
                1 => r.below(4),
                2 => l / (w as u64 * 8).max(1),
                _ => r.below(l / 50 + 2),
            };
            p = p.saturating_add(step);
        }
        let c = Case { chars: cs, tpl: Tpl::Bar(Some(w), 0), pos: 0, len: Some(l), len_by_ctor: true, hist: String::new() };
        sweep(&mut s, &c, &ps, sample);
    }
    let coq = s.dist.get("coq_cases").copied().unwrap_or(0);
    s.notes.push(format!(
        "{} of the {} evaluations are compared with the Coq model (fraction() bits + every code point of the line); the remaining {} sweep observations are checked by the oracle only (property clauses + monotonicity along ascending positions)",
        coq,
        s.evaluations,
        s.evaluations - coq
    ));
    wide_next_to_sized_fields(&mut s, &mut r, if a.thorough { 3000 } else { 400 });
    s.finish();
}
